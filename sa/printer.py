"""Printer model shared by C01 / C03 / C04: value classes per schema slot, PAI evaluation of
PrettyPrinter.process_attribute, lexical classification of the emitted value template."""

from __future__ import annotations

from dataclasses import dataclass
from typing import Any, Callable

from . import absval as av
from . import pai
from .absval import SStr, SNum, SBool, HDict, Atom, CC, Rep
from .core import AnalysisError
from . import models

HEXC = CC.of("0123456789abcdef")
WORD = CC.of("abcdefghijklmnopqrstuvwxyzABCDEFGHIJKLMNOPQRSTUVWXYZ0123456789")
LOWER = CC.of("abcdefghijklmnopqrstuvwxyz")
NOSPECIAL = frozenset("\"'`()[]{}/#\\% \t\n\r,")


@dataclass
class VClass:
    name: str  # BOOL, INT, FLOAT, ENUM:w, STR_PLAIN, STR_HEX, STR_BIND, STR_EXPR, STR_NOTEXPR, STR_REGEX, STR_REGEX_I, STR_LIST, LIST_NUM(n), LIST_BIND(n), LIST_MIXED, LIST_HEX(2), EMPTYDICT
    make: Callable[[str], Any]  # quote char -> abstract value
    expect: str  # required lexical class of the printed value: QUOTED | BARE_UPPER | BARE_NUM | BARE_BOOL | VERBATIM | LIST | RAISE


def plain(q: str) -> SStr:
    """Free text: alphanumeric at both ends, no quote of either kind, not a vocabulary word."""
    return SStr.atom("s", first=WORD, last=WORD, excludes=frozenset("\"'`"), free=True)


def padded(q: str) -> SStr:
    """Free text with a space at either end (must survive verbatim inside the quotes)."""
    return SStr([" ", Atom("s", first=WORD, last=WORD, excludes=frozenset("\"'`"), free=True), " "])


def bindv(name="b"):
    return SStr(["[", Atom(name, first=WORD, last=WORD, excludes=NOSPECIAL, free=True), "]"])


def hexv():
    return SStr(["#", Atom("hex", first=HEXC, last=HEXC, excludes=NOSPECIAL | frozenset("ABCDEFGHIJKLMNOPQRSTUVWXYZ"), is_lower=True)])


def classes_for(S, type_name: str, key: str, node: dict) -> list[VClass]:
    out: list[VClass] = []
    seen = set()

    def add(vc: VClass):
        if vc.name not in seen:
            seen.add(vc.name)
            out.append(vc)

    alts = S.alternatives(node)
    str_like = False
    has_expr = any(a.cls == "STR" and a.sub == "EXPR" for a in alts)
    has_regex = any(a.cls == "STR" and a.sub == "REGEX" for a in alts)
    has_object = False
    has_bind = any(a.cls == "STR" and a.sub == "BIND" for a in alts)
    for a in alts:
        if a.cls == "BOOL":
            add(VClass("BOOL:true", lambda q: True, "BARE_BOOL"))
            add(VClass("BOOL:false", lambda q: False, "BARE_BOOL"))
        elif a.cls == "ENUM":
            for w in a.words:
                add(VClass(f"ENUM:{w}", lambda q, w=w: SStr.atom("enumword", lower_is=w.lower()), "BARE_UPPER"))
            if a.nonstring:
                add(VClass("INT", lambda q: SNum.sym("n", None, None), "BARE_NUM"))
        elif a.cls in ("INT",):
            add(VClass("INT", lambda q: SNum.sym("n", None, None), "BARE_NUM"))
        elif a.cls == "NUM":
            add(VClass("INT", lambda q: SNum.sym("n", None, None), "BARE_NUM"))
            add(VClass("FLOAT", lambda q: SNum.sym("x", None, None, True), "BARE_NUM"))
        elif a.cls == "STR":
            str_like = True
            if a.sub in ("PLAIN", "OTHERPATTERN", "HEXQ"):
                add(VClass("STR_PLAIN", plain, "QUOTED"))
                if a.sub == "PLAIN":
                    add(VClass("STR_PADDED", padded, "QUOTED"))
                    # a string that spells a number (a symbol named "2", NAME "7") is still a string
                    add(VClass("STR_DIGITS", lambda q: "12", "QUOTED"))
                    # content wrapped in the *other* quote character (TEXT "'[name]'"): those inner quotes are
                    # content, the value still needs its own pair
                    add(VClass("STR_IN_ALTQUOTES", lambda q: SStr([{'"': "'", "'": '"'}[q], Atom("inner", first=LOWER, last=WORD, excludes=frozenset("\"'`\\"), free=True), {'"': "'", "'": '"'}[q]]), "QUOTED"))
                    add(VClass("STR_EMPTY", lambda q: "", "QUOTED"))
                    # an escaped output quote inside or at the end of the text (escaped quotes are within C01; only unescaped ones are excluded)
                    add(VClass("STR_ESC_QUOTE_END", lambda q: SStr([Atom("s", first=LOWER, last=WORD, excludes=frozenset("\"'`\\"), free=True), "\\" + q]), "QUOTED"))
                    add(VClass("STR_ESC_QUOTE_MID", lambda q: SStr([Atom("s", first=LOWER, last=WORD, excludes=frozenset("\"'`\\"), free=True), "\\" + q, Atom("t", first=LOWER, last=CC.of("abcdefgh"), excludes=frozenset("\"'`\\"), free=True)]), "QUOTED"))
                    # free text with one bracket / brace only: not a binding, not a list expression
                    add(VClass("STR_HALF_BRACKET", lambda q: SStr([Atom("s", first=LOWER, last=WORD, excludes=frozenset("\"'`[](){}/"), free=True), "]"]), "QUOTED"))
                    add(VClass("STR_HALF_BRACE", lambda q: SStr(["{", Atom("s", first=LOWER, last=WORD, excludes=frozenset("\"'`[](){}/"), free=True)]), "QUOTED"))
                    # free text that merely looks like the tail of a case-insensitive regex / the head of a NOT
                    # expression - in keywords that cannot hold expressions (for those that can, C01 excludes look-alikes)
                    if not (has_expr or has_regex):
                      add(VClass("STR_ENDS_QI", lambda q: SStr([Atom("s", first=LOWER, last=WORD, excludes=frozenset("\"'`"), free=True), ("'" if q == '"' else '"') + "i"]), "QUOTED"))
                      add(VClass("STR_NOT_WORD", lambda q: SStr(["NOT ", Atom("s", first=WORD, last=WORD, excludes=frozenset("\"'`()"), free=True)]), "QUOTED"))
            elif a.sub == "HEX":
                add(VClass("STR_HEX", lambda q: hexv(), "QUOTED"))
            elif a.sub == "BIND":
                add(VClass("STR_BIND", lambda q: bindv(), "VERBATIM"))
            elif a.sub == "EXPR":
                add(VClass("STR_EXPR", lambda q: SStr(["(", Atom("e", nonempty=True, free=True), ")"]), "VERBATIM"))
                add(VClass("STR_NOTEXPR", lambda q: SStr(["NOT (", Atom("e", nonempty=True, free=True), ")"]), "VERBATIM"))
            elif a.sub == "REGEX":
                add(VClass("STR_REGEX", lambda q: SStr(["/", Atom("re", nonempty=True, free=True, excludes=frozenset("\n")), "/"]), "VERBATIM"))
        elif a.cls == "LIST":
            tags = {x.tag() for x in a.items or []}
            lo, hi = a.min_items or 0, a.max_items
            if tags and all(t.startswith("OBJECT") for t in tags):
                continue
            if any(t.startswith("LIST[") for t in tags):
                continue  # POINTS / PATTERN: special writers
            if tags <= {"NUM", "INT"}:
                n = hi or max(lo, 2)
                add(VClass(f"LIST_NUM({n})", lambda q, n=n: [SNum.sym(f"n{i}", None, None) for i in range(n)], "LIST"))
            elif tags == {"STR_BIND"}:
                add(VClass("LIST_BIND(2)", lambda q: [bindv("b1"), bindv("b2")], "LIST"))
            elif "STR_BIND" in tags:
                add(VClass("LIST_MIXED:num,bind", lambda q: [SNum.sym("n0", None, None), bindv("b1")], "LIST"))
                add(VClass("LIST_MIXED:bind,num", lambda q: [bindv("b1"), SNum.sym("n0", None, None)], "LIST"))
                add(VClass("LIST_NUM(2)", lambda q: [SNum.sym("n0", None, None), SNum.sym("n1", None, None)], "LIST"))
                add(VClass("LIST_BIND(2)", lambda q: [bindv("b1"), bindv("b2")], "LIST"))
            elif tags == {"STR_PLAIN"} and lo == hi == 2:
                add(VClass("LIST_HEX(2)", lambda q: [hexv(), hexv()], "LIST"))
            elif tags == {"STR_PLAIN"}:
                continue  # repeated keys / PROJECTION: special writers
            else:
                raise AnalysisError(f"list class {a.tag()} of {type_name}.{key}")
        elif a.cls == "ANY":
            # the schema says nothing: a user-supplied string must still be quoted, a number bare
            add(VClass("STR_PLAIN", plain, "QUOTED"))
            add(VClass("INT", lambda q: SNum.sym("n", None, None), "BARE_NUM"))
        elif a.cls == "OBJECT":
            has_object = True
            continue
    top = node
    if isinstance(top, dict) and "allOf" in top and len(top["allOf"]) == 1:
        top = top["allOf"][0]
    is_expression_slot = "expression.json" in S.raw and top is S.expanded("expression.json")
    if has_regex and is_expression_slot:
        # expression-capable slot (expression.json): case-insensitive regex strings, list expressions
        add(VClass("STR_REGEX_I", lambda q: SStr([q, Atom("re", nonempty=True, free=True, excludes=frozenset("\"'")), q, "i"]), "VERBATIM"))
        if key == "expression":
            add(VClass("STR_LIST", lambda q: SStr(["{", Atom("l", nonempty=True, free=True, excludes=frozenset("{}")), "}"]), "VERBATIM"))
    if out or has_object:
        # what the dict API can leave under any keyword and no Mapfile text can express: the empty dictionary
        # a read of a missing key creates, and a dictionary that is not a block (no __type__)
        add(VClass("EMPTYDICT", lambda q: _empty_dict(), "RAISE"))
        add(VClass("DICT_NO_TYPE", lambda q: _typeless_dict(), "RAISE"))

    return out


def _typeless_dict() -> HDict:
    d = _empty_dict()
    d["somekey"] = SStr([Atom("v", nonempty=True, free=True)])
    return d


def _empty_dict() -> HDict:
    d = HDict()
    d.pytype = "ordereddict.CaseInsensitiveOrderedDict"  # type: ignore[misc]
    d.ci = True
    return d


def attr_line(I, pp, type_name: str, key: str, value: Any):
    """(kind, line | exception) of the one line PrettyPrinter._format writes for ``key`` in an
    otherwise empty object of ``type_name`` (printer made with indent=0: no leading whitespace).
    Entered through _format - the method pprint() itself calls - so that the private writers may
    change their signatures freely."""
    d = HDict()
    d.pytype = "ordereddict.CaseInsensitiveOrderedDict"  # type: ignore[misc]
    d.ci = True
    d.factory = None
    d["__type__"] = type_name
    d[key] = value
    mk = lambda: (pp() if callable(pp) else pp, [d], models.fmt_level_kw(I.repo, 0))  # level by name: it may be keyword-only
    try:
        outs = I.explore(models.fmt_qual(I.repo), mk)
    except AnalysisError as ex:
        if "undecided predicate (forking disabled)" not in str(ex) or I.allow_fork:
            raise
        # a test the value class leaves open (e.g. the length of an unknown text): follow both branches; the
        # line is accepted only if every branch writes the same thing
        I.allow_fork = True
        try:
            outs = I.explore(models.fmt_qual(I.repo), mk)
        finally:
            I.allow_fork = False
        if outs:
            def sig(o_):
                return (o_.kind, o_.exc if o_.kind == "raise" else tuple(pai.as_sstr(x) if isinstance(x, (str, SStr)) else repr(x) for x in (o_.value or [])))

            if len({sig(o_) for o_ in outs}) == 1:
                outs = outs[:1]
    if len(outs) != 1:
        raise AnalysisError(f"_format forks for {type_name}.{key}: {[o.assumptions for o in outs]}")
    o = outs[0]
    if o.kind == "raise":
        return "raise", o.exc
    lines = list(o.value)
    if len(lines) != 3:
        return "malformed", SStr([" / ".join(pai.as_sstr(x).describe() for x in lines)])
    return "line", pai.as_sstr(lines[1])


def glued_under_alignment(env, L):
    """For every keyword of every type, printed as the only (hence longest) keyword of its object with
    align_values=True under several indents: yields (type, keyword, [(indent, line start)] where the keyword
    runs into its value)."""
    from .layout import cdict as cd, word as W
    from .props.c19 import special_block_rules

    S, G, repo = env.S, env.G, env.repo
    special_keys = set(special_block_rules(G))
    repeated = repo.const("tokens", "REPEATED_KEYS")
    for t in S.types():
        if t == "symbolset":
            continue
        for k, node in sorted(S.slots(t).items()):
            if k in special_keys:
                continue
            classes = [vc for vc in classes_for(S, t, k, node) if vc.expect not in ("RAISE",)]
            if not classes:
                continue
            vc = next((c for c in classes if c.expect == "BARE_NUM"), classes[0])
            bad = []
            for indent in (0, 1, 2, 4, 7):
                is_rep = k in repeated
                mk = lambda t=t, k=k, vc=vc, is_rep=is_rep: cd([("__type__", t), (k, [W("rep")] if is_rep else vc.make('"'))])
                outs = L.format_lines(mk, lambda indent=indent: L.sym_options(end_comment=False, align_values=True, indent=indent, spacer=" "), level=0, fork=False)
                if len(outs) != 1 or outs[0][1] != "return":
                    raise AnalysisError(f"_format not evaluable for {t}.{k}: {outs}")
                for ln in outs[0][2]:
                    s2 = pai.as_sstr(ln)
                    txt = "".join(p if isinstance(p, str) else "\u25a1" for p in s2.pieces)
                    stripped = txt.lstrip(" ")
                    if stripped.upper().startswith(k.upper()) and len(stripped) > len(k) and stripped[len(k)] != " ":
                        bad.append((indent, stripped[:24]))
            yield t, k, bad


class PrinterRaised(AnalysisError):
    """The printer itself (the repository code, as evaluated) raises a Python exception for this input."""


def block_lines(I, pp, type_name: str, items: list) -> list:
    """Lines PrettyPrinter._format writes between the opener and the END of an object of
    ``type_name`` holding ``items`` (printer made with indent=0)."""
    d = HDict()
    d.pytype = "ordereddict.CaseInsensitiveOrderedDict"  # type: ignore[misc]
    d.ci = True
    d.factory = None
    d["__type__"] = type_name
    for k, v in items:
        d[k] = v
    outs = I.explore(models.fmt_qual(I.repo), lambda: (pp() if callable(pp) else pp, [d], models.fmt_level_kw(I.repo, 0)))  # level by name: it may be keyword-only
    if len(outs) == 1 and outs[0].kind == "raise":
        raise PrinterRaised(f"_format raises {outs[0].exc} on a {type_name} holding {[k for k, _ in items]}")
    if len(outs) != 1:
        raise AnalysisError(f"_format not evaluable on a {type_name} holding {[k for k, _ in items]}: {[(o.kind, o.exc) for o in outs]}")
    lines = list(outs[0].value)
    if len(lines) < 2 or pai.as_sstr(lines[0]) != SStr([type_name.upper()]) or pai.as_sstr(lines[-1]) != SStr(["END"]):
        raise AnalysisError(f"_format output for {type_name} does not have the opener ... END shape: {lines!r}")
    return lines[1:-1]


def kv_dict(type_name: str, items: list) -> HDict:
    d = HDict()
    d.pytype = "ordereddict.CaseInsensitiveOrderedDict"  # type: ignore[misc]
    d.ci = True
    d.factory = None
    d["__type__"] = type_name
    for k, v in items:
        d[k] = v
    return d


def dispatch_shapes(env, special: dict, olk, repeated) -> list:
    """Behavioural dispatch table of PrettyPrinter._format: for every keyword that needs its own writer
    (the grammar's keyword-introduced block rules, one object-list key, one singleton block, one
    repeated keyword) the lines written for a representative value, judged against the shape the
    grammar reads back.  Returns [(keyword, ok, description)]."""
    from . import layout as _l

    I = env.interp(allow_fork=False)
    mk = lambda: models.printer(I, quote='"', indent=0, end_comment=False)
    out = []

    def text(x):
        return pai.as_sstr(x).describe()

    for kw, info in sorted(special.items()):
        if kw in ("metadata", "validation", "values", "connectionoptions"):
            val, owner = kv_dict(kw, [("akey", _l.word("v"))]), "layer"
            want = lambda ls, kw=kw: len(ls) == 3 and text(ls[0]) == kw.upper() and text(ls[2]) == "END" and text(ls[1]).startswith('"akey" ')
        elif kw == "projection":
            val, owner = [_l.word("p")], "layer"
            want = lambda ls: len(ls) == 3 and text(ls[0]) == "PROJECTION" and text(ls[2]) == "END" and text(ls[1]).startswith('"')
        elif kw in ("points", "pattern"):
            val, owner = [(SNum.sym("a", None, None), SNum.sym("b", None, None))], ("feature" if kw == "points" else "style")
            want = lambda ls, kw=kw: len(ls) == 3 and text(ls[0]) == kw.upper() and text(ls[2]) == "END"
        elif kw == "config":
            d = HDict()
            d["akey"] = _l.word("v")
            val, owner = d, "map"
            want = lambda ls: len(ls) == 1 and text(ls[0]).startswith("CONFIG ")
        else:
            raise AnalysisError(f"no representative value for the special block {kw}")
        try:
            lines = block_lines(I, mk, owner, [(kw, val)])  # any other AnalysisError means "cannot evaluate", not "wrong shape"
        except PrinterRaised as ex:
            out.append((kw, False, str(ex)))
            continue
        out.append((kw, bool(want(lines)), " / ".join(text(x) for x in lines)))
    # an object list, a singleton block, a repeated keyword
    extra = []
    if "classes" in olk:
        extra.append(("classes", "layer", [kv_dict("class", [("name", _l.word("cn"))])], lambda ls: len(ls) == 3 and text(ls[0]) == "CLASS" and text(ls[2]) == "END"))
    extra.append(("web", "map", kv_dict("web", [("template", _l.word("t"))]), lambda ls: len(ls) == 3 and text(ls[0]) == "WEB" and text(ls[2]) == "END"))
    if "processing" in repeated:
        extra.append(("processing", "layer", [_l.word("p1"), _l.word("p2")], lambda ls: len(ls) == 2 and all(text(x).startswith("PROCESSING ") for x in ls)))
    for kw, owner, val, want in extra:
        try:
            lines = block_lines(I, mk, owner, [(kw, val)])
        except PrinterRaised as ex:
            out.append((kw, False, str(ex)))
            continue
        out.append((kw, bool(want(lines)), " / ".join(text(x) for x in lines)))
    return out


class PrinterModel:
    def __init__(self, env: models.Env):
        self.env = env
        self.I = env.interp(allow_fork=False, max_paths=64)
        self.memo: dict = {}
        self.evals = 0

    def value_template(self, type_name: str, key: str, vc: VClass, q: str):
        """(kind, template) of process_attribute's value part: template is what follows 'KEY '."""

        kind, line = attr_line(self.I, lambda: models.printer(self.I, quote=q, indent=0), type_name, key, vc.make(q))
        self.evals += 1
        if kind != "line":
            return kind, line
        prefix = key.upper() + " "
        if not line.startswith(prefix):
            return "malformed", line
        return "line", line.slice(len(prefix), None)


def lexical_class(t: SStr, q: str) -> str:
    """QUOTED | BARE | other, from the template's shape."""
    p = t.pieces
    if not p:
        return "EMPTY"
    if isinstance(p[0], str) and p[0].startswith(q) and isinstance(p[-1], str) and p[-1].endswith(q) and len(p) >= 2 or (len(p) == 1 and isinstance(p[0], str) and len(p[0]) >= 2 and p[0][0] == q and p[0][-1] == q):
        return "QUOTED"
    return "BARE"
