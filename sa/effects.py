"""E2 - effect and state analysis: which functions mutate which parameters (through aliases and
callees), which write module- or class-level state, which return an alias of a parameter."""

from __future__ import annotations

import ast
from dataclasses import dataclass, field
from typing import Any, Iterable

from .core import AnalysisError, Repo, norm
from .pyfacts import Facts, Guard, calls_in, dotted, guards_at, bind_args

MUTATORS = {
    "append", "extend", "insert", "pop", "remove", "clear", "update", "setdefault", "move_to_end", "sort", "reverse",
    "popitem", "add", "discard", "__setitem__", "__delitem__", "appendleft", "write_through",
}
# methods whose result is (part of) the receiver
PART_OF = {"get", "items", "values", "keys", "pop", "setdefault", "copy", "__getitem__", "popitem"}
# builtins / stdlib whose result shares elements with their arguments (shallow)
SHALLOW = {"list", "tuple", "sorted", "reversed", "enumerate", "zip", "iter", "next", "filter", "map", "set", "frozenset", "dict", "OrderedDict", "zip_longest", "max", "min"}
# externals known not to mutate their arguments and to return fresh / immutable values
PURE_EXTERNAL = {
    "len", "isinstance", "str", "int", "float", "bool", "repr", "any", "all", "type", "callable", "hasattr", "getattr", "id", "print", "sum", "abs", "range",
    "json.dumps", "json.loads", "json.load", "copy.deepcopy", "copy.copy", "os.path.join", "os.path.dirname", "os.path.abspath", "os.path.isabs", "os.path.isfile",
    "os.path.realpath", "os.path.splitext", "os.getcwd", "os.path.isdir", "glob.glob", "codecs.decode", "click.echo", "click.format_filename", "sys.exit",
    "log.error", "log.warning", "log.info", "log.debug", "logger.exception", "warnings.warn", "warnings.simplefilter", "functools.wraps",
    "jsonschema.Draft4Validator", "Resource.from_contents", "Registry", "super", "Tree", "Token", "Token.new_borrow_pos",
    "ValueError", "KeyError", "IOError", "TypeError", "SyntaxError", "UnboundLocalError",
    # path strings / text handed to the OS or to lark: immutable str arguments
    "open", "codecs.open", "self.lalr.parse_interactive", "self.lalr.parse",
    # lark transformers work on the parse tree built inside the same public call
    "Transformer.transform", "Transformer_InPlace.transform", "Canonize().transform",
    # C17 decides what reaches OrderedDict
    "OrderedDict.__init__", "OrderedDict.__contains__", "OrderedDict.__getitem__", "OrderedDict.__class__",
    # construction of a repo class that defines no __init__ (dataclasses): stores references, mutates nothing
    "object.__init__",
    # a typing.NamedTuple subclass: an immutable tuple of references to its arguments
    "NamedTuple.__init__", "NamedTuple.__new__", "NamedTuple._asdict", "NamedTuple._replace",
}


@dataclass
class Site:
    qual: str
    node: ast.AST
    kind: str  # 'store' | 'del' | 'mutator' | 'external'
    params: frozenset
    guards: list
    text: str

    def key(self) -> str:
        return f"{self.qual} | {self.text}"


@dataclass
class Summary:
    qual: str
    params: list
    sites: dict = field(default_factory=dict)  # param -> list[Site] (primitive sites, incl. those of callees)
    returns: set = field(default_factory=set)  # params the result may alias
    global_writes: list = field(default_factory=list)
    self_attr_writes: dict = field(default_factory=dict)  # attr -> list[ast node]
    unknown_external: list = field(default_factory=list)


class Effects:
    def __init__(self, repo: Repo, facts: Facts):
        self.repo = repo
        self.facts = facts
        self.sum: dict[str, Summary] = {}
        self.fns = dict(repo.all_functions())
        self._derived: dict[str, dict[str, set]] = {}
        for q, fn in self.fns.items():
            a = fn.args
            params = [p.arg for p in a.posonlyargs + a.args] + ([a.vararg.arg] if a.vararg else []) + [p.arg for p in a.kwonlyargs] + ([a.kwarg.arg] if a.kwarg else [])
            self.sum[q] = Summary(q, params)
        changed = True
        rounds = 0
        while changed:
            rounds += 1
            if rounds > 30:
                raise AnalysisError("effect analysis did not converge")
            changed = False
            for q, fn in self.fns.items():
                if self._analyse(q, fn):
                    changed = True

    # -------------------------------------------------------------------------------------------

    def _callsite(self, q: str, call: ast.Call):
        for cs in self.facts.calls.get(q, []):
            if cs.node is call:
                return cs
        return None

    def _callsites(self, q: str, call: ast.Call) -> list:
        """All resolutions of one call (several when the callee comes out of a dispatch table)."""
        return [cs for cs in self.facts.calls.get(q, []) if cs.node is call]

    def roots(self, q: str, expr: ast.AST, derived: dict[str, set], params: set) -> set:
        """Parameters the value of ``expr`` may alias or be part of."""
        if isinstance(expr, ast.Name):
            out = set(derived.get(expr.id, ()))
            if expr.id in params:
                out.add(expr.id)
            return out
        if isinstance(expr, (ast.Subscript, ast.Starred)):
            # an element of a shallow copy is a part of the original
            return {r.rstrip("*") for r in self.roots(q, expr.value, derived, params)}
        if isinstance(expr, ast.Attribute):
            return self.roots(q, expr.value, derived, params)
        if isinstance(expr, (ast.BoolOp,)):
            return set().union(*[self.roots(q, v, derived, params) for v in expr.values])
        if isinstance(expr, ast.IfExp):
            return self.roots(q, expr.body, derived, params) | self.roots(q, expr.orelse, derived, params)
        if isinstance(expr, (ast.Tuple, ast.List, ast.Set)):
            return set().union(*[self.roots(q, v, derived, params) for v in expr.elts]) if expr.elts else set()
        if isinstance(expr, ast.Dict):
            return set().union(*[self.roots(q, v, derived, params) for v in expr.values]) if expr.values else set()
        if isinstance(expr, (ast.ListComp, ast.SetComp, ast.GeneratorExp)):
            d2 = dict(derived)
            for g in expr.generators:
                r = {x.rstrip("*") for x in self.roots(q, g.iter, d2, params)}
                for n in ast.walk(g.target):
                    if isinstance(n, ast.Name):
                        d2[n.id] = set(d2.get(n.id, ())) | r
            return self.roots(q, expr.elt, d2, params)
        if isinstance(expr, ast.Call):
            f = expr.func
            d = dotted(f)
            css = self._callsites(q, expr)
            cs = css[0] if css else None
            if cs is not None and cs.target:
                out = set()
                for cs in css:
                    callee = self.sum.get(cs.target)
                    tfn = self.fns.get(cs.target)
                    if callee is None or tfn is None:
                        continue
                    is_ctor = cs.target.endswith(".__init__")
                    bound = self._bind(cs, expr, tfn)
                    for p, a in bound.items():
                        if a is None:
                            continue
                        if p in callee.returns:
                            out |= self.roots(q, a, derived, params)
                        elif is_ctor and self._is_dict_class(cs.target):
                            out |= {r if r.endswith("*") else r + "*" for r in self.roots(q, a, derived, params)}
                return out
            if isinstance(f, ast.Attribute) and f.attr in PART_OF:
                return self.roots(q, f.value, derived, params)
            if cs is not None and cs.external in ("object.__init__", "NamedTuple.__init__"):
                # a repo class without __init__ (e.g. a @dataclass): the new object holds its arguments
                out = set()
                for a in list(expr.args) + [k.value for k in expr.keywords]:
                    out |= {r if r.endswith("*") else r + "*" for r in self.roots(q, a, derived, params)}
                return out
            if d in SHALLOW or (d and d.split(".")[-1] in SHALLOW):
                out = set()
                for a in expr.args:
                    out |= {r if r.endswith("*") else r + "*" for r in self.roots(q, a, derived, params)}
                return out
            return set()
        return set()

    def _is_dict_class(self, init_qual: str) -> bool:
        return init_qual.startswith("ordereddict.")

    def _bind(self, cs, call: ast.Call, tfn: ast.FunctionDef) -> dict:
        is_method = cs.target.count(".") == 2
        decos = [dotted(d) for d in tfn.decorator_list]
        skip = is_method and "staticmethod" not in decos
        if getattr(cs, "explicit_self", False):
            # a plain function object taken from a class-level table: self is the first positional argument
            return bind_args(call, tfn, skip_self=False)
        b = bind_args(call, tfn, skip_self=skip)
        if skip and isinstance(call.func, ast.Attribute):
            params = [p.arg for p in tfn.args.args]
            if params:
                recv = call.func.value
                d = dotted(recv)
                # Class.method(self, ...) unbound call: first positional is self
                if d and d[0].isupper() and call.args:
                    b = bind_args(call, tfn, skip_self=False)
                else:
                    b[params[0]] = recv
        return b

    def _analyse(self, q: str, fn: ast.FunctionDef) -> bool:
        S = self.sum[q]
        params = set(S.params)
        mod = q.split(".")[0]
        mi = self.repo.modules[mod]
        # ---- aliases (flow-insensitive fixed point) --------------------------------------------
        derived: dict[str, set] = {}
        localnames = set(params)
        globs = set()
        for n in ast.walk(fn):
            if isinstance(n, ast.Global):
                globs |= set(n.names)
            if isinstance(n, ast.Name) and isinstance(n.ctx, ast.Store):
                localnames.add(n.id)
            if isinstance(n, (ast.FunctionDef, ast.ClassDef)) and n is not fn:
                localnames.add(n.name)
        localnames -= globs
        stable = False
        zipinfo: dict[str, list] = {}
        while not stable:
            stable = True

            def bind_target(t: ast.AST, r: set):
                nonlocal stable
                for n in ast.walk(t):
                    if isinstance(n, ast.Name):
                        cur = derived.setdefault(n.id, set())
                        if not r <= cur:
                            cur |= r
                            stable = False

            def zip_parts(it: ast.AST):
                """roots per tuple position when iterating zip(...)/zip_longest(...)/enumerate(...)"""
                if isinstance(it, ast.Name) and it.id in zipinfo:
                    return zipinfo[it.id]
                if isinstance(it, ast.Call):
                    d = dotted(it.func)
                    if d in ("list", "tuple", "iter") and len(it.args) == 1:
                        return zip_parts(it.args[0])
                    if d in ("zip", "zip_longest", "itertools.zip_longest"):
                        return [self.roots(q, a, derived, params) for a in it.args]
                    if d == "enumerate" and it.args:
                        return [set(), self.roots(q, it.args[0], derived, params)]
                return None

            def bind_iter(target: ast.AST, it: ast.AST):
                parts = zip_parts(it)
                if parts is not None and isinstance(target, (ast.Tuple, ast.List)) and len(target.elts) == len(parts):
                    for te, r in zip(target.elts, parts):
                        bind_target(te, {x.rstrip("*") for x in r})
                else:
                    bind_target(target, {x.rstrip("*") for x in self.roots(q, it, derived, params)})

            for n in ast.walk(fn):
                if isinstance(n, ast.Assign):
                    r = self.roots(q, n.value, derived, params)
                    for t in n.targets:
                        if isinstance(t, (ast.Name, ast.Tuple, ast.List)):
                            bind_target(t, r)
                        if isinstance(t, ast.Name):
                            zp = zip_parts(n.value) if isinstance(n.value, ast.Call) else None
                            if zp is not None and zipinfo.get(t.id) != zp:
                                zipinfo[t.id] = zp
                elif isinstance(n, ast.AnnAssign) and n.value is not None and isinstance(n.target, ast.Name):
                    bind_target(n.target, self.roots(q, n.value, derived, params))
                elif isinstance(n, ast.AugAssign) and isinstance(n.target, ast.Name):
                    bind_target(n.target, self.roots(q, n.value, derived, params))
                elif isinstance(n, (ast.For, ast.AsyncFor)):
                    bind_iter(n.target, n.iter)
                elif isinstance(n, ast.comprehension):
                    bind_iter(n.target, n.iter)
                elif isinstance(n, ast.withitem) and n.optional_vars is not None:
                    bind_target(n.optional_vars, self.roots(q, n.context_expr, derived, params))
                elif isinstance(n, ast.NamedExpr):
                    bind_target(n.target, self.roots(q, n.value, derived, params))
        self._derived[q] = derived

        new_sites: dict[str, dict[str, Site]] = {}
        new_returns: set = set()
        gw: list = []
        self_writes: dict[str, list] = {}
        unknown: list = []

        def add_site(node, kind, ps, text=None):
            ps = {p for p in ps if not p.endswith("*")}
            if not ps:
                return
            try:
                gs = guards_at(fn, node)
            except AnalysisError:
                gs = []
            site = Site(q, node, kind, frozenset(ps), gs, text or norm(node))
            k2 = site.key() + " @ " + "; ".join(str(g) for g in gs)
            for p in ps:
                new_sites.setdefault(p, {})[k2] = site

        def is_global_name(name: str) -> bool:
            return (name not in localnames or name in globs) and (name in mi.assigns or name in mi.classes or name in mi.imports or name in globs)

        def global_base(t: ast.AST) -> str | None:
            base = t
            while isinstance(base, (ast.Subscript, ast.Attribute)):
                base = base.value
            if isinstance(base, ast.Name) and is_global_name(base.id):
                return base.id
            d = dotted(t.value) if isinstance(t, (ast.Attribute, ast.Subscript)) else None
            if d in ("self.__class__", "cls") or (d and d.startswith("type(")):
                return d
            if isinstance(t, ast.Attribute) and isinstance(t.value, ast.Call) and dotted(t.value.func) == "type":
                return "type(self)"
            return None

        call_funcs = {id(c.func) for c in calls_in(fn)}
        for n in ast.walk(fn):
            if isinstance(n, (ast.FunctionDef, ast.Lambda)) and n is not fn:
                continue
            targets: list = []
            kind = "store"
            if isinstance(n, ast.Assign):
                targets = list(n.targets)
            elif isinstance(n, (ast.AugAssign, ast.AnnAssign)):
                targets = [n.target]
            elif isinstance(n, ast.Delete):
                targets = list(n.targets)
                kind = "del"
            flat = []
            for t in targets:
                if isinstance(t, (ast.Tuple, ast.List)):
                    flat += list(t.elts)
                else:
                    flat.append(t)
            for t in flat:
                if isinstance(t, ast.Name):
                    if t.id in globs:
                        gw.append((n, f"global {t.id} assigned"))
                    continue
                if isinstance(t, (ast.Subscript, ast.Attribute)):
                    gb = global_base(t)
                    if gb:
                        gw.append((n, f"{kind} into module/class-level object {gb}: {norm(t)}"))
                    ps = self.roots(q, t.value, derived, params)
                    add_site(n, kind, ps, norm(n))
                    if isinstance(t, ast.Attribute) and dotted(t.value) == "self":
                        self_writes.setdefault(t.attr, []).append(n)
                    elif dotted(_base_attr(t)) and dotted(_base_attr(t)).startswith("self."):
                        self_writes.setdefault(dotted(_base_attr(t)).split(".")[1], []).append(n)
            if isinstance(n, ast.Call):
                f = n.func
                cs = self._callsite(q, n)
                if isinstance(f, ast.Attribute) and f.attr in MUTATORS and not (cs and cs.target):
                    ps = self.roots(q, f.value, derived, params)
                    add_site(n, "mutator", ps)
                    base = f.value
                    gb = None
                    b2 = base
                    while isinstance(b2, (ast.Subscript, ast.Attribute)):
                        b2 = b2.value
                    if isinstance(b2, ast.Name) and is_global_name(b2.id) and b2.id not in mi.imports:
                        gw.append((n, f"mutator {f.attr}() on module-level object {b2.id}"))
                    d = dotted(base)
                    if d and d.startswith("self.") :
                        self_writes.setdefault(d.split(".")[1], []).append(n)
                for cs in [c for c in self._callsites(q, n) if c.target and c.target in self.sum]:
                    callee = self.sum[cs.target]
                    tfn = self.fns[cs.target]
                    bound = self._bind(cs, n, tfn)
                    for p, a in bound.items():
                        if a is None or p not in callee.sites:
                            continue
                        ps = {x for x in self.roots(q, a, derived, params) if not x.endswith("*")}
                        if ps:
                            try:
                                cg = guards_at(fn, n)
                            except AnalysisError:
                                cg = []
                            for site in list(callee.sites[p].values()):
                                s2 = Site(site.qual, site.node, site.kind, site.params, cg + site.guards, site.text)
                                k2 = site.key() + " @ " + "; ".join(str(g) for g in s2.guards)
                                if len(s2.guards) > 40:
                                    continue
                                gset = {str(g) for g in s2.guards}
                                for pp in ps:
                                    # a path whose guards include those of a recorded path to the same
                                    # primitive site adds nothing (the less guarded path decides)
                                    redundant = False
                                    for pool in (S.sites.get(pp, {}), new_sites.get(pp, {})):
                                        for ex in pool.values():
                                            if ex.key() == s2.key() and {str(g) for g in ex.guards} <= gset:
                                                redundant = True
                                    if not redundant:
                                        new_sites.setdefault(pp, {})[k2] = s2
                cs = self._callsite(q, n)
                if cs and cs.target and cs.target in self.sum:
                    pass
                elif cs is not None and not cs.target:
                    name = cs.external or cs.text
                    short = name.split(".")[-1] if name else ""
                    if isinstance(f, ast.Attribute) and (f.attr in MUTATORS or f.attr in PART_OF or f.attr in ("lower", "upper", "strip", "startswith", "endswith", "replace", "join", "format", "split", "read", "write", "items", "keys", "values", "get", "union", "message", "iter_errors", "encode", "index", "count", "search", "match", "fullmatch", "findall", "finditer", "sub", "subn", "partition", "rpartition", "splitlines", "rsplit", "lstrip", "rstrip", "isdigit", "isalpha", "decode")):
                        pass
                    elif name in PURE_EXTERNAL or short in SHALLOW or name in SHALLOW or (name and name.startswith(("log.", "logging.", "logger."))):
                        pass
                    else:
                        argroots = set()
                        for a in list(n.args) + [k.value for k in n.keywords]:
                            argroots |= {x.rstrip("*") for x in self.roots(q, a, derived, params)}
                        if argroots - {"self", "cls"}:
                            unknown.append((n, name, frozenset(argroots)))
            if isinstance(n, ast.Attribute) and n.attr in MUTATORS and isinstance(n.ctx, ast.Load):
                # a bound mutator handed out as a value (self._comments.append as lexer callback):
                # whoever holds it writes the attribute
                d = dotted(n.value)
                if d and d.startswith("self.") and id(n) not in call_funcs:
                    self_writes.setdefault(d.split(".")[1], []).append(n)
            if isinstance(n, ast.Return) and n.value is not None:
                rr = {x.rstrip("*") for x in self.roots(q, n.value, derived, params)}
                # `return x` reached only when x is known not to be a list / dict: scalar, no alias
                if isinstance(n.value, ast.Name) and rr:
                    try:
                        gs = guards_at(fn, n)
                    except AnalysisError:
                        gs = []
                    excl = set()
                    for g in gs:
                        if not g.positive and isinstance(g.test, ast.Call) and dotted(g.test.func) == "isinstance" and len(g.test.args) == 2 and isinstance(g.test.args[0], ast.Name) and g.test.args[0].id == n.value.id:
                            t = g.test.args[1]
                            excl |= {dotted(e) for e in (t.elts if isinstance(t, ast.Tuple) else [t])}
                    if {"list", "dict"} <= excl:
                        rr = set()
                new_returns |= rr

        changed = False
        for p, sites in new_sites.items():
            cur = S.sites.setdefault(p, {})
            for k, s in sites.items():
                if k not in cur:
                    cur[k] = s
                    changed = True
        if not new_returns <= S.returns:
            S.returns |= new_returns
            changed = True
        S.global_writes = gw
        S.self_attr_writes = self_writes
        S.unknown_external = unknown
        return changed

    # -------------------------------------------------------------------------------------------

    def mutation_sites(self, qual: str, param: str) -> list[Site]:
        S = self.sum.get(qual)
        if S is None:
            raise AnalysisError(f"anchor vanished: {qual}")
        if param not in S.params:
            raise AnalysisError(f"anchor vanished: parameter {param} of {qual}")
        return list(S.sites.get(param, {}).values())

    def taint(self, roots: list[tuple[str, list[str]]]) -> dict[str, set]:
        """Parameters that may receive (parts of) the given root parameters, through call sites."""
        tainted: dict[str, set] = {}
        todo = []
        for q, ps in roots:
            tainted.setdefault(q, set()).update(ps)
            todo.append(q)
        while todo:
            q = todo.pop()
            fn = self.fns.get(q)
            if fn is None:
                continue
            derived = self._derived.get(q, {})
            params = set(self.sum[q].params)
            for cs in self.facts.calls.get(q, []):
                if not cs.target or cs.target not in self.sum:
                    continue
                tfn = self.fns[cs.target]
                for p, a in self._bind(cs, cs.node, tfn).items():
                    if a is None:
                        continue
                    r = {x.rstrip("*") for x in self.roots(q, a, derived, params)}
                    if r & tainted.get(q, set()):
                        cur = tainted.setdefault(cs.target, set())
                        if p not in cur:
                            cur.add(p)
                            todo.append(cs.target)
        return tainted

    def derived(self, qual: str) -> dict[str, set]:
        return self._derived.get(qual, {})


def _base_attr(t: ast.AST) -> ast.AST:
    """For self.x[...]... return the `self.x` attribute node."""
    b = t
    while isinstance(b, (ast.Subscript,)) or (isinstance(b, ast.Attribute) and not (isinstance(b.value, ast.Name))):
        b = b.value
    return b
