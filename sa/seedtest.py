"""Run the registered checks against a seeded change kept under /verif/seeded/<id>/.

    python -m sa.seedtest <id> [--all-props]

Applies seeded/<id>/patch.diff to /repo (git apply), runs the checks, and undoes it straight
afterwards (git checkout -- .).  Prints which checks fire.  Never commits anything in /repo.
"""

from __future__ import annotations

import argparse
import concurrent.futures as cf
import json
import os
import subprocess
import sys

from .core import VERIF

REPO = "/repo"
ALL = [f"C{i:02d}" for i in range(1, 21)]


def sh(cmd, **kw):
    return subprocess.run(cmd, capture_output=True, text=True, **kw)


def main(argv=None) -> int:
    ap = argparse.ArgumentParser()
    ap.add_argument("seed")
    ap.add_argument("--props", default=None, help="comma separated; default: all")
    args = ap.parse_args(argv)
    d = os.path.join(VERIF, "seeded", args.seed)
    patch = os.path.join(d, "patch.diff")
    meta = json.load(open(os.path.join(d, "meta.json")))
    st = sh(["git", "-C", REPO, "status", "--porcelain"])
    if st.stdout.strip():
        print("refusing: /repo has uncommitted changes")
        return 2
    ap_ = sh(["git", "-C", REPO, "apply", patch])
    if ap_.returncode != 0:
        ap_ = sh(["git", "-C", REPO, "apply", "--3way", patch])
        if ap_.returncode != 0:
            print("patch does not apply:", ap_.stderr[:400])
            sh(["git", "-C", REPO, "checkout", "--", "."])
            return 2
        sh(["git", "-C", REPO, "reset", "-q"])
    try:
        props = args.props.split(",") if args.props else ALL
        env = dict(os.environ, VERIF_EVIDENCE_DIR="/tmp/seed_ev", VERIF_OUT_DIR="/tmp/seed_out")

        def run(p):
            r = sh([sys.executable, "-m", "sa.check", p], cwd=VERIF, env=env, timeout=900)
            first = next((l for l in r.stdout.splitlines() if l.startswith("  rule=")), "")
            return p, r.returncode, first[:260], next((l for l in r.stdout.splitlines() if l.startswith("ANALYSIS")), "")[:200]

        fired = {}
        with cf.ThreadPoolExecutor(max_workers=10) as ex:
            for p, rc, first, an in ex.map(run, props):
                if rc != 0:
                    fired[p] = {"rc": rc, "first": first or an}
        target = meta.get("property")
        print(f"seed {args.seed} (property {target}): checks with non-zero exit: {sorted(fired)}")
        for p, x in sorted(fired.items()):
            print(f"  {p} rc={x['rc']} {x['first']}")
        caught = target in fired and fired[target]["rc"] == 1
        print("CAUGHT by its own property's check" if caught else ("caught by another property's check only" if any(x["rc"] == 1 for x in fired.values()) else "MISSED"))
        res = {"fired": fired, "caught_by_target": caught}
        with open(os.path.join(d, "result.json"), "w") as f:
            json.dump(res, f, indent=1)
        return 0
    finally:
        sh(["git", "-C", REPO, "checkout", "--", "."])
        sh(["rm", "-rf", "/tmp/seed_ev", "/tmp/seed_out"])


if __name__ == "__main__":
    sys.exit(main())
