"""Mutation survey (tooling, not a registered check): which small edits of /repo/mappyfile/*.py pass the
repository's test suite, and which of those do the property checks report?

    python -m sa.mutate gen   [--out /tmp/mut/mutants.json]
    python -m sa.mutate tests [--jobs 14]        # qualify: mutants that still pass the pinned suite
    python -m sa.mutate checks [--jobs 14]       # run the 20 quick checks on the survivors
    python -m sa.mutate report

Work files live under /tmp/mut (nothing a registered command needs).  The result that is kept is the
hand-triaged summary in DESIGN.md and the selftest variants derived from it.
"""

from __future__ import annotations

import argparse
import ast
import concurrent.futures as cf
import json
import os
import random
import shutil
import subprocess
import sys
import tempfile

from .core import VERIF

WORK = "/tmp/mut"
FILES = ["pprint.py", "transformer.py", "parser.py", "validator.py", "dictutils.py", "ordereddict.py", "quoter.py", "utils.py", "cli.py"]
CMP = {ast.Eq: "!=", ast.NotEq: "==", ast.Lt: "<=", ast.LtE: "<", ast.Gt: ">=", ast.GtE: ">", ast.In: "not in", ast.NotIn: "in", ast.Is: "is not", ast.IsNot: "is"}
CMP_TXT = {ast.Eq: "==", ast.NotEq: "!=", ast.Lt: "<", ast.LtE: "<=", ast.Gt: ">", ast.GtE: ">=", ast.In: "in", ast.NotIn: "not in", ast.Is: "is", ast.IsNot: "is not"}


def offsets(src: str):
    starts = [0]
    b = src.encode("utf-8")
    for i, ch in enumerate(b):
        if ch == 10:
            starts.append(i + 1)
    return b, starts


def gen_file(repo: str, fn: str) -> list[dict]:
    path = os.path.join(repo, "mappyfile", fn)
    src = open(path, encoding="utf-8").read()
    b, starts = offsets(src)
    tree = ast.parse(src)
    out = []

    def pos(node, end=False):
        return starts[(node.end_lineno if end else node.lineno) - 1] + (node.end_col_offset if end else node.col_offset)

    def add(kind, a, z, new, line, func):
        old = b[a:z].decode("utf-8")
        if old == new:
            return
        out.append({"file": fn, "kind": kind, "start": a, "end": z, "old": old, "new": new, "line": line, "func": func})

    def walk(node, func):
        for ch in ast.iter_child_nodes(node):
            f2 = func
            if isinstance(ch, (ast.FunctionDef, ast.ClassDef)):
                f2 = (func + "." if func else "") + ch.name
            visit(ch, f2)
            walk(ch, f2)

    def visit(n, func):
        if isinstance(n, ast.Compare) and len(n.ops) == 1:
            a, z = pos(n.left, True), pos(n.comparators[0])
            seg = b[a:z].decode("utf-8")
            txt = CMP_TXT[type(n.ops[0])]
            if seg.strip().strip("()") .strip() == txt or txt in seg:
                i = seg.find(txt)
                add("cmp", a + len(seg[:i].encode()), a + len(seg[:i].encode()) + len(txt), CMP[type(n.ops[0])], n.lineno, func)
        elif isinstance(n, ast.BoolOp):
            txt, new = ("and", "or") if isinstance(n.op, ast.And) else ("or", "and")
            for l, r in zip(n.values, n.values[1:]):
                a, z = pos(l, True), pos(r)
                seg = b[a:z].decode("utf-8")
                i = seg.find(txt)
                if i >= 0:
                    add("bool", a + len(seg[:i].encode()), a + len(seg[:i].encode()) + len(txt), new, n.lineno, func)
        elif isinstance(n, ast.UnaryOp) and isinstance(n.op, ast.Not):
            add("not", pos(n), pos(n.operand), "", n.lineno, func)
        elif isinstance(n, ast.Constant) and isinstance(n.value, bool):
            add("const", pos(n), pos(n, True), str(not n.value), n.lineno, func)
        elif isinstance(n, ast.Constant) and isinstance(n.value, int) and not isinstance(n.value, bool):
            add("const", pos(n), pos(n, True), str(n.value + 1), n.lineno, func)
            if n.value > 0:
                add("const", pos(n), pos(n, True), str(n.value - 1), n.lineno, func)
        elif isinstance(n, ast.If) and func:
            # force the branch
            add("if-true", pos(n.test), pos(n.test, True), "True", n.lineno, func)
            add("if-false", pos(n.test), pos(n.test, True), "False", n.lineno, func)
        elif isinstance(n, (ast.Expr, ast.Assign, ast.AugAssign)) and func:
            if isinstance(n, ast.Expr) and isinstance(n.value, ast.Constant):
                return  # docstring
            if isinstance(n, ast.Expr) and isinstance(n.value, ast.Call) and (ast.unparse(n.value.func).startswith("log.") or ast.unparse(n.value.func).startswith("logging.")):
                return  # logging calls are not behaviour the properties speak about
            add("del-stmt", pos(n), pos(n, True), "pass", n.lineno, func)
        elif isinstance(n, ast.Return) and n.value is not None and func and not (isinstance(n.value, ast.Constant) and n.value.value is None):
            add("return-none", pos(n.value), pos(n.value, True), "None", n.lineno, func)
        elif isinstance(n, (ast.Break, ast.Continue)) and func:
            add("del-stmt", pos(n), pos(n, True), "pass", n.lineno, func)

    walk(tree, "")
    # keep only mutants that compile
    good = []
    for m in out:
        nb = b[: m["start"]] + m["new"].encode() + b[m["end"] :]
        try:
            compile(nb.decode("utf-8"), fn, "exec")
        except SyntaxError:
            continue
        good.append(m)
    return good


def apply(m: dict, root: str):
    path = os.path.join(root, "mappyfile", m["file"])
    b = open(path, "rb").read()
    assert b[m["start"] : m["end"]].decode() == m["old"], "stale mutant"
    open(path, "wb").write(b[: m["start"]] + m["new"].encode() + b[m["end"] :])


def cmd_gen(args):
    os.makedirs(WORK, exist_ok=True)
    ms = []
    for fn in FILES:
        ms += gen_file(args.repo, fn)
    for i, m in enumerate(ms):
        m["id"] = f"m{i:04d}"
    json.dump(ms, open(os.path.join(WORK, "mutants.json"), "w"), indent=0)
    by = {}
    for m in ms:
        by[m["file"]] = by.get(m["file"], 0) + 1
    print(len(ms), "mutants", by)


def _worker_dir(repo: str) -> str:
    d = tempfile.mkdtemp(prefix="mutw_", dir=WORK)
    subprocess.run(f"git -C {repo} archive HEAD | tar x -C {d}", shell=True, check=True)
    return d


def run_tests(m: dict, repo: str) -> dict:
    d = _worker_dir(repo)
    try:
        apply(m, d)
        env = dict(os.environ, PYTHONPATH=d, PYTHONDONTWRITEBYTECODE="1")
        try:
            p = subprocess.run([sys.executable, "-m", "pytest", "-q", "-x", "-p", "no:cacheprovider", "--timeout=300", "tests", "docs/examples", "--deselect", "tests/test_map_collection.py::test_maps"], cwd=d, env=env, capture_output=True, text=True, timeout=1500)
            tail = p.stdout.strip().splitlines()[-1:] or [""]
            return {"id": m["id"], "survived": p.returncode == 0, "tail": tail[0][:120]}
        except subprocess.TimeoutExpired:
            return {"id": m["id"], "survived": False, "tail": "timeout"}
    finally:
        shutil.rmtree(d, ignore_errors=True)


def cmd_tests(args):
    ms = json.load(open(os.path.join(WORK, "mutants.json")))
    done_p = os.path.join(WORK, "tests.json")
    done = {r["id"]: r for r in json.load(open(done_p))} if os.path.exists(done_p) else {}
    todo = [m for m in ms if m["id"] not in done]
    if args.sample and len(todo) > args.sample:
        random.Random(1).shuffle(todo)
        todo = todo[: args.sample]
    print(len(todo), "to run")
    with cf.ThreadPoolExecutor(max_workers=args.jobs) as ex:
        for i, r in enumerate(ex.map(lambda m: run_tests(m, args.repo), todo)):
            done[r["id"]] = r
            if i % 20 == 0:
                json.dump(list(done.values()), open(done_p, "w"))
                print(i, sum(1 for x in done.values() if x["survived"]), "survivors so far", flush=True)
    json.dump(list(done.values()), open(done_p, "w"))
    print("survivors:", sum(1 for x in done.values() if x["survived"]), "of", len(done))


def run_checks(m: dict, repo: str) -> dict:
    d = tempfile.mkdtemp(prefix="mutc_", dir=WORK)
    try:
        shutil.copytree(os.path.join(repo, "mappyfile"), os.path.join(d, "mappyfile"), ignore=shutil.ignore_patterns("__pycache__"))
        apply(m, d)
        env = dict(os.environ, VERIF_REPO=d, VERIF_EVIDENCE_DIR=os.path.join(d, "ev"), VERIF_OUT_DIR=os.path.join(d, "out"))
        res = {}
        for i in range(1, 21):
            prop = f"C{i:02d}"
            p = subprocess.run([sys.executable, "-m", "sa.check", prop], cwd=VERIF, env=env, capture_output=True, text=True, timeout=900)
            if p.returncode != 0:
                first = next((l.strip() for l in p.stdout.splitlines() if l.startswith("  rule=")), "") or next((l for l in p.stdout.splitlines() if l.startswith("ANALYSIS")), "")
                res[prop] = {"rc": p.returncode, "first": first[:200]}
        return {"id": m["id"], "fired": res}
    finally:
        shutil.rmtree(d, ignore_errors=True)


def cmd_checks(args):
    ms = {m["id"]: m for m in json.load(open(os.path.join(WORK, "mutants.json")))}
    tests = json.load(open(os.path.join(WORK, "tests.json")))
    surv = [ms[r["id"]] for r in tests if r["survived"]]
    done_p = os.path.join(WORK, "checks.json")
    done = {r["id"]: r for r in json.load(open(done_p))} if os.path.exists(done_p) else {}
    todo = [m for m in surv if m["id"] not in done]
    print(len(todo), "survivors to check")
    with cf.ThreadPoolExecutor(max_workers=args.jobs) as ex:
        for i, r in enumerate(ex.map(lambda m: run_checks(m, args.repo), todo)):
            done[r["id"]] = r
            if i % 10 == 0:
                json.dump(list(done.values()), open(done_p, "w"))
                print(i, flush=True)
    json.dump(list(done.values()), open(done_p, "w"))


def cmd_report(args):
    ms = {m["id"]: m for m in json.load(open(os.path.join(WORK, "mutants.json")))}
    tests = {r["id"]: r for r in json.load(open(os.path.join(WORK, "tests.json")))}
    checks = {r["id"]: r for r in json.load(open(os.path.join(WORK, "checks.json")))} if os.path.exists(os.path.join(WORK, "checks.json")) else {}
    surv = [i for i, r in tests.items() if r["survived"]]
    caught = [i for i in surv if i in checks and any(x["rc"] == 1 for x in checks[i]["fired"].values())]
    err_only = [i for i in surv if i in checks and checks[i]["fired"] and i not in caught]
    silent = [i for i in surv if i in checks and not checks[i]["fired"]]
    print(f"mutants {len(ms)}, tested {len(tests)}, survive the test suite {len(surv)}; of those: VIOLATION from some check {len(caught)}, analysis error only {len(err_only)}, all checks silent {len(silent)}")
    if args.list:
        for name, ids in (("SILENT", silent), ("ERR", err_only), ("CAUGHT", caught)):
            if args.list not in (name, "ALL"):
                continue
            for i in sorted(ids):
                m = ms[i]
                fired = " ".join(f"{p}:{x['rc']}" for p, x in checks[i]["fired"].items())
                print(f"{name} {i} {m['file']}:{m['line']} {m['func']} [{m['kind']}] {m['old'][:50]!r} -> {m['new'][:30]!r} {fired}")


def cmd_one(args):
    ms = {m["id"]: m for m in json.load(open(os.path.join(WORK, "mutants.json")))}
    for i in args.ids.split(","):
        r = run_checks(ms[i], args.repo)
        m = ms[i]
        print(i, f"{m['file']}:{m['line']} {m['func']} [{m['kind']}] {m['old'][:40]!r} -> {m['new'][:20]!r}")
        for p_, x in r["fired"].items():
            print("   ", p_, x["rc"], x["first"][:200])
        if not r["fired"]:
            print("    all checks exit 0")


def main(argv=None):
    ap = argparse.ArgumentParser()
    ap.add_argument("cmd", choices=["gen", "tests", "checks", "report", "one"])
    ap.add_argument("--ids", default="")
    ap.add_argument("--repo", default="/repo")
    ap.add_argument("--jobs", type=int, default=14)
    ap.add_argument("--sample", type=int, default=0)
    ap.add_argument("--list", default="")
    args = ap.parse_args(argv)
    {"gen": cmd_gen, "tests": cmd_tests, "checks": cmd_checks, "report": cmd_report, "one": cmd_one}[args.cmd](args)


if __name__ == "__main__":
    main()
