"""Abstract round trip (C01 / C04): printed value template -> token kinds -> LALR acceptance ->
transformer callbacks (PAI) -> value; all on shape classes, no text is lexed or parsed."""

from __future__ import annotations

from typing import Any

from . import models, pai, printer, xform
from .absval import SStr, SNum, SObj, Atom, HDict
from .core import AnalysisError

DELEGATED = "delegated"


class RoundTrip:
    def __init__(self, env: models.Env):
        self.env = env
        self.G = env.G
        self.PM = printer.PrinterModel(env)
        self.X = xform.AbstractTransformer(env)
        # int(str(n)) == n, float(str(x)) == x  (trusted: Python's number formatting round-trips)
        st = self.X.I.stubs

        def hook_int(fr, v, node):
            if isinstance(v, SStr) and len(v.pieces) == 1 and isinstance(v.pieces[0], Atom) and v.pieces[0].name.startswith("str("):
                return SNum.sym(v.pieces[0].name[4:-1], None, None)
            if isinstance(v, SStr):
                return SNum.sym(f"int({v.describe()})", None, None)
            raise AnalysisError(f"int() of {v!r}")

        def hook_float(fr, v, node):
            if isinstance(v, SStr) and len(v.pieces) == 1 and isinstance(v.pieces[0], Atom) and v.pieces[0].name.startswith("str("):
                return SNum.sym(v.pieces[0].name[4:-1], None, None, True)
            if isinstance(v, SStr):
                return SNum.sym(f"float({v.describe()})", None, None, True)
            raise AnalysisError(f"float() of {v!r}")

        st["hook:int"] = hook_int
        st["hook:float"] = hook_float
        self._retag_memo: dict = {}
        self._root_memo: dict = {}

    # -- lexing of a template by shape ----------------------------------------------------------------

    def tokens_of(self, tmpl: SStr, q: str, vc: printer.VClass) -> list[tuple] | str:
        """List of (terminal kind, text) for the value template, or DELEGATED for opaque expressions."""
        p = list(tmpl.pieces)
        if not p:
            raise AnalysisError("empty value template")

        def is_num_atom(x):
            return isinstance(x, Atom) and x.name.startswith("str(")

        def num_kind(x):
            return "SIGNED_FLOAT" if x.name[4:-1].startswith("x") else "SIGNED_INT"

        # quoted
        if isinstance(p[0], str) and p[0].startswith(q) and isinstance(p[-1], str) and (p[-1].endswith(q) or p[-1].endswith(q + "i")) and len(p) >= 2 and q not in "".join(x if isinstance(x, str) else "x" for x in p)[1:].rstrip("i")[:-1].replace("\\" + q, ""):
            kind = "DOUBLE_QUOTED_STRING" if q == '"' else "SINGLE_QUOTED_STRING"
            if p[0] == q + "#" and len(p) == 3 and isinstance(p[1], Atom) and p[1].name == "hex":
                kind = "DOUBLE_QUOTED_HEXCOLOR" if q == '"' else "SINGLE_QUOTED_HEXCOLOR"
            return [(kind, tmpl)]
        # wrapped in the other quote character: the lexer reads that as a quoted string too
        oq = "'" if q == '"' else '"'
        if len(p) >= 2 and isinstance(p[0], str) and p[0].startswith(oq) and isinstance(p[-1], str) and p[-1].endswith(oq) and oq not in "".join(x if isinstance(x, str) else "x" for x in p)[1:-1].replace("\\" + oq, ""):
            return [("DOUBLE_QUOTED_STRING" if oq == '"' else "SINGLE_QUOTED_STRING", tmpl)]
        if len(p) == 1 and isinstance(p[0], str):
            words = p[0].split(" ")
            return [("WORD", w) for w in words]
        if len(p) == 1 and is_num_atom(p[0]):
            return [(num_kind(p[0]), SStr([p[0]]))]
        if len(p) == 1 and isinstance(p[0], Atom) and p[0].name == "enumword":
            return [("UNQUOTED_STRING", tmpl)]  # an enumerated word written bare in some letter case
        if isinstance(p[0], str) and p[0] == "[" and len(p) == 3 and p[2] == "]":
            # the name inside the brackets is a plain word: which terminal it is, is the lexer's business
            return [("LSQB", "["), ("NAMEWORD", SStr([p[1]])), ("RSQB", "]")]
        if isinstance(p[0], str) and p[0].startswith("/") and isinstance(p[-1], str) and p[-1].endswith("/"):
            return [("REGEXP1", tmpl)]
        if isinstance(p[0], str) and (p[0].startswith("(") or p[0].startswith("NOT (") or p[0].startswith("{")):
            return DELEGATED
        # space separated list of numbers / bindings / quoted strings
        toks: list[tuple] = []
        cur: list[Any] = []

        def flush():
            if cur:
                sub = SStr(cur)
                r = self.tokens_of(sub, q, vc)
                if r == DELEGATED:
                    raise AnalysisError("expression inside a list value")
                toks.extend(r)
                cur.clear()

        if not any(isinstance(piece, str) and " " in piece for piece in p):
            return [("UNLEXABLE", tmpl)]
        for piece in p:
            if isinstance(piece, str) and " " in piece:
                parts = piece.split(" ")
                for i, part in enumerate(parts):
                    if i:
                        flush()
                    if part:
                        cur.append(part)
            else:
                cur.append(piece)
        if not toks and cur and len(cur) == len(p):
            # a single field that no token shape covers (e.g. bare text starting with '#')
            return [("UNLEXABLE", tmpl)]
        flush()
        return toks

    # -- acceptance ------------------------------------------------------------------------------------

    def accepted(self, type_name: str, key: str, toks: list[tuple], parent: str | None = None) -> tuple[bool, str, list]:
        items: list[tuple] = [("W", type_name.upper()), ("W", key.upper())]
        for kind, text in toks:
            if kind == "UNLEXABLE":
                t = text.describe() if isinstance(text, SStr) else str(text)
                return False, f"the bare text {t} is not a token of any value kind" + (" (it starts a comment)" if t.startswith("#") else ""), []
            if kind == "WORD":
                items.append(("W", text))
            elif kind == "NAMEWORD":
                items.append(("W", "attrname"))  # a representative identifier, lexed in context
            else:
                items.append(("K", kind))
        items.append(("W", "END"))
        if parent:
            items = [("W", parent.upper())] + items + [("W", "END")]

        if not hasattr(self, "_retag"):
            self._retag = models.make_retag(self.env)
        try:
            return self.G.run_items(items, self._retag)
        except models.RetagRaised as ex:
            return False, f"Parser.parse raises {ex} in its token loop", []

    # -- transformer -------------------------------------------------------------------------------------

    def reparse_value(self, key: str, toks: list[tuple], kinds: list[str]) -> Any:
        """Evaluate the callback chain for `KEY <tokens>` and return the stored value."""
        X = self.X
        vals: list[Any] = []
        i = 0
        val_kinds = kinds[2 : 2 + len(toks)]
        raw = []
        for (kind, text), k2 in zip(toks, val_kinds):
            if kind in ("WORD", "NAMEWORD"):
                raw.append((k2, text))
            else:
                raw.append((k2 if k2 else kind, text))
        j = 0
        children: list[Any] = []
        while j < len(raw):
            kind, text = raw[j]
            if kind == "LSQB":
                w = models.token(raw[j + 1][0] or "UNQUOTED_STRING", raw[j + 1][1])
                children.append(("attr_bind", X.eval_callback("attr_bind", lambda w=w: [w])))
                j += 3
                continue
            tok = models.token(kind, text)
            cb = {"SIGNED_INT": "int", "SIGNED_FLOAT": "float", "DOUBLE_QUOTED_STRING": "string", "SINGLE_QUOTED_STRING": "string", "DOUBLE_QUOTED_HEXCOLOR": "hexcolor", "SINGLE_QUOTED_HEXCOLOR": "hexcolor", "REGEXP1": "regexp", "TRUE": "true", "FALSE": "false"}.get(kind)
            if cb:
                children.append((cb, X.eval_callback(cb, lambda tok=tok: [tok])))
            else:
                children.append((None, tok))
            j += 1
        vals = []
        for cb, outs in children:
            if cb is None:
                vals.append(outs)
                continue
            if len(outs) != 1 or outs[0].kind != "return":
                raise AnalysisError(f"callback {cb} does not return on a printed value: {[(o.kind, o.exc) for o in outs]}")
            vals.append(outs[0].value)
        cbs = [c for c, _ in children]
        n = len(vals)
        if n == 1:
            value_child = vals[0]
        else:
            if all(c in ("int", "float") for c in cbs):
                rule = {2: "num_pair", 3: "rgb", 4: "extent", 6: "colorrange"}.get(n)
                if rule == "rgb" and not all(c == "int" for c in cbs):
                    rule = None
            elif all(c == "attr_bind" for c in cbs) and n == 2:
                rule = "attr_bind_pair"
            elif n == 2 and set(cbs) <= {"attr_bind", "int", "float"}:
                rule = "attr_mixed_pair"
            elif n == 2 and all(c == "hexcolor" for c in cbs):
                rule = "hexcolorrange"
            else:
                rule = None
            if rule is None:
                raise AnalysisError(f"no value rule for the printed sequence {cbs}")
            outs = X.eval_callback(rule, lambda: list(vals))
            if len(outs) != 1 or outs[0].kind != "return":
                raise AnalysisError(f"callback {rule} fails on a printed value")
            value_child = outs[0].value
        keytok = models.token("UNQUOTED_STRING", key.upper())
        outs = X.eval_callback("attr", lambda: [keytok, value_child])
        if len(outs) != 1 or outs[0].kind != "return":
            raise AnalysisError(f"attr fails on a printed value: {[(o.kind, o.exc, o.value) for o in outs]}")
        d = outs[0].value
        return d.get(key)


def same_value(orig: Any, back: Any, vc: printer.VClass) -> tuple[bool, str]:
    """Equality modulo the two differences C01 allows."""
    if vc.name.startswith("ENUM:"):
        w = vc.name.split(":", 1)[1]
        if back == w.upper() or back == orig or (isinstance(back, SStr) and back == orig):
            return True, "enum word (letter case may change)"
        return False, f"enum word {w} comes back as {back!r}"
    if isinstance(orig, bool):
        return back is orig, f"{orig!r} comes back as {back!r}"
    if isinstance(orig, SNum):
        return isinstance(back, SNum) and back == orig, f"number comes back as {back!r}"
    if isinstance(orig, list):
        if not isinstance(back, list) or len(back) != len(orig):
            return False, f"list of {len(orig)} comes back as {back!r}"
        for a, b in zip(orig, back):
            ok, why = same_value(a, b, printer.VClass("item", None, ""))  # type: ignore[arg-type]
            if not ok:
                return False, why
        return True, "list"
    if isinstance(orig, (str, SStr)):
        return (isinstance(back, (str, SStr)) and pai.as_sstr(back) == pai.as_sstr(orig)), f"string {pai.as_sstr(orig).describe()!r} comes back as {back!r}"
    return False, f"{orig!r} vs {back!r}"
