"""Regenerates /verif/MANIFEST.json from the META blocks of the property modules."""

from __future__ import annotations

import importlib
import json
import os

from .core import VERIF

ALL = [f"C{i:02d}" for i in range(1, 21)]
PY = "/venv/bin/python"


def build() -> dict:
    checks = []
    na = []
    for pid in ALL:
        try:
            mod = importlib.import_module(f"sa.props.{pid.lower()}")
        except ModuleNotFoundError:
            na.append({"property_id": pid, "reason": "no static checker built yet for this property (see DESIGN.md section 3 for the planned rules)"})
            continue
        meta = mod.META
        if meta.get("not_applicable"):
            na.append({"property_id": pid, "reason": meta["not_applicable"]})
            continue
        checks.append(
            {
                "property_id": pid,
                "quick_cmd": f"{PY} -m sa.check {pid} --tier quick",
                "thorough_cmd": f"{PY} -m sa.check {pid} --tier thorough",
                "evidence_file": f"/verif/evidence/{pid}.json",
                "replay_cmd_template": f"{PY} -m sa.check {pid} --replay {{path}}",
                "engine": "sa",
                "level_claimed": {"category": "other", "text": meta["level_text"], "design_ref": meta.get("design_ref", f"DESIGN.md section 3, {pid}")},
                "level_note": meta["level_note"],
                "technique": meta["technique"],
            }
        )
    return {
        "version": 1,
        "setup_cmd": f"{PY} -c \"import lark, jsonschema, sys; sys.path.insert(0, '/verif'); import sa.check\"",
        "hooks": {
            "guard": "MAPPYFILE_VERIF",
            "enable": "none needed: the checks read /repo's source, nothing is executed or instrumented",
            "baseline_off_cmd": "cd /repo && /venv/bin/python -m pytest -ra -q -p no:cacheprovider --timeout=900 --continue-on-collection-errors",
            "source_commits": _fix_commits(),
            "add_only": True,
        },
        "engines": [
            {
                "name": "sa",
                "path": "/verif/sa",
                "serves_properties": [c["property_id"] for c in checks],
                "kind_free_text": "repository-specific static analysis: ast facts / resolved call graph / guard (dominance) facts, effect analysis, path-sensitive abstract interpretation of small functions over shape classes (PAI), LALR-table and tree-shape queries on the compiled grammar, JSON-schema slot tables",
            }
        ],
        "checks": checks,
        "not_applicable": na,
        "notes": "All checks are static: they read /repo/mappyfile/*.py, mapfile.lark and schemas/*.json at run time; exit 2 + ANALYSIS-ERROR when an anchor vanished. Known findings: /verif/known_findings.json.",
    }


def _fix_commits() -> list:
    p = os.path.join(VERIF, "known_findings.json")
    if not os.path.isfile(p):
        return []
    with open(p) as f:
        data = json.load(f)
    out = []
    for line in data.get("fixed", []):
        parts = line.split()
        for w in parts:
            if len(w) >= 7 and all(c in "0123456789abcdef" for c in w):
                out.append(w)
                break
    return out


if __name__ == "__main__":
    m = build()
    with open(os.path.join(VERIF, "MANIFEST.json"), "w") as f:
        json.dump(m, f, indent=1)
    print(f"MANIFEST.json: {len(m['checks'])} checks, {len(m['not_applicable'])} not applicable")
