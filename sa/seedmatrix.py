"""Catch matrix: every seeded change under /verif/seeded x every registered check.

    python -m sa.seedmatrix [--jobs 16]

Each seed's patch.diff is applied to a scratch copy of /repo/mappyfile (mktemp, removed afterwards);
all 20 quick checks run against the copy.  Writes /verif/seeded/MATRIX.json and MATRIX.md.
(/repo itself is never touched; `python -m sa.seedtest <id>` is the variant that applies the patch
to /repo with git apply and reverts it.)
"""

from __future__ import annotations

import argparse
import concurrent.futures as cf
import json
import os
import shutil
import subprocess
import sys
import tempfile
import time

from .core import VERIF

ALL = [f"C{i:02d}" for i in range(1, 21)]


def run_seed(name: str, repo: str) -> dict:
    d = os.path.join(VERIF, "seeded", name)
    meta = json.load(open(os.path.join(d, "meta.json")))
    tmp = tempfile.mkdtemp(prefix="vsm_")
    try:
        shutil.copytree(os.path.join(repo, "mappyfile"), os.path.join(tmp, "mappyfile"), ignore=shutil.ignore_patterns("__pycache__"))
        p = subprocess.run(["patch", "-p1", "-s", "-i", os.path.join(d, "patch.diff")], cwd=tmp, capture_output=True, text=True)
        if p.returncode != 0:
            return {"seed": name, "property": meta["property"], "error": "patch does not apply"}
        env = dict(os.environ, VERIF_REPO=tmp, VERIF_EVIDENCE_DIR=os.path.join(tmp, "evidence"), VERIF_OUT_DIR=os.path.join(tmp, "out"))
        res = {}
        for prop in ALL:
            r = subprocess.run([sys.executable, "-m", "sa.check", prop], cwd=VERIF, env=env, capture_output=True, text=True, timeout=900)
            if r.returncode == 0:
                continue
            first = next((l.strip() for l in r.stdout.splitlines() if l.startswith("  rule=")), "") or next((l for l in r.stdout.splitlines() if l.startswith("ANALYSIS")), "")
            res[prop] = {"rc": r.returncode, "rule": first.split(" ")[0].replace("rule=", "") if first.startswith("rule=") else "", "first": first[:240]}
        return {"seed": name, "property": meta["property"], "decided_by": meta.get("caught_by") or meta["property"], "fired": res}
    finally:
        shutil.rmtree(tmp, ignore_errors=True)


def main(argv=None) -> int:
    ap = argparse.ArgumentParser()
    ap.add_argument("--jobs", type=int, default=16)
    ap.add_argument("--repo", default="/repo")
    ap.add_argument("--only", default=None, help="one seed id: print what fires, do not rewrite MATRIX files")
    args = ap.parse_args(argv)
    if args.only:
        r = run_seed(args.only, args.repo)
        fired = r.get("fired", {})
        own = fired.get(r.get("decided_by", r["property"]))
        print(f"seed {args.only} (property {r['property']}" + (f", decided by {r['decided_by']}" if r.get("decided_by") != r["property"] else "") + "): " + ("CAUGHT by its own property's check" if own and own["rc"] == 1 else ("caught by another property's check only" if any(x["rc"] == 1 for x in fired.values()) else "MISSED")))
        for p_, x in sorted(fired.items()):
            print(f"  {p_} rc={x['rc']} {x['first'][:230]}")
        return 0
    sd = os.path.join(VERIF, "seeded")
    names = sorted(n for n in os.listdir(sd) if os.path.isfile(os.path.join(sd, n, "patch.diff")))
    t0 = time.time()
    with cf.ThreadPoolExecutor(max_workers=args.jobs) as ex:
        rows = list(ex.map(lambda n: run_seed(n, args.repo), names))
    out = {"generated_by": "python -m sa.seedmatrix", "seeds": rows}
    with open(os.path.join(sd, "MATRIX.json"), "w") as f:
        json.dump(out, f, indent=1)
    lines = ["| seed | property | own check | rule | other checks that fire (exit 1) | analysis errors (exit 2) |", "|---|---|---|---|---|---|"]
    missed = 0
    for r in rows:
        fired = r.get("fired", {})
        dec = r.get("decided_by", r["property"])
        own = fired.get(dec)
        caught = bool(own and own["rc"] == 1)
        missed += 0 if caught else 1
        others = sorted(p for p, x in fired.items() if p != dec and x["rc"] == 1)
        errs = sorted(p for p, x in fired.items() if x["rc"] != 1)
        lines.append(f"| {r['seed']} | {r['property']} | {('fires' if dec == r['property'] else 'fires in ' + dec + ' (see meta.json)') if caught else 'MISSED'} | {own['rule'] if caught else ''} | {' '.join(others)} | {' '.join(errs)} |")
    with open(os.path.join(sd, "MATRIX.md"), "w") as f:
        f.write("\n".join(lines) + "\n")
    print("\n".join(lines))
    print(f"{len(rows)} seeds, {missed} not caught by their own property's check, {time.time() - t0:.0f}s")
    return 1 if missed else 0


if __name__ == "__main__":
    sys.exit(main())
