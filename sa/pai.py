"""E3 - PAI: path-sensitive abstract interpreter over the current AST of small functions.

Values are those of ``absval``.  A predicate the shape facts do not decide forks the path (the
run is repeated with the decision flipped) and the assumption is recorded.  Unsupported
constructs raise ``AnalysisError``: the check then ends as ANALYSIS-ERROR, never as a pass.
"""

from __future__ import annotations

import ast
import string as _string
from dataclasses import dataclass, field
from typing import Any, Callable

from . import absval as av
from .absval import SStr, SNum, SObj, SBool, SOpaque, HDict, ReprDict, Undecided, as_sstr, is_strlike
from .core import AnalysisError, UnorderedIteration, Repo, PKG_NAME, norm, fold, NotConstant
from .pyfacts import Facts, dotted


class PyExc(Exception):
    """An exception raised by the interpreted program."""

    def __init__(self, cls: str, args: tuple = (), node: ast.AST | None = None):
        super().__init__(cls)
        self.cls = cls
        self.args_ = args
        self.node = node


EXC_BASES = {
    "KeyError": ("LookupError", "Exception"),
    "IndexError": ("LookupError", "Exception"),
    "ValueError": ("Exception",),
    "UnicodeDecodeError": ("ValueError", "Exception"),
    "TypeError": ("Exception",),
    "AttributeError": ("Exception",),
    "AssertionError": ("Exception",),
    "IOError": ("OSError", "Exception"),
    "OSError": ("IOError", "Exception"),
    "FileNotFoundError": ("OSError", "IOError", "Exception"),
    "ImportError": ("Exception",),
    "UnboundLocalError": ("NameError", "Exception"),
    "SyntaxError": ("Exception",),
    "ParseError": ("LarkError", "Exception"),
    "UnexpectedInput": ("LarkError", "Exception"),
    "SystemExit": ("BaseException",),
    "Exception": (),
}


class _Return(Exception):
    def __init__(self, value):
        self.value = value


class _Break(Exception):
    pass


class _Continue(Exception):
    pass


@dataclass
class FuncRef:
    qual: str | None  # repo function
    self_obj: Any = None
    builtin: str | None = None  # name of a modelled builtin / external
    cls: str | None = None  # class reference (constructor)
    super_of: tuple | None = None  # (cls_qual, self_obj) for super()

    def __repr__(self) -> str:
        return f"<fn {self.qual or self.builtin or self.cls}>"


@dataclass
class ModRef:
    name: str  # repo module name or 'ext:<dotted>'


@dataclass(frozen=True)
class TypeRef:
    names: tuple  # python type tags accepted by isinstance


LOGGING_LEVELS = {"logging.CRITICAL": 50, "logging.FATAL": 50, "logging.ERROR": 40, "logging.WARNING": 30, "logging.WARN": 30, "logging.INFO": 20, "logging.DEBUG": 10, "logging.NOTSET": 0}

# stand-ins whose attribute set is complete by construction: a missing attribute is really missing
CLOSED_STUBS = {"Meta", "Token", "ValidationError", "Context"}

# pure string functions of os.path: modelled as opaque terms over their arguments (two calls with the same
# arguments give the same term, different arguments different terms)
OS_PATH_PURE = ("os.path.abspath", "os.path.join", "os.path.dirname", "os.path.basename", "os.path.normpath", "os.path.realpath", "os.path.splitext", "os.path.normcase", "os.path.expanduser")


def _snum_key(d: dict, k: "SNum"):
    """The key of ``d`` that a symbolic number ``k`` denotes, or None when it differs from every numeric
    key by a non-zero constant.  A key that may or may not coincide (non-constant difference) cannot be decided."""
    for ex in list(dict.keys(d)):
        if isinstance(ex, bool) or not isinstance(ex, (int, float, SNum)):
            continue
        diff = _num(k) - _num(ex)
        if not isinstance(diff, SNum):
            diff = SNum.const(diff)
        if not diff.terms:
            return ex
        if not diff.is_const():
            raise AnalysisError(f"symbolic key {k!r} may or may not equal the existing key {ex!r}")
    return None


def really_unhashable(k: Any, node=None):
    """The exception to raise when hashing ``k`` failed inside the analyser: Python's own TypeError
    only when the key holds a list / dict / set; otherwise the analyser's objects are the obstacle."""

    def bad(x):
        if isinstance(x, (list, dict, set)):
            return True
        if isinstance(x, (tuple, frozenset)):
            return any(bad(y) for y in x)
        return False

    if bad(k):
        return PyExc("TypeError", ("unhashable",), node)
    return AnalysisError(f"key {k!r} holds an analyser object that cannot be hashed")


def is_namedtuple_class(cls: ast.ClassDef) -> bool:
    return any(dotted(b) in ("NamedTuple", "typing.NamedTuple") for b in cls.bases)


_BUSY = object()


def _plain_value(v: Any) -> bool:
    """A value whose Python type (and so its operator support) the analyser knows exactly."""
    return v is None or isinstance(v, (bool, int, float, str, bytes, SStr, SNum, SBool, list, tuple, dict, set, frozenset))


def _operand_error(a: Any, b: Any, text: str):
    """TypeError of a binary operator - only when both operands are plain values; an analyser stand-in
    (function reference, external object) on either side is a gap of the model, not an error of the code."""
    if _plain_value(a) and _plain_value(b):
        return PyExc("TypeError", (text,))
    return AnalysisError(f"operator on a value the model does not cover: {text} ({a!r}, {b!r})"[:300])


class NTup(tuple):
    """Instance of a repository class derived from typing.NamedTuple: a tuple whose positions have names."""

    def __new__(cls, qual: str, fields, values):
        o = super().__new__(cls, values)
        o.cls = qual
        o.fields = tuple(fields)
        return o

    @property
    def pytype(self) -> str:
        return self.cls


def dataclass_fields(repo, cls_qual: str):
    """[(name, default expr | None, default_factory expr | None)] if the class is a @dataclass without an
    explicit __init__, else None."""
    try:
        cls = repo.cls(cls_qual)
    except Exception:
        return None
    decos = [dotted(d.func) if isinstance(d, ast.Call) else dotted(d) for d in cls.decorator_list]
    if not any(d in ("dataclass", "dataclasses.dataclass") for d in decos) and not is_namedtuple_class(cls):
        return None
    if any(isinstance(st, ast.FunctionDef) and st.name == "__init__" for st in cls.body):
        return None
    out = []
    for st in cls.body:
        if isinstance(st, ast.AnnAssign) and isinstance(st.target, ast.Name):
            if "ClassVar" in ast.unparse(st.annotation):
                continue
            default = factory = None
            if st.value is not None:
                if isinstance(st.value, ast.Call) and dotted(st.value.func) in ("field", "dataclasses.field"):
                    for k in st.value.keywords:
                        if k.arg == "default":
                            default = k.value
                        elif k.arg == "default_factory":
                            factory = k.value
                else:
                    default = st.value
            out.append((st.target.id, default, factory))
    return out


class Inst:
    """Instance of a repository class."""

    def __init__(self, cls: str):
        self.cls = cls
        self.attrs: dict[str, Any] = {}

    @property
    def pytype(self) -> str:
        return self.cls

    def __repr__(self) -> str:
        return f"<{self.cls} {sorted(self.attrs)}>"


@dataclass
class Outcome:
    kind: str  # 'return' | 'raise'
    value: Any
    exc: str | None
    assumptions: list
    observed: Any = None
    trace: list = field(default_factory=list)


class Path:
    def __init__(self, decisions: list[bool]):
        self.decisions = list(decisions)
        self.pos = 0
        self.assumptions: list[str] = []
        self.given = len(decisions)

    def choose(self, descr: str) -> bool:
        if self.pos < len(self.decisions):
            d = self.decisions[self.pos]
        else:
            d = True
            self.decisions.append(d)
        self.pos += 1
        self.assumptions.append(("" if d else "not ") + descr)
        return d


TYPE_TAGS = {
    "str": ("str",),
    "bytes": ("bytes",),
    "int": ("int", "bool"),
    "float": ("float",),
    "bool": ("bool",),
    "list": ("list",),
    "tuple": ("tuple",),
    "dict": ("dict",),
    "set": ("set",),
    "frozenset": ("frozenset",),
    "object": ("*",),
}

DICT_CLASSES = ("ordereddict.DefaultOrderedDict", "ordereddict.CaseInsensitiveOrderedDict")


class Interp:
    def __init__(self, repo: Repo, facts: Facts | None = None, stubs: dict | None = None, max_paths: int = 512, max_depth: int = 12, max_steps: int = 200000, allow_fork: bool = True):
        self.repo = repo
        self.facts = facts or Facts(repo)
        self.stubs = stubs or {}
        self.max_paths = max_paths
        self.max_depth = max_depth
        self.max_steps = max_steps
        self.allow_fork = allow_fork
        self.path: Path = Path([])
        self.depth = 0
        self.steps = 0
        self.trace: list[str] = []
        self.paths_run = 0
        self.decided = 0  # predicates decided by facts (for evidence)

    # -----------------------------------------------------------------------------------------
    # exploration
    # -----------------------------------------------------------------------------------------

    def explore(self, qual: str, make_args: Callable[[], tuple], observe: Callable[[Any, Any], Any] | None = None) -> list[Outcome]:
        """Run ``qual`` on every path.  ``make_args()`` -> (self_obj | None, args list, kwargs dict),
        rebuilt for each path so heap objects are fresh."""
        outcomes: list[Outcome] = []
        work: list[list[bool]] = [[]]
        while work:
            prefix = work.pop()
            if len(outcomes) >= self.max_paths:
                raise AnalysisError(f"path bound {self.max_paths} exceeded in {qual}")
            nested = getattr(self, "_exploring", 0)
            if not nested:
                av.BOUNDS.clear()
                av.DEFS.clear()
            self._exploring = nested + 1
            try:
                made = make_args()  # may itself explore (children rebuilt by evaluating their callbacks)
            finally:
                self._exploring = nested
            self.path = Path(prefix)
            self.depth = 0
            self.steps = 0
            self.trace = []
            self.paths_run += 1
            self_obj, args, kwargs = made
            if qual not in self.stubs:
                # the harness's own call must fit the entry function's signature as it is today
                try:
                    self.bind(qual, self.repo.func(qual), self_obj, list(args), dict(kwargs))
                except PyExc as ex:
                    raise AnalysisError(f"anchor moved: the signature of {qual} no longer takes the harness's arguments ({ex.args_[0] if ex.args_ else ex.cls})")
            try:
                val = self.call_qual(qual, self_obj, list(args), dict(kwargs))
                out = Outcome("return", val, None, list(self.path.assumptions))
            except PyExc as ex:
                out = Outcome("raise", ex.args_, ex.cls, list(self.path.assumptions))
            out.trace = list(self.trace)
            if observe is not None:
                out.observed = observe(made, out)
            outcomes.append(out)
            d = self.path.decisions
            for i in range(self.path.given, len(d)):
                work.append(d[:i] + [not d[i]])
        return outcomes

    def decide(self, thunk: Callable[[], bool], descr: str | None = None) -> bool:
        try:
            r = thunk()
            self.decided += 1
            return r
        except Undecided as u:
            if not self.allow_fork:
                raise AnalysisError(f"undecided predicate (forking disabled): {u.descr}")
            # the same predicate over the same abstract operands has one truth value per path
            cache = self.path.__dict__.setdefault("preds", {})
            if u.descr not in cache:
                cache[u.descr] = self.path.choose(descr or u.descr)
            return cache[u.descr]

    # -----------------------------------------------------------------------------------------
    # calling repo functions
    # -----------------------------------------------------------------------------------------

    def call_qual(self, qual: str, self_obj: Any, args: list, kwargs: dict) -> Any:
        if qual in self.stubs:
            return self.stubs[qual](self, self_obj, args, kwargs)
        fn = self.repo.func(qual)
        self.depth += 1
        if self.depth > self.max_depth:
            raise AnalysisError(f"inlining depth exceeded at {qual}")
        try:
            env = self.bind(qual, fn, self_obj, args, kwargs)
            frame = Frame(self, qual, fn, env)
            if _is_generator(fn):
                # a generator function: evaluated eagerly, the values it yields are handed back as a list
                # (what a consumer that exhausts it sees; laziness itself is not modelled)
                frame.yielded = []
                try:
                    frame.exec_block(fn.body)
                except _Return:
                    pass
                return list(frame.yielded)
            try:
                frame.exec_block(fn.body)
            except _Return as r:
                return r.value
            return None
        finally:
            self.depth -= 1

    def bind(self, qual: str, fn: ast.FunctionDef, self_obj: Any, args: list, kwargs: dict) -> dict:
        a = fn.args
        params = [p.arg for p in a.posonlyargs + a.args]
        env: dict[str, Any] = {}
        is_method = qual.count(".") == 2
        decos = [dotted(d) for d in fn.decorator_list]
        if is_method and "staticmethod" not in decos:
            if "classmethod" in decos:
                args = [FuncRef(None, cls=self_obj.cls if isinstance(self_obj, Inst) else (self_obj.cls if isinstance(self_obj, FuncRef) else ".".join(qual.split(".")[:2])))] + args
            else:
                args = [self_obj] + args
        if len(args) > len(params) and a.vararg is None:
            raise PyExc("TypeError", (f"{qual}: too many positional arguments",))
        for p, v in zip(params, args):
            env[p] = v
        if a.vararg is not None:
            env[a.vararg.arg] = tuple(args[len(params) :])
        defaults = a.defaults
        dstart = len(params) - len(defaults)
        kw = dict(kwargs)
        for i, p in enumerate(params):
            if p in env:
                if p in kw:
                    raise PyExc("TypeError", (f"{qual}: multiple values for {p}",))
                continue
            if p in kw:
                env[p] = kw.pop(p)
            elif i >= dstart:
                env[p] = self.eval_const_expr(qual, defaults[i - dstart])
            else:
                raise PyExc("TypeError", (f"{qual}: missing argument {p}",))
        for p, d in zip(a.kwonlyargs, a.kw_defaults):
            if p.arg in kw:
                env[p.arg] = kw.pop(p.arg)
            elif d is not None:
                env[p.arg] = self.eval_const_expr(qual, d)
            else:
                raise PyExc("TypeError", (f"{qual}: missing keyword argument {p.arg}",))
        if a.kwarg is not None:
            env[a.kwarg.arg] = HDict(kw)
        elif kw:
            raise PyExc("TypeError", (f"{qual}: unexpected keyword argument(s) {sorted(kw)}",))
        return env

    def eval_const_expr(self, qual: str, node: ast.expr) -> Any:
        fr = Frame(self, qual, None, {})
        return fr.eval(node)

    # -----------------------------------------------------------------------------------------
    # instances
    # -----------------------------------------------------------------------------------------

    def instantiate(self, cls_qual: str, args: list, kwargs: dict) -> Any:
        key = cls_qual + ".__new__"
        if key in self.stubs:
            return self.stubs[key](self, None, args, kwargs)
        if cls_qual in DICT_CLASSES:
            return self.make_dict(cls_qual, args, kwargs)
        inst = Inst(cls_qual)
        inst.constructed = True
        init = self.facts.method(cls_qual, "__init__")
        if init and not init.startswith("ext:"):
            self.call_qual(init, inst, args, kwargs)
            return inst
        fields = dataclass_fields(self.repo, cls_qual)
        if fields is not None:
            # the constructor dataclasses synthesises: one parameter per annotated field, in order
            names = [f[0] for f in fields]
            if len(args) > len(names):
                raise PyExc("TypeError", (f"{cls_qual}: too many positional arguments",))
            given = dict(zip(names, args))
            for k, v in kwargs.items():
                if k not in names or k in given:
                    raise PyExc("TypeError", (f"{cls_qual}: unexpected or repeated argument {k}",))
                given[k] = v
            for name, default, factory in fields:
                if name in given:
                    inst.attrs[name] = given[name]
                elif default is not None:
                    inst.attrs[name] = self.eval_const_expr(cls_qual, default)
                elif factory is not None:
                    inst.attrs[name] = self.eval_const_expr(cls_qual, ast.Call(func=factory, args=[], keywords=[]))
                else:
                    raise PyExc("TypeError", (f"{cls_qual}: missing argument {name}",))
            if is_namedtuple_class(self.repo.cls(cls_qual)):
                return NTup(cls_qual, names, [inst.attrs[n] for n in names])
        return inst

    def class_binding(self, cls_qual: str, name: str):
        """(module, value expression) of a class-body assignment to ``name`` in the class or a repository base."""
        seen, todo = set(), [cls_qual]
        while todo:
            c = todo.pop(0)
            if c in seen or c.startswith("ext:") or c.count(".") != 1:
                continue
            seen.add(c)
            mod, cname = c.split(".")
            mi = self.repo.modules.get(mod)
            if mi is None or cname not in mi.classes:
                continue
            b = mi.class_bindings.get(cname, {})
            if name in b and name not in mi.methods.get(cname, {}):
                return mod, cname
            todo += list(self.facts.bases.get(c, []))
        return None

    def class_attr_value(self, mod: str, cname: str, name: str) -> Any:
        memo = self.__dict__.setdefault("_class_attr_memo", {})
        key = (mod, cname, name)
        if key in memo:
            if memo[key] is _BUSY:
                raise AnalysisError(f"class attribute {mod}.{cname}.{name} refers to itself")
            return memo[key]
        memo[key] = _BUSY
        try:
            mi = self.repo.modules[mod]
            binds = mi.class_bindings[cname]
            expr = binds[name]
            env: dict = {}
            for n in ast.walk(expr):
                if isinstance(n, ast.Name) and isinstance(n.ctx, ast.Load):
                    if n.id in mi.methods.get(cname, {}) and n.id not in binds:
                        # a function of the class body named before it became a method: plain, unbound
                        env[n.id] = FuncRef(f"{mod}.{cname}.{n.id}", self_obj=None, super_of=("unbound",))
                    elif n.id in binds and n.id != name:
                        env[n.id] = self.class_attr_value(mod, cname, n.id)
            v = Frame(self, f"{mod}.<module>", None, env).eval(expr)
        except BaseException:
            del memo[key]
            raise
        memo[key] = v
        return v

    def make_dict(self, cls_qual: str, args: list, kwargs: dict) -> HDict:
        d = HDict()
        d.pytype = cls_qual  # type: ignore[misc]
        d.ci = cls_qual.endswith("CaseInsensitiveOrderedDict")
        if args:
            d.factory = args[0]
            for extra in args[1:]:
                for k, v in self.iter_items(extra):
                    d[self.dict_key(d, k)] = v
        for k, v in kwargs.items():
            d[self.dict_key(d, k)] = v
        return d

    def dict_key(self, d: Any, k: Any) -> Any:
        if isinstance(k, SStr):
            if k.is_concrete():
                k = k.concrete()
            else:
                if getattr(d, "ci", False):
                    k = k.lower()
                return k
        if getattr(d, "ci", False) and isinstance(k, str):
            return k.lower()
        return k

    def iter_items(self, v: Any) -> list:
        if isinstance(v, dict):
            return list(v.items())
        if isinstance(v, ReprDict):
            return list(v.items_)
        if isinstance(v, (list, tuple)):
            return [tuple(x) for x in v]
        raise AnalysisError(f"cannot iterate items of {v!r}")


# ---------------------------------------------------------------------------------------------
# frames
# ---------------------------------------------------------------------------------------------


def pytype_of(v: Any) -> str:
    if v is None:
        return "NoneType"
    if isinstance(v, bool):
        return "bool"
    if isinstance(v, int):
        return "int"
    if isinstance(v, float):
        return "float"
    if isinstance(v, str):
        return "str"
    if isinstance(v, bytes):
        return "bytes"
    if isinstance(v, HDict):
        return v.pytype
    if isinstance(v, dict):
        return "dict"
    if isinstance(v, list):
        return "list"
    if isinstance(v, NTup):
        return v.cls
    if isinstance(v, tuple):
        return "tuple"
    if isinstance(v, (set,)):
        return "set"
    if isinstance(v, frozenset):
        return "frozenset"
    if hasattr(v, "pytype"):
        return v.pytype
    if isinstance(v, FuncRef):
        return "function"
    raise AnalysisError(f"no type tag for {v!r}")


_GEN_MEMO: dict = {}
_LOCALS_MEMO: dict = {}


def _local_names(fn: ast.FunctionDef) -> frozenset:
    """Names that are local to ``fn`` because the function binds them somewhere (assignment, loop or
    with target, import, nested def, except-as) and does not declare them global / nonlocal."""
    hit = _LOCALS_MEMO.get(id(fn))
    if hit is not None and hit[0] is fn:
        return hit[1]
    names, declared = set(), set()
    todo = list(fn.body)
    while todo:
        n = todo.pop()
        if isinstance(n, (ast.FunctionDef, ast.AsyncFunctionDef, ast.ClassDef)):
            names.add(n.name)
            continue
        if isinstance(n, ast.Lambda):
            continue
        if isinstance(n, (ast.ListComp, ast.SetComp, ast.DictComp, ast.GeneratorExp)):
            continue  # comprehension targets live in their own scope
        if isinstance(n, ast.Name) and isinstance(n.ctx, (ast.Store, ast.Del)):
            names.add(n.id)
        elif isinstance(n, (ast.Global, ast.Nonlocal)):
            declared |= set(n.names)
        elif isinstance(n, ast.ExceptHandler) and n.name:
            names.add(n.name)
        elif isinstance(n, (ast.Import, ast.ImportFrom)):
            names |= {(a.asname or a.name).split(".")[0] for a in n.names}
        todo.extend(ast.iter_child_nodes(n))
    out = frozenset(names - declared)
    _LOCALS_MEMO[id(fn)] = (fn, out)
    return out


def _is_generator(fn: ast.FunctionDef) -> bool:
    hit = _GEN_MEMO.get(id(fn))
    if hit is not None and hit[0] is fn:
        return hit[1]
    r = _is_generator_uncached(fn)
    _GEN_MEMO[id(fn)] = (fn, r)
    return r


def _is_generator_uncached(fn: ast.FunctionDef) -> bool:
    todo = list(fn.body)
    while todo:
        n = todo.pop()
        if isinstance(n, (ast.Yield, ast.YieldFrom)):
            return True
        if isinstance(n, (ast.FunctionDef, ast.AsyncFunctionDef, ast.Lambda, ast.ClassDef)):
            continue
        todo.extend(ast.iter_child_nodes(n))
    return False


class Frame:
    yielded: list | None = None

    def __init__(self, interp: Interp, qual: str, fn: ast.FunctionDef | None, env: dict):
        self.I = interp
        self.qual = qual
        self.fn = fn
        self.env = env
        parts = qual.split(".")
        self.mod = parts[0]
        self.cls = f"{parts[0]}.{parts[1]}" if len(parts) == 3 else None
        self.cur_exc: PyExc | None = None

    # -- statements ------------------------------------------------------------------------------

    def exec_block(self, body: list[ast.stmt]) -> None:
        for st in body:
            self.exec(st)

    def exec(self, st: ast.stmt) -> None:
        I = self.I
        I.steps += 1
        if I.steps > I.max_steps:
            raise AnalysisError(f"step bound exceeded in {self.qual}")
        if isinstance(st, ast.Expr):
            self.eval(st.value)
        elif isinstance(st, ast.Assign):
            v = self.eval(st.value)
            for t in st.targets:
                self.assign(t, v)
        elif isinstance(st, ast.AnnAssign):
            if st.value is not None:
                self.assign(st.target, self.eval(st.value))
        elif isinstance(st, ast.AugAssign):
            cur = self.eval(_load(st.target))
            v = self.binop(st.op, cur, self.eval(st.value), inplace=True)
            self.assign(st.target, v)
        elif isinstance(st, ast.Return):
            raise _Return(self.eval(st.value) if st.value is not None else None)
        elif isinstance(st, ast.If):
            if self.truth(self.eval(st.test), norm(st.test)):
                self.exec_block(st.body)
            else:
                self.exec_block(st.orelse)
        elif isinstance(st, ast.For):
            itv = self.eval(st.iter)
            it = _LiveList(itv) if isinstance(itv, list) else self.iterate(itv)
            broke = False
            tnames = {n.id for n in ast.walk(st.target) if isinstance(n, ast.Name)}
            for item in it:
                self.assign(st.target, item)
                run = item[1] if isinstance(item, tuple) and len(item) == 2 else item
                if isinstance(run, OpaqueRun):
                    # one iteration stands for all characters of an opaque run: the body may not
                    # change any state for them
                    before = {k: v for k, v in self.env.items() if k not in tnames}
                    self.exec_block(st.body)
                    after = {k: v for k, v in self.env.items() if k not in tnames}
                    if before.keys() != after.keys() or any(before[k] is not after[k] and before[k] != after[k] for k in before):
                        raise AnalysisError(f"loop over the characters of {run.describe()} changes state for opaque characters ({self.qual})")
                    continue
                try:
                    self.exec_block(st.body)
                except _Continue:
                    continue
                except _Break:
                    broke = True
                    break
            if not broke:
                self.exec_block(st.orelse)
        elif isinstance(st, ast.While):
            n = 0
            while self.truth(self.eval(st.test), norm(st.test)):
                n += 1
                if n > 64:
                    raise AnalysisError(f"while loop bound exceeded in {self.qual}")
                try:
                    self.exec_block(st.body)
                except _Continue:
                    continue
                except _Break:
                    break
        elif isinstance(st, ast.Pass):
            pass
        elif isinstance(st, ast.Continue):
            raise _Continue()
        elif isinstance(st, ast.Break):
            raise _Break()
        elif isinstance(st, ast.Assert):
            if not self.truth(self.eval(st.test), norm(st.test)):
                raise PyExc("AssertionError", (), st)
        elif isinstance(st, ast.Raise):
            if st.exc is None:
                if self.cur_exc is None:
                    raise AnalysisError("bare raise outside handler")
                raise self.cur_exc
            v = self.eval(st.exc)
            if isinstance(v, SObj) and v.pytype.startswith("exc:"):
                raise PyExc(v.pytype[4:], tuple(v.attrs.get("args", ())), st)
            if isinstance(v, FuncRef) and v.builtin and v.builtin.startswith("exc:"):
                raise PyExc(v.builtin[4:], (), st)
            raise AnalysisError(f"raise of {v!r} not modelled")
        elif isinstance(st, ast.Try):
            self.exec_try(st)
        elif isinstance(st, ast.With):
            for item in st.items:
                v = self.eval(item.context_expr)
                if item.optional_vars is not None:
                    self.assign(item.optional_vars, v)
            self.exec_block(st.body)
        elif isinstance(st, ast.Delete):
            for t in st.targets:
                self.delete(t)
        elif isinstance(st, (ast.FunctionDef,)):
            self.env[st.name] = FuncRef(None, builtin="nested:" + st.name, self_obj=(self, st))
        elif isinstance(st, (ast.Import, ast.ImportFrom, ast.Global, ast.Nonlocal)):
            pass
        else:
            raise AnalysisError(f"statement {type(st).__name__} not supported ({self.qual}:{st.lineno})")

    def exec_try(self, st: ast.Try) -> None:
        try:
            try:
                self.exec_block(st.body)
            except PyExc as ex:
                for h in st.handlers:
                    if self.handler_matches(h, ex):
                        if h.name:
                            self.env[h.name] = SObj("exc:" + ex.cls, {"args": ex.args_}, label=ex.cls)
                        saved = self.cur_exc
                        self.cur_exc = ex
                        try:
                            self.exec_block(h.body)
                        finally:
                            self.cur_exc = saved
                        break
                else:
                    raise
            else:
                self.exec_block(st.orelse)
        finally:
            if st.finalbody:
                self.exec_block(st.finalbody)

    def handler_matches(self, h: ast.ExceptHandler, ex: PyExc) -> bool:
        if h.type is None:
            return True
        names = []
        t = h.type
        elts = t.elts if isinstance(t, ast.Tuple) else [t]
        for e in elts:
            d = dotted(e)
            if d is None:
                raise AnalysisError("except clause with computed type")
            names.append(d.split(".")[-1])
        fam = (ex.cls,) + EXC_BASES.get(ex.cls, ("Exception",))
        return any(n in fam or n == "BaseException" for n in names)

    # -- assignment ------------------------------------------------------------------------------

    def assign(self, t: ast.expr, v: Any) -> None:
        if isinstance(t, ast.Name):
            self.env[t.id] = v
        elif isinstance(t, (ast.Tuple, ast.List)):
            items = self.iterate(v)
            stars = [i for i, e in enumerate(t.elts) if isinstance(e, ast.Starred)]
            if stars:
                i = stars[0]
                after = len(t.elts) - i - 1
                if len(items) < len(t.elts) - 1:
                    raise PyExc("ValueError", (f"not enough values to unpack (expected at least {len(t.elts) - 1}, got {len(items)})",), t)
                for e, x in zip(t.elts[:i], items[:i]):
                    self.assign(e, x)
                self.assign(t.elts[i].value, list(items[i : len(items) - after]))
                for e, x in zip(t.elts[i + 1 :], items[len(items) - after :]):
                    self.assign(e, x)
                return
            if len(items) != len(t.elts):
                raise PyExc("ValueError", (f"cannot unpack {len(items)} values into {len(t.elts)}",), t)
            for e, x in zip(t.elts, items):
                self.assign(e, x)
        elif isinstance(t, ast.Attribute):
            obj = self.eval(t.value)
            self.setattr(obj, t.attr, v)
        elif isinstance(t, ast.Subscript):
            obj = self.eval(t.value)
            if isinstance(t.slice, ast.Slice):
                if isinstance(obj, list) and t.slice.lower is None and t.slice.upper is None:
                    obj[:] = self.iterate(v)
                    return
                raise AnalysisError("slice assignment not supported")
            k = self.eval(t.slice)
            self.setitem(obj, k, v, t)
        else:
            raise AnalysisError(f"assignment target {type(t).__name__}")

    def setattr(self, obj: Any, name: str, v: Any) -> None:
        if isinstance(obj, (Inst, SObj)):
            obj.attrs[name] = v
        elif isinstance(obj, HDict):
            if name == "default_factory":
                obj.factory = v
            else:
                setattr(obj, "attr_" + name, v)
        elif isinstance(obj, (str, SStr, int, float, SNum, tuple, list)) or obj is None:
            raise PyExc("AttributeError", (f"'{pytype_of(obj)}' object has no attribute '{name}'",))
        else:
            raise AnalysisError(f"attribute store on {obj!r}")

    def setitem(self, obj: Any, k: Any, v: Any, node: ast.AST) -> None:
        hook = self.I.stubs.get("hook:setitem")
        if hook:
            hook(self, obj, k, v, node)
        if isinstance(obj, dict):
            obj[self.I.dict_key(obj, k)] = v
        elif isinstance(obj, list):
            i = self.index(k)
            try:
                obj[i] = v
            except IndexError:
                raise PyExc("IndexError", (), node)
        elif isinstance(obj, ReprDict):
            k = self.I.dict_key(obj, k)
            for i, (kk, _) in enumerate(obj.items_):
                if kk == k:
                    obj.items_[i] = (kk, v)
                    break
            else:
                obj.items_.append((k, v))
        else:
            raise PyExc("TypeError", (f"{pytype_of(obj)} does not support item assignment",), node)

    def delete(self, t: ast.expr) -> None:
        if isinstance(t, ast.Subscript):
            obj = self.eval(t.value)
            k = self.eval(t.slice)
            hook = self.I.stubs.get("hook:delitem")
            if hook:
                hook(self, obj, k, t)
            if isinstance(obj, dict):
                k = self.I.dict_key(obj, k)
                if k not in obj:
                    raise PyExc("KeyError", (k,), t)
                del obj[k]
            elif isinstance(obj, list):
                del obj[self.index(k)]
            elif isinstance(obj, ReprDict):
                k = self.I.dict_key(obj, k)
                obj.items_ = [(a, b) for a, b in obj.items_ if a != k]
            else:
                raise AnalysisError(f"del on {obj!r}")
        elif isinstance(t, ast.Name):
            self.env.pop(t.id, None)
        else:
            raise AnalysisError("del target")

    def index(self, k: Any) -> int:
        if isinstance(k, SNum) and k.is_const():
            k = k.const_value()
        if isinstance(k, bool) or not isinstance(k, int):
            raise AnalysisError(f"symbolic index {k!r}")
        return k

    # -- truth -----------------------------------------------------------------------------------

    def truth(self, v: Any, descr: str = "") -> bool:
        if isinstance(v, SBool):
            # one decision per unknown boolean and path
            cache = self.I.path.__dict__.setdefault("bools", {})
            if v.name not in cache:
                cache[v.name] = self.I.path.choose(v.name) if self.I.allow_fork else _no_fork(v.name)
            return cache[v.name]
        if isinstance(v, SStr):
            return self.I.decide(v.truth, descr and f"{descr} [{v.describe()}]")
        if isinstance(v, SNum):
            return self.I.decide(v.truth, descr and f"{descr} [{v}]")
        if isinstance(v, ReprDict):
            return self.I.decide(lambda: _undecided(f"{v!r} is non-empty"), f"{descr} [{v!r} non-empty]") if v.missing == "undecided" else bool(v.items_)
        if isinstance(v, SObj) and v.pytype == "re.MaybeMatch":
            return self.truth(v.attrs["_b"], descr)
        if isinstance(v, (SObj, Inst, FuncRef, ModRef, TypeRef)):
            return True
        if isinstance(v, SOpaque):
            return self.I.decide(lambda: _undecided(f"truth of {v!r}"), f"{descr} [{v!r}]")
        return bool(v)

    # -- iteration -------------------------------------------------------------------------------

    def iterate(self, v: Any, unordered_ok: bool = False) -> list:
        if isinstance(v, (list, tuple)):
            return list(v)
        if isinstance(v, (set, frozenset)):
            if not unordered_ok:
                raise UnorderedIteration(f"iteration order of a set is unspecified ({self.qual}): the result would depend on hashing")
            return sorted(v, key=repr)
        if isinstance(v, dict):
            return list(v.keys())
        if isinstance(v, ReprDict):
            return [k for k, _ in v.items_]
        if isinstance(v, SObj) and v.elems is not None:
            return list(v.elems)
        if isinstance(v, str):
            return list(v)
        if isinstance(v, SStr):
            return [x for _, x in sstr_chars(v)]
        if isinstance(v, _Gen):
            return v.items
        raise AnalysisError(f"iteration over {v!r} not modelled ({self.qual})")

    # -- expressions -----------------------------------------------------------------------------

    def eval(self, node: ast.expr) -> Any:
        I = self.I
        I.steps += 1
        if I.steps > I.max_steps:
            raise AnalysisError(f"step bound exceeded in {self.qual}")
        m = getattr(self, "e_" + type(node).__name__, None)
        if m is None:
            raise AnalysisError(f"expression {type(node).__name__} not supported ({self.qual}:{getattr(node, 'lineno', 0)})")
        return m(node)

    def e_Constant(self, n: ast.Constant) -> Any:
        return n.value

    def e_Name(self, n: ast.Name) -> Any:
        if n.id in self.env:
            return self.env[n.id]
        if self.fn is not None and n.id in _local_names(self.fn):
            # assigned somewhere in this function, so local to it - but not bound on this path
            raise PyExc("UnboundLocalError", (f"cannot access local variable '{n.id}' where it is not associated with a value",), n)
        mi = self.I.repo.modules.get(self.mod)
        if mi is not None and f"global:{self.mod}.{n.id}" not in self.I.stubs and n.id not in mi.functions and n.id not in mi.classes and n.id not in mi.assigns and n.id not in mi.imports and not hasattr(__import__("builtins"), n.id) and n.id not in ("__file__", "__name__"):
            raise PyExc("NameError", (f"name '{n.id}' is not defined",), n)
        return self.global_name(n.id, n)

    def global_name(self, name: str, node: ast.AST | None = None) -> Any:
        key = f"global:{self.mod}.{name}"
        if key in self.I.stubs:
            return self.I.stubs[key]
        mi = self.I.repo.modules[self.mod]
        if name in mi.functions:
            return FuncRef(f"{self.mod}.{name}")
        if name in mi.classes:
            return FuncRef(None, cls=f"{self.mod}.{name}")
        if name in mi.assigns:
            try:
                return self.I.repo.const(self.mod, name)
            except NotConstant:
                # module-level expression (e.g. log = logging.getLogger(...), TOKEN_TYPES = Token)
                fr = Frame(self.I, f"{self.mod}.<module>", None, {})
                return fr.eval(mi.assigns[name])
        if name in mi.imports:
            m, nm = mi.imports[name]
            if m == PKG_NAME and nm is None:
                return ModRef("__init__")
            r = self.I.facts.resolve_name(self.mod, name)
            if r:
                if r in self.I.repo.modules:
                    return ModRef(r)
                if self.I.repo.has_func(r):
                    return FuncRef(r)
                if r in self.I.facts.class_quals.values():
                    return FuncRef(None, cls=r)
                rm, _, rn = r.partition(".")
                if rm in self.I.repo.modules and rn in self.I.repo.modules[rm].assigns:
                    fr = Frame(self.I, f"{rm}.<module>", None, {})
                    return fr.global_name(rn)
            full = (m.lstrip(".") + "." + nm) if nm else m
            return self.external(full)
        return self.external(name)

    def external(self, full: str) -> Any:
        key = "ext:" + full
        if key in self.I.stubs:
            v = self.I.stubs[key]
            return FuncRef(None, builtin=full) if callable(v) and not isinstance(v, (SObj, Inst)) else v
        short = full.split(".")[-1]
        if full in TYPE_TAGS:
            return TypeRef(TYPE_TAGS[full])
        if full in ("collections.OrderedDict", "OrderedDict"):
            return FuncRef(None, builtin="OrderedDict")
        if full in ("lark.lexer.Token", "lark.Token", "Token"):
            return TypeRef(("Token",))
        if full in ("lark.Tree", "lark.tree.Tree", "Tree"):
            return TypeRef(("Tree",))
        if full == "re":
            return ModRef("ext:re")
        if full.startswith("re.") and full[3:] in ("compile", "sub", "subn", "match", "search", "fullmatch", "findall", "split", "escape", "finditer"):
            return FuncRef(None, builtin=full)
        if full.startswith("re.") and full[3:] in ("I", "IGNORECASE", "S", "DOTALL", "M", "MULTILINE", "X", "VERBOSE"):
            import re as _re

            return int(getattr(_re, full[3:]))
        if full == "numbers":
            return ModRef("ext:numbers")
        if full == "numbers.Number":
            return TypeRef(("int", "float", "bool"))
        if short in EXC_BASES or short.endswith("Error") or short in ("Exception", "UnexpectedInput"):
            return FuncRef(None, builtin="exc:" + short)
        if full in LOGGING_LEVELS:
            return LOGGING_LEVELS[full]
        if full in BUILTINS or full.startswith(("logging.", "warnings.")) or full in ("os.getcwd",) or full in OS_PATH_PURE:
            return FuncRef(None, builtin=full)
        if full in ("logging", "os", "sys", "json", "copy", "codecs", "click", "glob", "warnings", "functools", "itertools", "jsonschema", "jsonref", "os.path"):
            return ModRef("ext:" + full)
        if full == "None":
            return None
        if full == "itertools.zip_longest":
            return FuncRef(None, builtin="zip_longest")
        if full in ("itertools.groupby", "itertools.chain", "itertools.chain.from_iterable", "itertools.filterfalse"):
            return FuncRef(None, builtin=full.split("itertools.")[1])
        if full == "typing.Any" or full.startswith("typing."):
            return SOpaque("typing")
        if full == "__file__":
            return "<pkg>/" + self.mod + ".py"
        if full == "__name__":
            return PKG_NAME + "." + self.mod
        raise AnalysisError(f"name {full} is not modelled ({self.qual})")

    def e_Attribute(self, n: ast.Attribute) -> Any:
        obj = self.eval(n.value)
        return self.getattr(obj, n.attr, n)

    def getattr(self, obj: Any, name: str, node: ast.AST | None = None) -> Any:
        I = self.I
        if name == "__name__" and isinstance(obj, TypeRef) and len(obj.names) == 1:
            return obj.names[0]
        if name == "__name__" and isinstance(obj, FuncRef) and obj.cls:
            return obj.cls.split(".")[-1]
        if isinstance(obj, FuncRef) and obj.builtin == "chain" and name == "from_iterable":
            return FuncRef(None, builtin="chain.from_iterable")
        if isinstance(obj, TypeRef) and "dict" in obj.names and name == "fromkeys":
            return FuncRef(None, builtin="dict.fromkeys")
        if isinstance(obj, NTup):
            if name in obj.fields:
                return obj[obj.fields.index(name)]
            if name == "_fields":
                return tuple(obj.fields)
            if name in ("_asdict", "_replace"):
                return FuncRef(None, builtin="ntup:" + name, self_obj=obj)
            m = I.facts.method(obj.cls, name)
            if m and not m.startswith("ext:"):
                return FuncRef(m, self_obj=obj)
            if name in ("count", "index"):
                return FuncRef(None, builtin="method:" + name, self_obj=tuple(obj))
            raise PyExc("AttributeError", (name,), node)
        if isinstance(obj, Inst):
            if name in obj.attrs:
                return obj.attrs[name]
            if name == "__class__":
                return FuncRef(None, cls=obj.cls)
            m = I.facts.method(obj.cls, name)
            if m and not m.startswith("ext:"):
                return FuncRef(m, self_obj=obj)
            found = I.class_binding(obj.cls, name)
            if found is not None:
                # a class-level default or table (``_cache = None``, a dispatch dict): evaluated once in the
                # class namespace; every instance sees the same object
                v = I.class_attr_value(*found, name)
                if isinstance(v, FuncRef):
                    raise AnalysisError(f"class attribute {obj.cls}.{name} is a function made at class-creation time")
                return v
            if m:
                return FuncRef(None, builtin="extmethod:" + m[4:], self_obj=obj)
            if not getattr(obj, "constructed", False):
                # an instance a harness assembled by hand: a missing attribute says nothing about the repository code
                raise AnalysisError(f"attribute {name} of a hand-assembled {obj.cls} instance is not set (build it through its constructor)")
            raise PyExc("AttributeError", (name,), node)
        if isinstance(obj, SObj):
            if name in obj.attrs:
                return obj.attrs[name]
            hook = I.stubs.get("hook:getattr")
            if hook:
                r = hook(self, obj, name)
                if r is not NotImplemented:
                    return r
            if obj.pytype == "Token" and name in ("upper", "lower", "strip", "startswith", "endswith"):
                return FuncRef(None, builtin="method:" + name, self_obj=obj.attrs.get("value"))
            if obj.pytype == "Logger" or name in getattr(obj, "methods", ()):
                return FuncRef(None, builtin="method:" + name, self_obj=obj)
            if obj.pytype not in CLOSED_STUBS:
                # a stand-in for an object of another library: what it lacks is a gap of the model, not of the code
                raise AnalysisError(f"attribute {name} of the {obj.pytype} stand-in is not modelled")
            raise PyExc("AttributeError", (f"{obj.label}.{name}",), node)
        if isinstance(obj, ModRef):
            if obj.name.startswith("ext:"):
                return self.external(obj.name[4:] + "." + name)
            fr = Frame(I, f"{obj.name}.<module>", None, {})
            return fr.global_name(name)
        if isinstance(obj, FuncRef) and obj.cls:
            m = I.facts.method(obj.cls, name)
            if m and not m.startswith("ext:"):
                fn = I.repo.func(m)
                decos = [dotted(d) for d in fn.decorator_list]
                if "classmethod" in decos:
                    return FuncRef(m, self_obj=obj)
                return FuncRef(m, self_obj=None, builtin=None, super_of=("unbound",))
            raise AnalysisError(f"class attribute {obj.cls}.{name}")
        if isinstance(obj, FuncRef) and obj.super_of and obj.super_of[0] == "super":
            cls_qual, selfv = obj.super_of[1], obj.super_of[2]
            m = I.facts.method(cls_qual, name, skip_self=True)
            if m and not m.startswith("ext:"):
                return FuncRef(m, self_obj=selfv)
            return FuncRef(None, builtin="extmethod:" + (m[4:] if m else name), self_obj=selfv)
        if isinstance(obj, HDict):
            if name == "default_factory":
                return obj.factory
            if name == "__class__" and obj.pytype in DICT_CLASSES:
                return FuncRef(None, cls=obj.pytype)
            if hasattr(obj, "attr_" + name):
                return getattr(obj, "attr_" + name)
            if obj.pytype in DICT_CLASSES:
                m = I.facts.method(obj.pytype, name)
                if m and not m.startswith("ext:") and I.stubs.get("dict_methods_from_source"):
                    return FuncRef(m, self_obj=obj)
        if isinstance(obj, FuncRef) and obj.builtin == "OrderedDict":
            return FuncRef(None, builtin="extmethod:OrderedDict." + name, self_obj=None, super_of=("unbound",))
        if isinstance(obj, dict) and not isinstance(obj, HDict) or (isinstance(obj, HDict) and obj.pytype in ("dict", "OrderedDict")):
            import collections as _c

            if not hasattr(_c.OrderedDict, name):
                # not an attribute of a plain dictionary; a harness whose dictionaries stand for richer objects
                # (jsonref proxies) says what those carry
                hook = I.stubs.get("hook:dict_attr")
                if hook:
                    r = hook(self, obj, name)
                    if r is not NotImplemented:
                        return r
                raise PyExc("AttributeError", (f"'dict' object has no attribute '{name}'",), node)
        # methods of values
        return FuncRef(None, builtin="method:" + name, self_obj=obj)

    def e_Subscript(self, n: ast.Subscript) -> Any:
        obj = self.eval(n.value)
        if isinstance(n.slice, ast.Slice):
            lo = self.eval(n.slice.lower) if n.slice.lower is not None else None
            hi = self.eval(n.slice.upper) if n.slice.upper is not None else None
            if n.slice.step is not None:
                raise AnalysisError("slice step")
            lo = self.index(lo) if lo is not None else None
            hi = self.index(hi) if hi is not None else None
            if isinstance(obj, SStr):
                return obj.slice(lo, hi)
            if isinstance(obj, (list, tuple, str)):
                return obj[lo:hi]
            raise AnalysisError(f"slice of {obj!r}")
        k = self.eval(n.slice)
        return self.getitem(obj, k, n)

    def getitem(self, obj: Any, k: Any, node: ast.AST | None = None) -> Any:
        I = self.I
        hook = I.stubs.get("hook:getitem")
        if hook:
            r = hook(self, obj, k, node)
            if r is not NotImplemented:
                return r
        if isinstance(obj, HDict) and obj.pytype in DICT_CLASSES:
            kk = I.dict_key(obj, k)
            if isinstance(kk, str) and obj.pytype.endswith("DefaultOrderedDict") and not obj.ci:
                kk = kk.lower()
            if kk in obj:
                return dict.__getitem__(obj, kk)
            if obj.factory is None:
                raise PyExc("KeyError", (kk,), node)
            mh = I.stubs.get("hook:vivify")
            if mh:
                mh(self, obj, kk, node)
            olk = I.repo.const("tokens", "OBJECT_LIST_KEYS")
            val = [] if kk in olk else self.call(obj.factory, [], {}, node)
            obj[kk] = val
            return val
        if isinstance(obj, dict):
            kk = I.dict_key(obj, k)
            if isinstance(kk, SStr):
                if dict.__contains__(obj, kk):
                    return dict.__getitem__(obj, kk)
                if I.decide(lambda: kk.member_of([x for x in obj.keys() if isinstance(x, (str, SStr))]), f"{kk.describe()} in dict keys"):
                    raise AnalysisError(f"symbolic key {kk!r} may equal an existing key of a concrete dict")
                raise PyExc("KeyError", (kk,), node)
            if isinstance(kk, SNum):
                hit = _snum_key(obj, kk)
                if hit is not None:
                    return dict.__getitem__(obj, hit)
                raise PyExc("KeyError", (kk,), node)
            if isinstance(kk, SObj):
                raise AnalysisError(f"symbolic key {kk!r} on concrete dict")
            try:
                if kk in obj:
                    return obj[kk]
            except TypeError:
                raise really_unhashable(kk, node)
            raise PyExc("KeyError", (kk,), node)
        if isinstance(obj, ReprDict):
            kk = I.dict_key(obj, k)
            for a, b in obj.items_:
                if a == kk:
                    return b
            if obj.missing == "absent":
                raise PyExc("KeyError", (kk,), node)
            raise AnalysisError(f"lookup of unknown key {kk!r} in {obj!r}")
        if isinstance(obj, (list, tuple)):
            if isinstance(k, (str, SStr)):
                raise PyExc("TypeError", (f"{pytype_of(obj)} indices must be integers or slices, not str",), node)
            i = self.index(k)
            try:
                return obj[i]
            except IndexError:
                raise PyExc("IndexError", (i, len(obj)), node)
        if isinstance(obj, str):
            if isinstance(k, (str, SStr)):
                raise PyExc("TypeError", ("string indices must be integers",), node)
            try:
                return obj[self.index(k)]
            except IndexError:
                raise PyExc("IndexError", (), node)
        if isinstance(obj, SStr):
            if isinstance(k, (str, SStr)):
                raise PyExc("TypeError", ("string indices must be integers",), node)
            i = self.index(k)
            if i == 0:
                ch, cc = obj._first_info()
            elif i == -1:
                ch, cc = obj._last_info()
            else:
                raise AnalysisError("symbolic string index")
            if ch is not None:
                return ch
            if cc is not None:
                return SStr.atom(f"{obj.describe()}[{i}]", first=cc, last=cc, single=True)
            raise AnalysisError("index into possibly empty symbolic string")
        if isinstance(obj, SObj) and obj.elems is not None:
            return obj.elems[self.index(k)]
        if isinstance(obj, SObj) and obj.pytype == "Token":
            # Token is a str subclass: indexing yields a character of its text
            if isinstance(k, (str, SStr)):
                raise PyExc("TypeError", ("string indices must be integers",), node)
            return self.getitem(obj.attrs["text"] if "text" in obj.attrs else obj.attrs["value"], k, node)
        if is_num_like(obj) or isinstance(obj, bool) or obj is None:
            raise PyExc("TypeError", (f"'{pytype_of(obj)}' object is not subscriptable",), node)
        raise AnalysisError(f"subscript of {obj!r} ({self.qual})")

    def e_Tuple(self, n: ast.Tuple) -> Any:
        return tuple(self.eval(e) for e in n.elts)

    def e_List(self, n: ast.List) -> Any:
        return [self.eval(e) for e in n.elts]

    def e_Set(self, n: ast.Set) -> Any:
        return frozenset(self.eval(e) for e in n.elts)

    def e_Dict(self, n: ast.Dict) -> Any:
        d = HDict()
        for k, v in zip(n.keys, n.values):
            if k is None:
                for k2, v2 in self.I.iter_items(self.eval(v)):
                    d[k2] = v2
                continue
            kk = self.eval(k)
            if isinstance(kk, SStr) and kk.is_concrete():
                kk = kk.concrete()
            d[kk] = self.eval(v)
        return d

    def e_JoinedStr(self, n: ast.JoinedStr) -> Any:
        parts = []
        for v in n.values:
            if isinstance(v, ast.Constant):
                parts.append(str(v.value))
            else:
                assert isinstance(v, ast.FormattedValue)
                if v.format_spec is not None or v.conversion not in (-1, 115):
                    raise AnalysisError("format spec in f-string")
                parts.append(self.to_str(self.eval(v.value)))
        return _simplify(SStr(parts))

    def e_IfExp(self, n: ast.IfExp) -> Any:
        return self.eval(n.body) if self.truth(self.eval(n.test), norm(n.test)) else self.eval(n.orelse)

    def e_BoolOp(self, n: ast.BoolOp) -> Any:
        v = None
        for e in n.values:
            v = self.eval(e)
            t = self.truth(v, norm(e))
            if isinstance(n.op, ast.And) and not t:
                return v
            if isinstance(n.op, ast.Or) and t:
                return v
        return v

    def e_UnaryOp(self, n: ast.UnaryOp) -> Any:
        v = self.eval(n.operand)
        if isinstance(n.op, ast.Not):
            return not self.truth(v, norm(n.operand))
        if isinstance(n.op, ast.USub):
            return -v if isinstance(v, (int, float, SNum)) else _bad("unary minus")
        if isinstance(n.op, ast.UAdd):
            return v
        raise AnalysisError("unary op")

    def e_BinOp(self, n: ast.BinOp) -> Any:
        return self.binop(n.op, self.eval(n.left), self.eval(n.right))

    def binop(self, op: ast.operator, a: Any, b: Any, inplace: bool = False) -> Any:
        if isinstance(op, ast.Add):
            if is_strlike(a) and is_strlike(b):
                return _simplify(as_sstr(a) + as_sstr(b))
            if isinstance(a, list) and isinstance(b, (list, tuple)):
                if inplace:
                    a.extend(b)
                    return a
                if isinstance(b, tuple):
                    raise _operand_error(a, b, "list + tuple")
                return a + b
            if isinstance(a, tuple) and isinstance(b, tuple):
                return a + b
            if is_num_like(a) and is_num_like(b):
                return _num(a) + _num(b) if (isinstance(a, SNum) or isinstance(b, SNum)) else a + b
            if isinstance(a, list) and isinstance(b, SObj) and inplace:
                raise AnalysisError("list += object")
            raise _operand_error(a, b, f"{pytype_of(a)} + {pytype_of(b)}")
        if isinstance(op, ast.Sub):
            if is_num_like(a) and is_num_like(b):
                return _num(a) - _num(b) if (isinstance(a, SNum) or isinstance(b, SNum)) else a - b
            if isinstance(a, (set, frozenset)) and isinstance(b, (set, frozenset)):
                return frozenset(a) - frozenset(b)
            raise _operand_error(a, b, f"{pytype_of(a)} - {pytype_of(b)}")
        if isinstance(op, ast.Mult):
            if is_strlike(a) and is_num_like(b):
                return _simplify(av.repeat(a, b))
            if is_strlike(b) and is_num_like(a):
                return _simplify(av.repeat(b, a))
            if is_num_like(a) and is_num_like(b):
                return _num(a) * _num(b) if (isinstance(a, SNum) or isinstance(b, SNum)) else a * b
            for seq, cnt in ((a, b), (b, a)):
                if isinstance(seq, (list, tuple)) and is_num_like(cnt):
                    if isinstance(cnt, SNum):
                        raise AnalysisError("sequence repeated a symbolic number of times")
                    return seq * int(cnt)
            raise _operand_error(a, b, f"{pytype_of(a)} * {pytype_of(b)}")
        if isinstance(op, ast.Div):
            if is_num_like(a) and is_num_like(b):
                if isinstance(a, SNum) or isinstance(b, SNum):
                    return av.opaque_num("div", (a, b), 0, None, True)
                if b == 0:
                    raise PyExc("ZeroDivisionError", ())
                return a / b
        if isinstance(op, ast.FloorDiv):
            if is_num_like(a) and is_num_like(b):
                if isinstance(a, SNum) or isinstance(b, SNum):
                    return av.opaque_num("floordiv", (a, b), 0, None)
                return a // b
        if isinstance(op, ast.Mod):
            if is_strlike(a):
                return self.percent_format(a, b)
            if is_num_like(a) and is_num_like(b) and not isinstance(a, SNum) and not isinstance(b, SNum):
                return a % b
        if isinstance(op, ast.BitOr):
            if isinstance(a, (set, frozenset)) and isinstance(b, (set, frozenset)):
                return frozenset(a) | frozenset(b)
        raise AnalysisError(f"binary op {type(op).__name__} on {a!r}, {b!r}")

    def percent_format(self, tmpl: Any, arg: Any) -> Any:
        t = as_sstr(tmpl)
        if not t.is_concrete():
            raise AnalysisError("symbolic % template")
        s = t.concrete()
        mapping = arg if isinstance(arg, (dict, HDict)) else None
        args = list(arg) if isinstance(arg, tuple) else [arg]
        out: list[Any] = []
        i = 0
        while i < len(s):
            if s[i] == "%" and i + 1 < len(s):
                c = s[i + 1]
                if c == "(" and mapping is not None and ")" in s[i:]:
                    # %(name)s / %(name)d / %(name)r
                    j = s.index(")", i)
                    name = s[i + 2 : j]
                    conv = s[j + 1] if j + 1 < len(s) else ""
                    if conv not in "sdr":
                        raise AnalysisError(f"% format ({name}){conv}")
                    if not self.contains(mapping, name):
                        raise PyExc("KeyError", (name,))
                    out.append(self.to_str(self.getitem(mapping, name, None)))
                    i = j + 2
                    continue
                if c == "%":
                    out.append("%")
                elif c in "sd":
                    if not args:
                        raise PyExc("TypeError", ("not enough arguments for format string",))
                    out.append(self.to_str(args.pop(0)))
                else:
                    raise AnalysisError(f"% format {c}")
                i += 2
            else:
                out.append(s[i])
                i += 1
        return _simplify(SStr(out))

    def e_Compare(self, n: ast.Compare) -> Any:
        left = self.eval(n.left)
        for op, rn in zip(n.ops, n.comparators):
            right = self.eval(rn)
            r = self.compare(op, left, right, norm(n))
            if not r:
                return False
            left = right
        return True

    def compare(self, op: ast.cmpop, a: Any, b: Any, descr: str) -> bool:
        I = self.I
        if isinstance(op, (ast.Is, ast.IsNot)):
            # the result of a regex search on unknown text: a match object or None, one decision per path
            for x, y in ((a, b), (b, a)):
                if isinstance(x, SObj) and x.pytype == "re.MaybeMatch" and y is None:
                    is_none = not self.truth(x.attrs["_b"])
                    return is_none if isinstance(op, ast.Is) else not is_none
            if a is None or b is None or isinstance(a, bool) or isinstance(b, bool):
                if isinstance(a, SBool) or isinstance(b, SBool):
                    sb = a if isinstance(a, SBool) else b
                    other = b if sb is a else a
                    t = self.truth(sb)
                    same = t == other if isinstance(other, bool) else False
                else:
                    same = (a is b) or (isinstance(a, bool) and isinstance(b, bool) and a == b)
                    if isinstance(a, SOpaque) or isinstance(b, SOpaque):
                        o = a if isinstance(a, SOpaque) else b
                        same = False if o.pytype != "NoneType" else True
            else:
                same = a is b
            return same if isinstance(op, ast.Is) else not same
        if isinstance(op, (ast.Eq, ast.NotEq)):
            r = I.decide(lambda: self.equal(a, b), descr)
            return r if isinstance(op, ast.Eq) else not r
        if isinstance(op, (ast.In, ast.NotIn)):
            r = I.decide(lambda: self.contains(b, a), descr)
            return r if isinstance(op, ast.In) else not r
        sym = {ast.Lt: "<", ast.LtE: "<=", ast.Gt: ">", ast.GtE: ">="}[type(op)]
        if is_num_like(a) and is_num_like(b):
            if isinstance(a, SNum) or isinstance(b, SNum):
                return I.decide(lambda: _num(a).compare(sym, b), descr)
            return {"<": a < b, "<=": a <= b, ">": a > b, ">=": a >= b}[sym]
        hook = I.stubs.get("hook:order")
        if hook:
            r = hook(self, sym, a, b)
            if r is not NotImplemented:
                return r
        raise AnalysisError(f"ordering comparison of {a!r} and {b!r}")

    def equal(self, a: Any, b: Any) -> bool:
        if isinstance(a, SObj) and a.pytype == "Token":
            a = a.attrs.get("text", a.attrs.get("value"))
        if isinstance(b, SObj) and b.pytype == "Token":
            b = b.attrs.get("text", b.attrs.get("value"))
        if isinstance(a, SStr) or isinstance(b, SStr):
            if not (is_strlike(a) and is_strlike(b)):
                return False
            return as_sstr(a).equals(b)
        if isinstance(a, SNum) or isinstance(b, SNum):
            if is_num_like(a) and is_num_like(b):
                return _num(a).compare("==", b)
            return False
        if isinstance(a, SBool) or isinstance(b, SBool):
            sb, other = (a, b) if isinstance(a, SBool) else (b, a)
            if isinstance(other, bool):
                return self.truth(sb) == other
            return False
        if isinstance(a, (SObj, SOpaque, Inst, ReprDict)) or isinstance(b, (SObj, SOpaque, Inst, ReprDict)):
            if a is b:
                return True
            if isinstance(a, SOpaque) or isinstance(b, SOpaque):
                o, other = (a, b) if isinstance(a, SOpaque) else (b, a)
                if pytype_of(other) != o.pytype and not (o.pytype in ("int", "float") and pytype_of(other) in ("int", "float")):
                    return False
                raise Undecided(f"{a!r} == {b!r}")
            return False
        if isinstance(a, (list, tuple)) and isinstance(b, (list, tuple)) and type(a) is type(b):
            if len(a) != len(b):
                return False
            return all(self.equal(x, y) for x, y in zip(a, b))
        try:
            return a == b
        except Exception:
            return False

    def contains(self, coll: Any, item: Any) -> bool:
        I = self.I
        if isinstance(coll, HDict) or isinstance(coll, dict):
            k = I.dict_key(coll, item)
            if isinstance(k, SStr):
                return k.member_of(list(coll.keys()))
            if isinstance(k, SNum):
                return _snum_key(coll, k) is not None
            try:
                return k in coll
            except TypeError:
                raise really_unhashable(k, None)
        if isinstance(coll, ReprDict):
            k = I.dict_key(coll, item)
            if any(a == k for a, _ in coll.items_):
                return True
            if coll.missing == "absent":
                return False
            raise Undecided(f"{k!r} in {coll!r}")
        if isinstance(coll, (list, tuple, set, frozenset)):
            unknown = None
            for x in coll:
                try:
                    if self.equal(x, item):
                        return True
                except Undecided as u:
                    unknown = u
            if unknown:
                raise unknown
            return False
        if is_strlike(coll):
            if not is_strlike(item):
                raise PyExc("TypeError", ("'in <string>' requires string as left operand",))
            c, it = as_sstr(coll), as_sstr(item)
            if c.is_concrete() and it.is_concrete():
                return it.concrete() in c.concrete()
            if it.is_concrete() and len(it.concrete()) == 1:
                return c.contains_char(it.concrete())
            if it.is_concrete() and it.concrete():
                w = it.concrete()
                if any(isinstance(pc, str) and w in pc for pc in c.pieces):
                    return True
                # a match outside the literal pieces needs at least one character of an atom
                if all(isinstance(pc, str) or (isinstance(pc, av.Atom) and all(ch in pc.excludes for ch in set(w))) for pc in c.pieces):
                    return False
            if c.is_concrete() and len(it.pieces) == 1 and isinstance(it.pieces[0], av.Atom):
                at = it.pieces[0]
                if at.nonempty and all(ch in at.excludes for ch in c.concrete()):
                    return False
            raise Undecided(f"{it.describe()} in {c.describe()}")
        if isinstance(coll, SObj) and coll.pytype == "Token":
            return self.contains(coll.attrs.get("value"), item)
        if is_num_like(coll) or coll is None or isinstance(coll, bool):
            raise PyExc("TypeError", (f"argument of type '{pytype_of(coll)}' is not iterable",))
        raise AnalysisError(f"membership in {coll!r}")

    def e_ListComp(self, n: ast.ListComp) -> Any:
        return self.comp(n.elt, n.generators)

    def e_GeneratorExp(self, n: ast.GeneratorExp) -> Any:
        return _Gen(self.comp(n.elt, n.generators))

    def e_SetComp(self, n: ast.SetComp) -> Any:
        return frozenset(self.comp(n.elt, n.generators))

    def comp(self, elt: ast.expr, gens: list[ast.comprehension]) -> list:
        out: list[Any] = []
        saved = dict(self.env)

        def rec(i: int) -> None:
            if i == len(gens):
                out.append(self.eval(elt))
                return
            g = gens[i]
            for item in self.iterate(self.eval(g.iter)):
                self.assign(g.target, item)
                if all(self.truth(self.eval(c), norm(c)) for c in g.ifs):
                    rec(i + 1)

        rec(0)
        # comprehension variables do not leak
        for k in list(self.env):
            if k not in saved:
                del self.env[k]
        return out

    def e_NamedExpr(self, n: ast.NamedExpr) -> Any:
        v = self.eval(n.value)
        self.assign(n.target, v)
        return v

    def e_DictComp(self, n: ast.DictComp) -> Any:
        d = HDict()
        saved = dict(self.env)

        def rec(i: int) -> None:
            if i == len(n.generators):
                k = self.eval(n.key)
                d[k.concrete() if isinstance(k, SStr) and k.is_concrete() else k] = self.eval(n.value)
                return
            g = n.generators[i]
            for item in self.iterate(self.eval(g.iter)):
                self.assign(g.target, item)
                if all(self.truth(self.eval(c), norm(c)) for c in g.ifs):
                    rec(i + 1)

        rec(0)
        for k in list(self.env):
            if k not in saved:
                del self.env[k]
        return d

    def e_Lambda(self, n: ast.Lambda) -> Any:
        return FuncRef(None, builtin="lambda", self_obj=(self, n))

    def e_Yield(self, n: ast.Yield) -> Any:
        if self.yielded is None:
            raise AnalysisError(f"yield outside a modelled generator ({self.qual})")
        self.yielded.append(self.eval(n.value) if n.value is not None else None)
        return None

    def e_YieldFrom(self, n: ast.YieldFrom) -> Any:
        if self.yielded is None:
            raise AnalysisError(f"yield from outside a modelled generator ({self.qual})")
        self.yielded.extend(self.iterate(self.eval(n.value)))
        return None

    def e_Starred(self, n: ast.Starred) -> Any:
        raise AnalysisError("starred expression outside call")

    # -- calls -----------------------------------------------------------------------------------

    def e_Call(self, n: ast.Call) -> Any:
        # super()
        if isinstance(n.func, ast.Name) and n.func.id == "super" and not n.args:
            if not self.cls:
                raise AnalysisError("super() outside class")
            return FuncRef(None, super_of=("super", self.cls, self.env.get("self")))
        f = self.eval(n.func)
        args: list[Any] = []
        for a in n.args:
            if isinstance(a, ast.Starred):
                args.extend(self.iterate(self.eval(a.value)))
            else:
                args.append(self.eval(a))
        kwargs: dict[str, Any] = {}
        for kw in n.keywords:
            if kw.arg is None:
                v = self.eval(kw.value)
                for k, x in self.I.iter_items(v):
                    kwargs[k if isinstance(k, str) else as_sstr(k).concrete()] = x
            else:
                kwargs[kw.arg] = self.eval(kw.value)
        return self.call(f, args, kwargs, n)

    def call(self, f: Any, args: list, kwargs: dict, node: ast.AST | None = None) -> Any:
        I = self.I
        if isinstance(f, FuncRef):
            if f.qual:
                if f.super_of == ("unbound",):
                    return I.call_qual(f.qual, args[0], args[1:], kwargs)
                return I.call_qual(f.qual, f.self_obj, args, kwargs)
            if f.cls:
                return I.instantiate(f.cls, args, kwargs)
            if f.builtin:
                if f.super_of == ("unbound",) and f.builtin.startswith("extmethod:") and args:
                    f = FuncRef(None, builtin=f.builtin, self_obj=args[0])
                    args = args[1:]
                return call_builtin(self, f, args, kwargs, node)
        if isinstance(f, TypeRef):
            return call_builtin(self, FuncRef(None, builtin=f.names[0]), args, kwargs, node)
        if callable(f) and not isinstance(f, (SObj, Inst)):
            return f(self, args, kwargs)  # client stub object
        if f is None or isinstance(f, (str, int, float, list, dict, tuple, SStr, SNum)):
            raise PyExc("TypeError", (f"'{pytype_of(f)}' object is not callable",), node)
        raise AnalysisError(f"call of {f!r} ({self.qual})")

    def to_str(self, v: Any) -> Any:
        if isinstance(v, SStr):
            return v
        if isinstance(v, str):
            return v
        if isinstance(v, bool) or v is None or isinstance(v, (int, float)):
            return str(v)
        if isinstance(v, SNum):
            if v.is_const():
                return str(v.const_value())
            return SStr.atom(f"str({v})", first=av.CC.of("0123456789-"), last=av.CC.of("0123456789"), excludes=frozenset(" \t\n'\"()[]{}#/"))
        if isinstance(v, SBool):
            return "True" if self.truth(v) else "False"
        if isinstance(v, SObj) and v.pytype == "Token":
            return self.to_str(v.attrs.get("text", v.attrs.get("value")))
        if isinstance(v, SOpaque) and v.pytype in ("int", "float"):
            return SStr.atom(f"str({v.label})", first=av.CC.of("0123456789-"), last=av.CC.of("0123456789"), excludes=frozenset(" \t\n'\"()[]{}#/"))
        if isinstance(v, (list, tuple, dict)):
            hook = I_hook(self, "hook:str")
            if hook:
                return hook(self, v)
            return _simplify(self.repr_container(v))
        hook = I_hook(self, "hook:str")
        if hook:
            return hook(self, v)
        raise AnalysisError(f"str() of {v!r}")


class _Gen:
    def __init__(self, items: list):
        self.items = items


def _repr_of(fr: "Frame", v: Any) -> Any:
    if isinstance(v, (str, SStr)):
        return SStr(["'", as_sstr(v), "'"])
    if isinstance(v, (list, tuple, dict)):
        return fr.repr_container(v)
    return as_sstr(fr.to_str(v))


def _repr_container(self: "Frame", v: Any) -> SStr:
    """Text of str(list / tuple / dict): punctuation plus the elements' own text (approximate repr)."""
    parts: list[Any] = []
    if isinstance(v, dict):
        parts.append("{")
        for i, (k, x) in enumerate(v.items()):
            if i:
                parts.append(", ")
            parts += [_repr_of(self, k), ": ", _repr_of(self, x)]
        parts.append("}")
    else:
        o, c = ("[", "]") if isinstance(v, list) else ("(", ")")
        parts.append(o)
        for i, x in enumerate(v):
            if i:
                parts.append(", ")
            parts.append(_repr_of(self, x))
        parts.append(c)
    return SStr(parts)


Frame.repr_container = _repr_container  # type: ignore[attr-defined]


class _LiveList:
    """Python iterates a list by index over the live object: removing or inserting elements in the
    loop body shifts what the following iterations see."""

    def __init__(self, lst: list):
        self.lst = lst

    def __iter__(self):
        i = 0
        n = 0
        while i < len(self.lst):
            n += 1
            if n > 100000:
                raise AnalysisError("list grows while it is iterated")
            yield self.lst[i]
            i += 1


class OpaqueRun(SStr):
    """All characters of one opaque atom, visited as a single loop iteration."""

    __slots__ = ()


def sstr_chars(s: SStr) -> list:
    """(index, character) pairs of a symbolic string; an atom contributes one OpaqueRun element and
    indices become symbolic after it."""
    out = []
    pos: Any = 0
    for p in s.pieces:
        if isinstance(p, str):
            for ch in p:
                out.append((pos, ch))
                pos = pos + 1
        elif isinstance(p, av.Atom):
            out.append((pos, OpaqueRun((p,))))
            pos = pos + SStr((p,)).length()
        else:
            raise AnalysisError("iteration over a repeated string piece")
    return out


def I_hook(fr: Frame, name: str):
    return fr.I.stubs.get(name)


def _no_fork(name: str) -> bool:
    raise AnalysisError(f"undecided boolean {name} (forking disabled)")


def _undecided(d: str) -> bool:
    raise Undecided(d)


def _bad(msg: str) -> Any:
    raise AnalysisError(msg)


def _load(t: ast.expr) -> ast.expr:
    import copy

    c = copy.copy(t)
    c.ctx = ast.Load()  # type: ignore[attr-defined]
    return c


def _num(v: Any) -> SNum:
    return v if isinstance(v, SNum) else SNum.const(v)


def is_num_like(v: Any) -> bool:
    return isinstance(v, SNum) or (isinstance(v, (int, float)) and not isinstance(v, bool)) or isinstance(v, bool)


def _simplify(s: SStr) -> Any:
    return s.concrete() if s.is_concrete() else s


BUILTINS = {
    "len", "isinstance", "str", "int", "float", "list", "tuple", "map", "any", "all", "max", "min", "type", "sorted", "set",
    "frozenset", "enumerate", "zip", "range", "hasattr", "getattr", "callable", "dict", "bool", "iter", "next", "repr", "print",
    "open", "reversed", "sum", "abs", "id",
}


from .pai_builtins import call_builtin  # noqa: E402  (split for size)
