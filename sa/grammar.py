"""E4 - grammar facts: lark used as a grammar *compiler* only.

The grammar file of the current tree is compiled with the same call and lark version the
package uses; what is inspected is the result of that compilation (rules, terminals, the LALR(1)
table, the contextual lexer's per-state accept sets).  No Mapfile text is lexed or parsed here:
the only things fed to the automaton are sequences of terminal *names*, and the only strings a
terminal regex is matched against are vocabulary words taken from the schema files.
"""

from __future__ import annotations

import functools
import os
import re
from dataclasses import dataclass, field
from typing import Any, Callable, Iterable

from .core import AnalysisError, pkg_dir

try:
    import re._parser as sre_parse  # py >= 3.11
    import re._constants as sre_c
except ImportError:  # pragma: no cover
    import sre_parse  # type: ignore
    import sre_constants as sre_c  # type: ignore



@dataclass
class Term:
    name: str
    kind: str  # 'str' | 're'
    value: str
    flags: frozenset
    priority: int

    @property
    def ci(self) -> bool:
        return "i" in self.flags

    def regex(self) -> "re.Pattern":
        fl = 0
        for f in self.flags:
            fl |= {"i": re.I, "s": re.S, "m": re.M, "x": re.X, "u": re.U, "l": re.L}[f]
        src = re.escape(self.value) if self.kind == "str" else self.value
        return re.compile(src, fl)

    def fullmatch(self, word: str) -> bool:
        return self.regex().fullmatch(word) is not None


@dataclass
class GRule:
    origin: str
    expansion: tuple  # of (name, is_term, filter_out)
    alias: str | None
    keep_all: bool
    expand1: bool
    order: int
    raw: Any = None

    def __str__(self) -> str:
        rhs = " ".join(n for n, _, _ in self.expansion) or "ε"
        a = f" -> {self.alias}" if self.alias else ""
        return f"{self.origin}: {rhs}{a}"


class Grammar:
    def __init__(self, path: str | None = None):
        from lark import Lark
        from lark.parsers.lalr_analysis import LALR_Analyzer, Shift, Reduce

        self.path = path or os.path.join(pkg_dir(), "mapfile.lark")
        if not os.path.isfile(self.path):
            raise AnalysisError("anchor vanished: mapfile.lark")
        try:
            L = Lark.open(self.path, parser="lalr")
        except Exception as ex:
            raise AnalysisError(f"mapfile.lark does not compile: {type(ex).__name__}: {ex}") from ex
        self.lark = L
        with open(self.path, encoding="utf-8") as f:
            self.src = f.read()
        self.terms: dict[str, Term] = {}
        self.term_order: list[str] = []
        for t in L.terminals:
            kind = "str" if type(t.pattern).__name__ == "PatternStr" else "re"
            self.terms[t.name] = Term(t.name, kind, t.pattern.value, frozenset(t.pattern.flags), t.priority)
            self.term_order.append(t.name)
        self.declared = [n for n in self._declared_terminals()]
        self.ignore = list(L.ignore_tokens)
        self.rules: list[GRule] = []
        for r in L.rules:
            exp = tuple((str(s.name), s.is_term, bool(getattr(s, "filter_out", False))) for s in r.expansion)
            self.rules.append(
                GRule(str(r.origin.name), exp, r.alias, bool(r.options.keep_all_tokens), bool(r.options.expand1), r.order, r)
            )
        self.by_origin: dict[str, list[GRule]] = {}
        for r in self.rules:
            self.by_origin.setdefault(r.origin, []).append(r)
        # LALR table
        pt = L.parser.parser._parse_table
        self.Shift, self.Reduce = Shift, Reduce
        self.states: dict[int, dict[str, tuple]] = {}
        for s, acts in pt.states.items():
            self.states[s] = {k: (("S", v[1]) if v[0] is Shift else ("R", v[1])) for k, v in acts.items()}
        self.start_state = pt.start_states["start"]
        self.end_state = pt.end_states["start"]
        self._raw2g = {id(r.raw): r for r in self.rules}
        # contextual lexer accept sets (lark's own match order)
        self.accepts: dict[int, list[str]] = {}
        lx = L.parser.lexer
        for s, bl in lx.lexers.items():
            self.accepts[s] = [t.name for t in bl.terminals]
        self.root_accepts = [t.name for t in lx.root_lexer.terminals]
        # conflicts
        self.conflicts: list[dict] = []
        an = LALR_Analyzer(L.parser.parser_conf)
        an.compute_lr0_states()
        an.compute_reads_relations()
        an.compute_includes_lookback()
        an.compute_lookaheads()
        self.rr_conflicts: list[dict] = []
        for itemset in an.lr0_itemsets:
            for la, rules in itemset.lookaheads.items():
                rules = list(rules)
                if len(rules) > 1:
                    self.rr_conflicts.append({"lookahead": la.name, "rules": [str(self._raw2g[id(r)]) for r in rules]})
                if la in itemset.transitions:
                    for r in rules:
                        g = self._raw2g[id(r)]
                        # the items that would shift `la` in this state
                        shifting = []
                        for it in itemset.closure:
                            if not it.is_satisfied and it.next == la:
                                shifting.append(self._raw2g[id(it.rule)])
                        self.conflicts.append({"lookahead": la.name, "reduce": g, "shift_rules": shifting})

    def _declared_terminals(self) -> Iterable[str]:
        for m in re.finditer(r"^%declare\s+([A-Z_0-9 ]+)", self.src, re.M):
            for n in m.group(1).split():
                yield n

    # -- anonymous / named literal keyword terminals -----------------------------------------

    def literal_terms(self) -> list[Term]:
        return [t for t in self.terms.values() if t.kind == "str"]

    # -- tree shaping ----------------------------------------------------------------------------
    #
    # A child sequence is a tuple whose elements are terminal names, node labels written
    # "@label", or Star(kinds): zero or more children each of one of the kinds (lark's EBNF
    # helper rules are directly left-recursive inline rules and are summarised, not unrolled).

    def _is_inline(self, name: str) -> bool:
        return name.startswith("_")

    def _rule_children(self, r: GRule, busy: tuple = ()) -> set:
        seqs = {()}
        for name, is_term, filt in r.expansion:
            if is_term:
                if filt and not r.keep_all:
                    continue
                seqs = {s + (name,) for s in seqs}
            else:
                opts = self._contrib(name, busy)
                seqs = {s + o for s in seqs for o in opts}
            if len(seqs) > 200000:
                raise AnalysisError(f"tree shapes of {r.origin} explode")
        return seqs

    def _contrib(self, name: str, busy: tuple = ()) -> frozenset:
        memo = self.__dict__.setdefault("_contrib_memo", {})
        if name in memo:
            return memo[name]
        if name in busy:
            raise AnalysisError(f"unsupported recursion through {name} in tree shaping")
        rules = self.by_origin.get(name)
        if rules is None:
            raise AnalysisError(f"nonterminal {name} has no rules")
        out: set = set()
        if self._is_inline(name):
            base, tails = [], []
            for r in rules:
                if r.expansion and r.expansion[0][0] == name:
                    rest = GRule(r.origin, r.expansion[1:], r.alias, r.keep_all, r.expand1, r.order)
                    if any(n == name for n, _, _ in rest.expansion):
                        raise AnalysisError(f"non-left recursion in inline rule {name}")
                    tails.append(rest)
                else:
                    if any(n == name for n, _, _ in r.expansion):
                        raise AnalysisError(f"non-left recursion in inline rule {name}")
                    base.append(r)
            for r in base:
                out |= self._rule_children(r, busy + (name,))
            if tails:
                kinds = set()
                for r in tails:
                    for c in self._rule_children(r, busy + (name,)):
                        if len(c) != 1 or isinstance(c[0], Star):
                            raise AnalysisError(f"repetition item of {name} is not a single child: {c}")
                        kinds.add(c[0])
                st = Star(frozenset(kinds))
                out = {b + (st,) for b in out}
        else:
            for r in rules:
                label = ("@" + (r.alias or r.origin),)
                if r.expand1 and r.alias is None:
                    contributing = [(n, t) for n, t, f in r.expansion if not (t and f and not r.keep_all)]
                    if len(contributing) == 1 and not (not contributing[0][1] and self._is_inline(contributing[0][0])):
                        n, t = contributing[0]
                        if t:
                            out.add((n,))
                        elif n != name:  # "+" unary_expr: contributes what unary_expr contributes
                            out |= self._contrib(n, busy + (name,))
                        continue
                    if len(contributing) == 1:
                        for c in self._contrib(contributing[0][0], busy + (name,)):
                            if len(c) == 1 and not isinstance(c[0], Star):
                                out.add(c)
                            else:
                                out.add(label)
                        continue
                out.add(label)
        memo[name] = frozenset(out)
        return memo[name]

    def node_shapes(self) -> dict[str, set]:
        """label -> set of child sequences a node with that label can have.  A node is created
        for an expansion unless the rule is inlined (``_x``) or it is a ``?rule`` expansion
        without alias that has exactly one child."""
        if "_shapes" in self.__dict__:
            return self.__dict__["_shapes"]
        shapes: dict[str, set] = {}
        for r in self.rules:
            if self._is_inline(r.origin):
                continue
            for c in self._rule_children(r):
                if r.expand1 and r.alias is None and len(c) == 1 and not isinstance(c[0], Star):
                    continue
                shapes.setdefault(r.alias or r.origin, set()).add(c)
        self.__dict__["_shapes"] = shapes
        return shapes

    def reachable_labels(self, start: str = "start") -> set[str]:
        shapes = self.node_shapes()
        seen = set()
        todo = [start]
        while todo:
            lab = todo.pop()
            if lab in seen:
                continue
            seen.add(lab)
            for seq in shapes.get(lab, ()):
                for k in seq:
                    ks = k.kinds if isinstance(k, Star) else (k,)
                    for kk in ks:
                        if kk.startswith("@") and kk[1:] not in seen:
                            todo.append(kk[1:])
        return seen

    # -- derivability: LR automaton on terminal-name sequences --------------------------------

    def accepts_kinds(self, kinds: list[str], retag: Callable[[list, str, int], str] | None = None) -> tuple[bool, str]:
        """Is the sequence of terminal names a sentence?  Runs the LALR table on *names*;
        ``retag(value_stack_kinds, kind, index)`` models Parser.parse's interactive retagging.
        Returns (accepted, reason)."""
        stack = [self.start_state]
        vstack: list[str] = []
        seq = list(kinds) + ["$END"]
        i = 0
        steps = 0
        while True:
            steps += 1
            if steps > 100000:
                return False, "step limit"
            k = seq[i]
            if retag is not None and k != "$END":
                k = retag(vstack, k, i)
            acts = self.states[stack[-1]]
            if k not in acts:
                exp = sorted(acts)[:8]
                return False, f"token #{i} {k} not accepted in state {stack[-1]} (expects {exp}…)"
            a, arg = acts[k]
            if a == "S":
                stack.append(arg)
                vstack.append(k)
                i += 1
            else:
                rule = arg
                n = len(rule.expansion)
                if n:
                    del stack[-n:]
                    del vstack[-n:]
                origin = rule.origin.name
                goto = self.states[stack[-1]][origin]
                stack.append(goto[1])
                vstack.append("@" + str(origin))
                if k == "$END" and stack[-1] == self.end_state:
                    return True, "accepted"

    def run_items(self, items: list[tuple], retag: Callable | None = None) -> tuple[bool, str, list[str]]:
        """Feed a sequence of ('K', terminal) / ('W', word) items to the LALR automaton.  A word is
        classified by the contextual lexer's accept list of the current parser state (lark's own
        terminal order).  ``retag(prev, kind, text)`` models the interactive retagging; ``prev`` is
        the (kind, text) of the previously shifted token or None.  Returns (accepted, reason, kinds)."""
        stack = [self.start_state]
        vstack: list[str] = []  # 'T' shifted token / 'N' reduced nonterminal, parallel to the value stack
        prev: tuple | None = None
        kinds: list[str] = []
        seq = list(items) + [("K", "$END")]
        import inspect

        wants_below = retag is not None and len(inspect.signature(retag).parameters) >= 4
        for idx, (how, x) in enumerate(seq):
            if how == "W":
                k = self.lex_kind(x, self.accepts.get(stack[-1], []))
                if k is None or k in self.ignore:
                    return False, f"item #{idx}: word {x!r} matches no terminal acceptable in state {stack[-1]}", kinds
                text = x
            else:
                k, text = x, None
            if retag is not None and k != "$END":
                if wants_below:
                    below = None if len(vstack) < 2 else ("token" if vstack[-2] == "T" else "tree")
                    k = retag(prev if vstack and vstack[-1] == "T" else None, k, text, below)
                else:
                    k = retag(prev, k, text)
            kinds.append(k)
            steps = 0
            while True:
                steps += 1
                if steps > 10000:
                    return False, "reduction loop", kinds
                acts = self.states[stack[-1]]
                if k not in acts:
                    return False, f"item #{idx}: {k}{'(' + text + ')' if text else ''} not accepted in state {stack[-1]} (expects {sorted(acts)[:6]}…)", kinds
                a, arg = acts[k]
                if a == "S":
                    stack.append(arg)
                    vstack.append("T")
                    prev = (k, text)
                    break
                n = len(arg.expansion)
                if n:
                    del stack[-n:]
                    del vstack[-n:]
                stack.append(self.states[stack[-1]][arg.origin.name][1])
                vstack.append("N")
                if k == "$END" and stack[-1] == self.end_state:
                    return True, "accepted", kinds
        return False, "input ended without acceptance", kinds

    def state_after(self, kinds: list[str], retag=None) -> tuple[int | None, list[str]]:
        """State stack top after shifting ``kinds`` (used for accept-set queries)."""
        stack = [self.start_state]
        vstack: list[str] = []
        for i, k in enumerate(kinds):
            if retag is not None:
                k = retag(vstack, k, i)
            while True:
                acts = self.states[stack[-1]]
                if k not in acts:
                    return None, vstack
                a, arg = acts[k]
                if a == "S":
                    stack.append(arg)
                    vstack.append(k)
                    break
                n = len(arg.expansion)
                if n:
                    del stack[-n:]
                    del vstack[-n:]
                stack.append(self.states[stack[-1]][arg.origin.name][1])
                vstack.append("@" + str(arg.origin.name))
        return stack[-1], vstack

    # -- lexical classification of vocabulary words ------------------------------------------

    def matching_terms(self, word: str) -> list[str]:
        return [n for n in self.term_order if self.terms[n].fullmatch(word)]

    def lex_kind(self, word: str, accept: list[str]) -> str | None:
        """Terminal a *whole vocabulary word* gets from lark's BasicLexer built over the terminals
        ``accept`` (already in lark's match order): regex and non-embedded literal terminals are tried
        in order and the first that matches a prefix wins (None if that prefix is not the whole word:
        the word would be split); a regex terminal's match is re-typed to a literal terminal of the same
        priority that equals the text (lark's "unless" callback)."""
        key = (word, tuple(accept))
        memo = self.__dict__.setdefault("_lex_memo", {})
        if key in memo:
            return memo[key]
        terms = [self.terms[n] for n in accept if n in self.terms]
        res = [t for t in terms if t.kind == "re"]
        strs = [t for t in terms if t.kind == "str"]
        embedded = set()
        unless: dict[str, list[Term]] = {}
        for r in res:
            for st in strs:
                if st.priority != r.priority:
                    continue
                m = r.regex().match(st.value)
                if m and m.group(0) == st.value:
                    unless.setdefault(r.name, []).append(st)
                    if st.flags <= r.flags:
                        embedded.add(st.name)
        out = None
        for t in terms:
            if t.name in embedded:
                continue
            m = t.regex().match(word)
            if m:
                if m.group(0) != word:
                    out = None
                else:
                    out = t.name
                    for st in unless.get(t.name, []):
                        if st.fullmatch(word):
                            out = st.name
                            break
                break
        memo[key] = out
        return out


@dataclass(frozen=True)
class Star:
    kinds: frozenset

    def __repr__(self) -> str:
        return "(" + "|".join(sorted(self.kinds)) + ")*"


def seq_len(seq: tuple) -> tuple[int, int | None]:
    lo = sum(1 for e in seq if not isinstance(e, Star))
    hi = None if any(isinstance(e, Star) for e in seq) else lo
    return lo, hi


def seq_at(seq: tuple, idx: int) -> tuple[set, bool]:
    """(kinds possible at index ``idx`` (negative: from the end), may-be-absent)."""
    s = list(seq)
    if idx < 0:
        s = s[::-1]
        idx = -idx - 1
    # enumerate unrollings of stars up to idx+1 repetitions
    results: set = set()
    absent = False

    def go(pos: int, need: int):
        nonlocal absent
        if pos == len(s):
            absent = True
            return
        e = s[pos]
        if isinstance(e, Star):
            go(pos + 1, need)  # zero repetitions
            for k in range(need + 1):
                # k items skipped by this star, then the (k+1)th is the target if k == need
                if k == need:
                    results.update(e.kinds)
                # more than `need` handled above; fewer: consume k < need then continue
                else:
                    go(pos + 1, need - k - 1) if False else None
            # general treatment: star consumes j items (1..need) then continue after it
            for j in range(1, need + 1):
                go(pos + 1, need - j)
        else:
            if need == 0:
                results.add(e)
            else:
                go(pos + 1, need - 1)

    go(0, idx)
    return results, absent


def seq_str(seq: tuple) -> str:
    return "[" + " ".join(repr(e) if isinstance(e, Star) else e for e in seq) + "]"


# ---------------------------------------------------------------------------------------------
# regex syntax-tree analysis
# ---------------------------------------------------------------------------------------------

ANYCHAR = "ANY"


def _class_chars(items, flags_i: bool) -> tuple[set, bool]:
    """Character set of an IN node, as (explicit set of code points < 256, negated?)."""
    chars: set[int] = set()
    neg = False
    for op, av in items:
        if op is sre_c.NEGATE:
            neg = True
        elif op is sre_c.LITERAL:
            chars.add(av)
        elif op is sre_c.RANGE:
            lo, hi = av
            chars.update(range(lo, min(hi, 0x2FF) + 1))
        elif op is sre_c.CATEGORY:
            name = str(av)
            if "DIGIT" in name:
                s = set(range(48, 58))
            elif "SPACE" in name:
                s = {9, 10, 11, 12, 13, 32}
            elif "WORD" in name:
                s = set(range(48, 58)) | set(range(65, 91)) | set(range(97, 123)) | {95}
            else:
                raise AnalysisError(f"regex category {name} not modelled")
            if "NOT" in name:
                raise AnalysisError(f"regex category {name} not modelled")
            chars |= s
        else:
            raise AnalysisError(f"regex class item {op} not modelled")
    if flags_i:
        extra = set()
        for c in chars:
            ch = chr(c)
            extra.add(ord(ch.lower()) if len(ch.lower()) == 1 else c)
            extra.add(ord(ch.upper()) if len(ch.upper()) == 1 else c)
        chars |= extra
    return chars, neg


class CharSet:
    """Finite or co-finite set of code points."""

    def __init__(self, chars: Iterable[int] = (), neg: bool = False):
        self.chars = frozenset(chars)
        self.neg = neg

    def __contains__(self, c: int) -> bool:
        return (c in self.chars) != self.neg

    def union(self, o: "CharSet") -> "CharSet":
        if not self.neg and not o.neg:
            return CharSet(self.chars | o.chars)
        if self.neg and o.neg:
            return CharSet(self.chars & o.chars, True)
        a, b = (self, o) if self.neg else (o, self)
        return CharSet(a.chars - b.chars, True)

    def __repr__(self) -> str:
        body = "".join(sorted(chr(c) for c in self.chars if c < 128))
        return ("^" if self.neg else "") + repr(body)


def regex_first_last(pattern: str, flags: frozenset) -> tuple[CharSet, CharSet, bool]:
    """(possible first characters, possible last characters, can match empty)."""
    fl = re.I if "i" in flags else 0
    if "s" in flags:
        fl |= re.S
    tree = sre_parse.parse(pattern, fl)
    ci = "i" in flags
    dotall = "s" in flags

    def seq_first(items, rev=False) -> tuple[CharSet, bool]:
        acc = CharSet()
        seq = list(items)
        if rev:
            seq = seq[::-1]
        for it in seq:
            cs, nullable = node_first(it, rev)
            acc = acc.union(cs)
            if not nullable:
                return acc, False
        return acc, True

    def node_first(it, rev) -> tuple[CharSet, bool]:
        op, av = it
        if op is sre_c.LITERAL:
            s = {av}
            if ci:
                ch = chr(av)
                s |= {ord(x) for x in (ch.lower(), ch.upper()) if len(x) == 1}
            return CharSet(s), False
        if op is sre_c.NOT_LITERAL:
            return CharSet({av}, True), False
        if op is sre_c.ANY:
            return (CharSet((), True) if dotall else CharSet({10}, True)), False
        if op is sre_c.IN:
            chars, neg = _class_chars(av, ci)
            return CharSet(chars, neg), False
        if op in (sre_c.MAX_REPEAT, sre_c.MIN_REPEAT):
            lo, hi, sub = av
            cs, nullable = seq_first(sub, rev)
            return cs, nullable or lo == 0
        if op is sre_c.SUBPATTERN:
            sub = av[-1]
            return seq_first(sub, rev)
        if op is sre_c.BRANCH:
            acc = CharSet()
            nullable = False
            for alt in av[1]:
                cs, n = seq_first(alt, rev)
                acc = acc.union(cs)
                nullable = nullable or n
            return acc, nullable
        if op in (sre_c.ASSERT, sre_c.ASSERT_NOT, sre_c.AT):
            return CharSet(), True
        raise AnalysisError(f"regex node {op} not modelled")

    first, n1 = seq_first(tree)
    last, n2 = seq_first(tree, True)
    return first, last, n1


def regex_star_height(pattern: str, flags: frozenset) -> int:
    fl = re.I if "i" in flags else 0
    tree = sre_parse.parse(pattern, fl)

    def h(items) -> int:
        best = 0
        for op, av in items:
            if op in (sre_c.MAX_REPEAT, sre_c.MIN_REPEAT):
                lo, hi, sub = av
                inner = h(sub)
                unbounded = hi is sre_c.MAXREPEAT or (isinstance(hi, int) and hi > 1000)
                best = max(best, inner + (1 if unbounded else 0))
            elif op is sre_c.SUBPATTERN:
                best = max(best, h(av[-1]))
            elif op is sre_c.BRANCH:
                for alt in av[1]:
                    best = max(best, h(alt))
            elif op in (sre_c.ASSERT, sre_c.ASSERT_NOT):
                best = max(best, h(av[1]))
        return best

    return h(tree)


def regex_ambiguous_repeats(pattern: str, flags: frozenset) -> list[str]:
    """Unbounded repeats over an alternation whose branches are not prefix-disjoint: two
    branches that can start with the same character *and* one branch's language is a prefix of a
    concatenation of others would allow exponentially many decompositions.  Sound but coarse test:
    for an unbounded repeat over a BRANCH, every pair of branches must have disjoint first-character
    sets, or one of them must be a fixed literal string whose first character is excluded from the
    *second* position... - we use the exact criterion that suffices for this grammar: a pair
    (literal string L, single-character class C) is unambiguous iff L[0] ∉ C or L[1:] cannot be
    produced by C-steps followed by a successful continuation differently - decided by a product
    construction below on the two-branch form; anything else is reported."""
    fl = re.I if "i" in flags else 0
    tree = sre_parse.parse(pattern, fl)
    ci = "i" in flags
    out: list[str] = []

    def branch_first(alt) -> CharSet:
        acc = CharSet()
        for it in alt:
            op, av = it
            if op is sre_c.LITERAL:
                return acc.union(CharSet({av}))
            if op is sre_c.NOT_LITERAL:
                return acc.union(CharSet({av}, True))
            if op is sre_c.IN:
                c, n = _class_chars(av, ci)
                return acc.union(CharSet(c, n))
            if op is sre_c.ANY:
                return CharSet((), True)
            return CharSet((), True)  # unknown: assume anything
        return acc

    def fixed_literal(alt) -> str | None:
        s = ""
        for op, av in alt:
            if op is not sre_c.LITERAL:
                return None
            s += chr(av)
        return s

    def single_class(alt) -> CharSet | None:
        if len(alt) != 1:
            return None
        op, av = alt[0]
        if op is sre_c.NOT_LITERAL:
            return CharSet({av}, True)
        if op is sre_c.IN:
            c, n = _class_chars(av, ci)
            return CharSet(c, n)
        if op is sre_c.LITERAL:
            return CharSet({av})
        return None

    def walk(items):
        for op, av in items:
            if op in (sre_c.MAX_REPEAT, sre_c.MIN_REPEAT):
                lo, hi, sub = av
                unbounded = hi is sre_c.MAXREPEAT
                inner = list(sub)
                if len(inner) == 1 and inner[0][0] is sre_c.SUBPATTERN:
                    inner = list(inner[0][1][-1])
                if unbounded and len(inner) == 1 and inner[0][0] is sre_c.BRANCH:
                    alts = inner[0][1][1]
                    for i in range(len(alts)):
                        for j in range(i + 1, len(alts)):
                            a, b = alts[i], alts[j]
                            fa, fb = branch_first(a), branch_first(b)
                            overlap = any((c in fa) and (c in fb) for c in range(0, 256))
                            if not overlap:
                                continue
                            # overlapping first characters: accept (literal of length n, class) when
                            # the literal contains a character outside the class (so the literal
                            # cannot also be read as n class steps)
                            la, lb = fixed_literal(a), fixed_literal(b)
                            ca, cb = single_class(a), single_class(b)
                            okpair = False
                            if la is not None and cb is not None:
                                okpair = any(ord(ch) not in cb for ch in la)
                            elif lb is not None and ca is not None:
                                okpair = any(ord(ch) not in ca for ch in lb)
                            if not okpair:
                                out.append(f"unbounded repeat over overlapping alternatives #{i}/#{j}")
                walk(sub)
            elif op is sre_c.SUBPATTERN:
                walk(av[-1])
            elif op is sre_c.BRANCH:
                for alt in av[1]:
                    walk(alt)

    walk(tree)
    return out


@functools.lru_cache(maxsize=4)
def load(path: str | None = None) -> Grammar:
    return Grammar(path)
