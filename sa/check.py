"""python -m sa.check <ID> [--tier quick|thorough] [--replay FILE]

Exit 0: every instance ok or listed in known_findings.json.  Exit 1: VIOLATION line(s).
Exit 2: ANALYSIS-ERROR (anchor vanished, floor not met, unsupported construct).
"""

from __future__ import annotations

import argparse
import importlib
import json
import os
import sys

from . import core


def main(argv=None) -> int:
    ap = argparse.ArgumentParser()
    ap.add_argument("prop")
    ap.add_argument("--tier", default=os.environ.get("VERIF_TIER") or "quick", choices=["quick", "thorough"])
    ap.add_argument("--replay", default=None)
    args = ap.parse_args(argv)
    prop = args.prop.upper()
    try:
        mod = importlib.import_module(f"sa.props.{prop.lower()}")
    except ModuleNotFoundError:
        print(f"ANALYSIS-ERROR property={prop} no checker module")
        return 2
    except BaseException as ex:  # a broken checker must never look like a violation (exit 1)
        print(f"ANALYSIS-ERROR property={prop} checker module does not load: {type(ex).__name__}: {ex}")
        return 2
    if args.replay:
        with open(args.replay, encoding="utf-8") as f:
            rp = json.load(f)
        print(f"replaying {rp.get('key')} (the whole property is re-evaluated on the current tree; the instance is then looked up)")
        rc = core.run_property(prop, args.tier, mod.run, getattr(mod, "META", {}))
        return rc
    return core.run_property(prop, args.tier, mod.run, getattr(mod, "META", {}))


if __name__ == "__main__":
    try:
        rc_ = main()
    except SystemExit:
        raise
    except BaseException as ex_:  # last resort: a traceback would exit 1 like a violation
        print(f"ANALYSIS-ERROR internal error: {type(ex_).__name__}: {ex_}")
        rc_ = 2
    sys.exit(rc_)
