"""python -m sa.check <ID> [--tier quick|thorough] [--replay FILE]

Exit 0: every instance ok or listed in known_findings.json.  Exit 1: VIOLATION line(s).
Exit 2: ANALYSIS-ERROR (anchor vanished, floor not met, unsupported construct).
"""

from __future__ import annotations

import argparse
import importlib
import json
import os
import sys

from . import core


def main(argv=None) -> int:
    ap = argparse.ArgumentParser()
    ap.add_argument("prop")
    ap.add_argument("--tier", default=os.environ.get("VERIF_TIER") or "quick", choices=["quick", "thorough"])
    ap.add_argument("--replay", default=None)
    args = ap.parse_args(argv)
    prop = args.prop.upper()
    try:
        mod = importlib.import_module(f"sa.props.{prop.lower()}")
    except ModuleNotFoundError:
        print(f"ANALYSIS-ERROR property={prop} no checker module")
        return 2
    if args.replay:
        with open(args.replay, encoding="utf-8") as f:
            rp = json.load(f)
        print(f"replaying {rp.get('key')} (the whole property is re-evaluated on the current tree; the instance is then looked up)")
        rc = core.run_property(prop, args.tier, mod.run, getattr(mod, "META", {}))
        return rc
    return core.run_property(prop, args.tier, mod.run, getattr(mod, "META", {}))


if __name__ == "__main__":
    sys.exit(main())
