"""Static analysis of geographika/mappyfile (see /verif/DESIGN.md).

Nothing in this package imports ``mappyfile`` or parses / prints / validates a Mapfile.
Every verdict is computed from the text of ``$VERIF_REPO/mappyfile`` (default ``/repo``).
"""
