"""E5 - schema facts, read from mappyfile/schemas/*.json with the stdlib json module.

``$ref`` is resolved by file name inside the schemas folder, the way the package resolves it
(jsonref: siblings of ``$ref`` are dropped, one shared object per referenced file within a load).
"""

from __future__ import annotations

import functools
import json
import os
import re
from dataclasses import dataclass, field
from typing import Any, Iterable, Iterator

from .core import AnalysisError, pkg_dir

HIDDEN = re.compile(r"^__.*__$")


def is_hidden(key: str) -> bool:
    return key.startswith("__") and key.endswith("__")


@dataclass
class Alt:
    """One leaf alternative of a keyword slot."""

    cls: str  # ENUM | STR | NUM | INT | BOOL | LIST | OBJECT | ANY
    node: dict
    words: tuple = ()  # ENUM
    nonstring: tuple = ()  # ENUM members that are not strings (debug: 0..5)
    sub: str = ""  # STR: PLAIN | BIND | EXPR | REGEX | HEX | HEXQ | OTHERPATTERN
    items: Any = None  # LIST: Alt list of the item schema (or list of Alt lists for tuple form)
    min_items: int | None = None
    max_items: int | None = None
    obj_type: str = ""  # OBJECT: the __type__ enum word, '' if untyped
    tuple_items: Any = None  # LIST in tuple form: list (per position) of Alt lists
    via: tuple = ()  # how it was reached: ('oneOf', 1, '$ref:color.json', ...)
    annotated: dict | None = None

    def tag(self) -> str:
        if self.cls == "ENUM":
            return "ENUM"
        if self.cls == "STR":
            return f"STR_{self.sub}"
        if self.cls == "LIST":
            inner = "|".join(sorted({a.tag() for a in (self.items or [])})) or "?"
            rng = f"{self.min_items if self.min_items is not None else 0}..{self.max_items if self.max_items is not None else '*'}"
            return f"LIST[{inner}]{{{rng}}}"
        if self.cls == "OBJECT":
            return f"OBJECT({self.obj_type})"
        return self.cls


PATTERN_CLASSES = (
    ("BIND", lambda p: p.startswith("^\\[") and p.endswith("\\]$")),
    ("EXPR", lambda p: p.startswith("^\\(") and p.endswith("\\)$")),
    ("REGEX", lambda p: p.startswith("^/") and p.endswith("/$")),
    ("HEX", lambda p: p.startswith("^#")),
    ("HEXQ", lambda p: p.startswith("^'#") or p.startswith('^"#')),
)


class Schemas:
    def __init__(self, folder: str | None = None):
        self.folder = folder or os.path.join(pkg_dir(), "schemas")
        if not os.path.isdir(self.folder):
            raise AnalysisError("anchor vanished: mappyfile/schemas")
        self.raw: dict[str, Any] = {}
        for fn in sorted(os.listdir(self.folder)):
            if fn.endswith(".json"):
                with open(os.path.join(self.folder, fn), encoding="utf-8") as f:
                    try:
                        self.raw[fn] = json.load(f)
                    except ValueError as ex:
                        raise AnalysisError(f"schema {fn} is not JSON: {ex}") from ex
        self._expanded: dict[str, Any] = {}
        self.type_files: dict[str, str] = {}  # type name -> file
        for fn, doc in self.raw.items():
            if isinstance(doc, dict) and isinstance(doc.get("properties"), dict):
                t = doc["properties"].get("__type__")
                if isinstance(t, dict) and isinstance(t.get("enum"), list) and t["enum"]:
                    for w in t["enum"]:
                        self.type_files[w] = fn
                elif doc["properties"]:
                    # symbolset.json: an object schema with properties but no __type__ enum
                    self.type_files[fn[:-5]] = fn

    # -- $ref ------------------------------------------------------------------------------------

    def refs(self) -> Iterator[tuple[str, str, str]]:
        """(file, json path, ref target) for every $ref in every file."""

        def walk(n, path):
            if isinstance(n, dict):
                if "$ref" in n:
                    yield path, n["$ref"]
                for k, v in n.items():
                    yield from walk(v, f"{path}/{k}")
            elif isinstance(n, list):
                for i, v in enumerate(n):
                    yield from walk(v, f"{path}/{i}")

        for fn, doc in self.raw.items():
            for path, ref in walk(doc, ""):
                yield fn, path, ref

    def expanded(self, fn: str) -> Any:
        """The document with every ``$ref`` node replaced by the (shared) referenced document."""
        if fn in self._expanded:
            return self._expanded[fn]
        if fn not in self.raw:
            raise AnalysisError(f"$ref target {fn} does not exist in the schemas folder")
        doc = self.raw[fn]
        if isinstance(doc, dict):
            out: Any = {}
            self._expanded[fn] = out
            for k, v in doc.items():
                out[k] = self._deref(v)
        else:
            out = self._deref(doc)
            self._expanded[fn] = out
        return out

    def _deref(self, n: Any) -> Any:
        if isinstance(n, dict):
            if "$ref" in n and isinstance(n["$ref"], str):
                return self.expanded(n["$ref"])
            return {k: self._deref(v) for k, v in n.items()}
        if isinstance(n, list):
            return [self._deref(v) for v in n]
        return n

    def expanded_type(self, type_name: str) -> dict:
        if type_name not in self.type_files:
            raise AnalysisError(f"no schema file declares __type__ {type_name}")
        return self.expanded(self.type_files[type_name])

    # -- slots -----------------------------------------------------------------------------------

    def types(self) -> list[str]:
        return sorted(self.type_files)

    def slots(self, type_name: str, include_hidden: bool = False) -> dict[str, Any]:
        props = self.expanded_type(type_name)["properties"]
        return {k: v for k, v in props.items() if include_hidden or not is_hidden(k)}

    def raw_slots(self, type_name: str) -> dict[str, Any]:
        props = self.raw[self.type_files[type_name]]["properties"]
        return {k: v for k, v in props.items() if not is_hidden(k)}

    def alternatives(self, node: Any, via: tuple = (), _depth: int = 0) -> list[Alt]:
        """Flatten oneOf / anyOf / single-element allOf into leaf alternatives."""
        if _depth > 12:
            raise AnalysisError("schema alternative nesting too deep")
        if not isinstance(node, dict):
            raise AnalysisError(f"schema node is not an object: {node!r}")
        ann = node.get("metadata") if isinstance(node.get("metadata"), dict) else None
        out: list[Alt] = []
        for comb in ("oneOf", "anyOf"):
            if comb in node:
                for i, sub in enumerate(node[comb]):
                    out += self.alternatives(sub, via + (comb, i), _depth + 1)
                return out
        if "allOf" in node:
            subs = node["allOf"]
            if len(subs) != 1:
                raise AnalysisError("allOf with several members is not modelled")
            return self.alternatives(subs[0], via + ("allOf", 0), _depth + 1)
        if "enum" in node:
            words = tuple(w for w in node["enum"] if isinstance(w, str))
            non = tuple(w for w in node["enum"] if not isinstance(w, str))
            return [Alt("ENUM", node, words=words, nonstring=non, via=via, annotated=ann)]
        t = node.get("type")
        if t == "string":
            p = node.get("pattern")
            sub = "PLAIN"
            if p:
                sub = "OTHERPATTERN"
                for name, test in PATTERN_CLASSES:
                    if test(p):
                        sub = name
                        break
            return [Alt("STR", node, sub=sub, via=via, annotated=ann)]
        if t in ("number",):
            return [Alt("NUM", node, via=via, annotated=ann)]
        if t == "integer":
            return [Alt("INT", node, via=via, annotated=ann)]
        if t == "boolean":
            return [Alt("BOOL", node, via=via, annotated=ann)]
        if t == "array":
            items = node.get("items", {})
            if isinstance(items, dict):
                ialts = self.alternatives(items, via + ("items",), _depth + 1) if items else []
                tup = None
            else:
                tup = [self.alternatives(it, via + ("items", i), _depth + 1) for i, it in enumerate(items)]
                ialts = [a for pos in tup for a in pos]
            return [Alt("LIST", node, items=ialts, tuple_items=tup, min_items=node.get("minItems"), max_items=node.get("maxItems"), via=via, annotated=ann)]
        if t == "object" or "properties" in node:
            ty = ""
            tp = node.get("properties", {}).get("__type__")
            if isinstance(tp, dict) and tp.get("enum"):
                ty = tp["enum"][0]
            return [Alt("OBJECT", node, obj_type=ty, via=via, annotated=ann)]
        if "pattern" in node and t is None:
            # color.json's hex alternative puts "type" after "pattern": handled by t == "string";
            # a pattern without type constrains strings only
            return [Alt("STR", node, sub="OTHERPATTERN", via=via, annotated=ann)]
        if not node or set(node) <= {"metadata", "description", "default", "title"}:
            return [Alt("ANY", node, via=via, annotated=ann)]
        raise AnalysisError(f"schema node shape not modelled: keys {sorted(node)}")

    def all_slots(self) -> Iterator[tuple[str, str, Any]]:
        for t in self.types():
            for k, v in self.slots(t).items():
                yield t, k, v

    # -- annotations -----------------------------------------------------------------------------

    def annotations_raw(self) -> list[tuple[str, str, dict]]:
        """(file, json path inside the file, metadata) for every node carrying min/maxVersion."""
        out = []

        def walk(n, path):
            if isinstance(n, dict):
                md = n.get("metadata")
                if isinstance(md, dict) and ("minVersion" in md or "maxVersion" in md):
                    out.append((path, md))
                for k, v in n.items():
                    if k == "metadata":
                        continue
                    walk(v, path + (k,))
            elif isinstance(n, list):
                for i, v in enumerate(n):
                    walk(v, path + (i,))

        res = []
        for fn, doc in self.raw.items():
            out.clear()
            walk(doc, ())
            for path, md in out:
                res.append((fn, path, dict(md)))
        return res

    def defaults_raw(self) -> list[tuple[str, tuple, Any, dict]]:
        res = []

        def walk(n, path, fn):
            if isinstance(n, dict):
                if "default" in n and path and path[-1] != "properties":
                    res.append((fn, path, n["default"], n))
                for k, v in n.items():
                    walk(v, path + (k,), fn)
            elif isinstance(n, list):
                for i, v in enumerate(n):
                    walk(v, path + (i,), fn)

        for fn, doc in self.raw.items():
            walk(doc, (), fn)
        return res


@functools.lru_cache(maxsize=4)
def load(folder: str | None = None) -> Schemas:
    return Schemas(folder)
