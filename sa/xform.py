"""Abstract transformer: evaluates the callbacks of MapfileTransformer bottom-up over the *shaped
grammar* (E4 tree shapes) with PAI.  Tokens carry abstract text per terminal kind; the result of a
node label is a small set of representative abstract values, one per distinct child-class
sequence.  No Mapfile text is involved: children are drawn from the grammar's shape language."""

from __future__ import annotations

import copy as _copy
import itertools
from dataclasses import dataclass, field, replace as _dc_replace
from typing import Any, Callable

from . import absval as av
from . import pai
from .absval import SStr, SNum, SObj, SBool, SOpaque, HDict, Atom, CC
from .core import AnalysisError
from .grammar import Star, seq_str
from . import models

WORDCH = CC.of("abcdefghijklmnopqrstuvwxyzABCDEFGHIJKLMNOPQRSTUVWXYZ0123456789_-:")
NODELIM = frozenset("\"'`()[]{}/#\\% \t\n\r,")
DIGITS = CC.of("0123456789")

EXPR_LABELS = {"comparison", "and_test", "or_test", "not_expression", "expression", "add", "sub", "mul", "div", "power", "neg", "func_call", "func_params", "list", "compare_op"}


def token_value(G, kind: str, n: int = 0) -> Any:
    """Abstract text of a token of terminal ``kind`` (``n`` distinguishes several tokens)."""
    t = G.terms.get(kind)
    nm = f"{kind.lower()}{n}"
    if kind == "SIGNED_INT":
        return SStr.atom(nm, first=CC.of("0123456789+-"), last=DIGITS, excludes=NODELIM | frozenset("."))
    if kind == "SIGNED_FLOAT":
        return SStr.atom(nm, first=CC.of("0123456789+-."), last=CC.of("0123456789."), excludes=NODELIM)
    if kind in ("UNQUOTED_STRING", "UNQUOTED_STRING_VALUE"):
        return SStr.atom(nm, first=WORDCH, last=WORDCH, excludes=NODELIM, free=True)
    if kind == "UNQUOTED_STRING_SPACE":
        return SStr.atom(nm, excludes=frozenset("\"`()[]{}/#\\%,\n"), free=True)
    if kind in ("DOUBLE_QUOTED_STRING", "SINGLE_QUOTED_STRING"):
        q = '"' if kind.startswith("DOUBLE") else "'"
        return SStr([q, Atom(nm + "_body", nonempty=False, free=True), q])
    if kind == "ESCAPED_STRING":
        return SStr(["`", Atom(nm + "_body", nonempty=False, excludes=frozenset("`"), free=True), "`"])
    if kind in ("DOUBLE_QUOTED_HEXCOLOR", "SINGLE_QUOTED_HEXCOLOR"):
        q = '"' if kind.startswith("DOUBLE") else "'"
        return SStr([q + "#", Atom(nm + "_hex", first=CC.of("0123456789abcdefABCDEF"), last=CC.of("0123456789abcdefABCDEF"), excludes=NODELIM), q])
    if kind == "PATH":
        return SStr.atom(nm, first=CC.of("abcdefghijklmnopqrstuvwxyzABCDEFGHIJKLMNOPQRSTUVWXYZ0123456789_./"), last=CC.of("abcdefghijklmnopqrstuvwxyzABCDEFGHIJKLMNOPQRSTUVWXYZ0123456789_./-"), excludes=frozenset("\"'`()[]{}#\\% \t\n\r,"), free=True)
    if kind == "REGEXP1":
        return SStr(["/", Atom(nm + "_re", nonempty=False, excludes=frozenset("\n"), free=True), "/"])
    if kind == "REGEXP2":
        return SStr(["\\\\", Atom(nm + "_re", nonempty=False, excludes=frozenset("\n"), free=True), "\\\\"])
    if kind == "RUNTIME_VAR":
        return SStr(["%", Atom(nm + "_var", nonempty=False, excludes=frozenset("%\n"), free=True), "%"])
    if t is not None and t.kind == "str":
        if any(c.isalpha() for c in t.value):
            return SStr.atom(f"kw_{t.value.lower()}", lower_is=t.value.lower())
        return t.value
    raise AnalysisError(f"no abstract text for terminal {kind}")


def value_class(v: Any) -> str:
    if isinstance(v, SObj) and v.pytype == "Token":
        val = v.attrs.get("value")
        if isinstance(val, bool):
            return "Token:bool"
        if isinstance(val, SNum) or isinstance(val, (int, float)):
            return "Token:float" if (isinstance(val, SNum) and val.is_float) or isinstance(val, float) else "Token:int"
        if isinstance(val, SStr) and len(val.pieces) == 1 and isinstance(val.pieces[0], Atom) and val.pieces[0].lower_is and v.attrs.get("type", "").isupper() and not v.attrs.get("type", "").startswith(("UNQUOTED", "DOUBLE", "SINGLE")):
            return "Token:kw:" + val.pieces[0].lower_is
        if isinstance(val, (str, SStr)):
            return "Token:str"
        if isinstance(val, list):
            return "Token:list"
        if isinstance(val, SOpaque):
            return "Token:" + val.pytype
        return "Token:?"
    if isinstance(v, tuple):
        return "tuple(" + ",".join(value_class(x) for x in v) + ")"
    if isinstance(v, list):
        return "list(" + ",".join(value_class(x) for x in v) + ")" if len(v) <= 6 else "list(...)"
    if isinstance(v, HDict):
        return "dict:composite" if "__type__" in v else "dict:attr"
    if isinstance(v, (str, SStr)):
        return "str"
    return type(v).__name__


class CallbackFailed(AnalysisError):
    def __init__(self, label, outs):
        self.label = label
        self.outs = outs
        super().__init__(f"callback {label} does not return on a single path: {[(o.kind, o.exc, o.value if o.kind == 'raise' else '', o.assumptions) for o in outs][:3]}")


@dataclass
class Res:
    label: str
    shape: tuple
    children_classes: tuple
    kind: str  # return | raise
    value: Any
    exc: str | None
    assumptions: list
    make: Callable[[], Any] | None = None  # rebuilds a fresh copy of the value

    _cls: str | None = None

    @property
    def cls(self) -> str:
        if self._cls is None:
            self._cls = value_class(self.value) if self.kind == "return" else f"raise:{self.exc}"
        return self._cls


class AbstractTransformer:
    def __init__(self, env: models.Env, include_position: bool = False, include_comments: bool = False, rounds: int = 2, reps: int = 3, deep: bool = False):
        self.deep = deep
        self.env = env
        self.G = env.G
        self.pos = include_position
        self.com = include_comments
        self.rounds = rounds
        self.reps = reps
        self.shapes = self.G.node_shapes()
        self.results: dict[str, list[Res]] = {}
        self.all_evals: list[Res] = []
        self.counter = 0
        self.I = env.interp(stubs=self.stubs(), allow_fork=True, max_paths=256)
        self.labels = sorted(self.G.reachable_labels())

    # -- interpreter stubs ------------------------------------------------------------------------

    def stubs(self) -> dict:
        def hook_int(fr, v, node):
            if isinstance(v, SStr):
                return SNum.sym(f"int({v.describe()})", None, None)
            raise AnalysisError(f"int() of {v!r}")

        def hook_float(fr, v, node):
            if isinstance(v, SStr):
                return SNum.sym(f"float({v.describe()})", None, None, True)
            raise AnalysisError(f"float() of {v!r}")

        def hook_str(fr, v):
            # str() of a tuple / list of tokens inside expression builders: opaque text
            return SStr.atom(f"str({value_class(v)})", free=True)

        def new_borrow_pos(fr, self_obj, args, kwargs):
            type_, value, borrow = args[:3]
            t = SObj("Token", dict(borrow.attrs), label=f"Token:{type_}")
            t.attrs.update({"type": type_, "value": value, "text": value})
            return t

        return {"hook:int": hook_int, "hook:float": hook_float, "hook:str": hook_str, "ext:lark.lexer.Token.new_borrow_pos": new_borrow_pos, "global:transformer.lark_cython": None}

    # -- building children -------------------------------------------------------------------------

    def fresh_token(self, kind: str) -> SObj:
        self.counter += 1
        n = self.counter
        return models.token(kind, token_value(self.G, kind, n), line=SNum.sym(f"line{n}", 1, None), column=SNum.sym(f"col{n}", 1, None))

    def fresh_copy(self, v: Any) -> Any:
        """Deep copy in which every opaque text atom gets a fresh name (two copies of one
        representative stand for two *different* texts of the same class)."""
        self.counter += 1
        suffix = f"~{self.counter}"
        memo: dict[int, Any] = {}

        def ren_str(s: SStr) -> SStr:
            out = []
            for p in s.pieces:
                if isinstance(p, Atom) and not p.lower_is:
                    out.append(_dc_replace(p, name=p.name.split("~")[0] + suffix))
                else:
                    out.append(p)
            return SStr(out)

        def cp(x: Any) -> Any:
            if isinstance(x, SStr):
                return ren_str(x)
            if x is None or isinstance(x, (str, int, float, bool, SNum, SBool, SOpaque, frozenset)):
                return x
            if id(x) in memo:
                return memo[id(x)]
            if isinstance(x, SObj):
                n = SObj(x.pytype, {}, label=x.label, elems=None, methods=x.methods)
                memo[id(x)] = n
                n.attrs = {k: cp(val) for k, val in x.attrs.items()}
                if x.elems is not None:
                    n.elems = [cp(e) for e in x.elems]
                return n
            if isinstance(x, HDict):
                d = HDict()
                memo[id(x)] = d
                d.pytype, d.ci, d.factory = x.pytype, x.ci, x.factory  # type: ignore[misc]
                for k, val in x.items():
                    d[cp(k) if isinstance(k, SStr) else k] = cp(val)
                return d
            if isinstance(x, list):
                l: list = []
                memo[id(x)] = l
                l.extend(cp(e) for e in x)
                return l
            if isinstance(x, tuple):
                return tuple(cp(e) for e in x)
            if isinstance(x, dict):
                return {k: cp(val) for k, val in x.items()}
            return _copy.deepcopy(x)

        return cp(v)

    def instance(self) -> pai.Inst:
        return self.I.instantiate("transformer.MapfileTransformer", [], {"include_position": self.pos, "include_comments": self.com})

    def callback_qual(self, label: str) -> str | None:
        q = f"transformer.MapfileTransformer.{label}"
        return q if self.env.repo.has_func(q) else None

    def eval_callback(self, label: str, make_children: Callable[[], list]) -> list[pai.Outcome]:
        q = self.callback_qual(label)
        if q is None:
            raise AnalysisError(f"no callback for {label}")

        def make():
            return self.instance(), [make_children()], {}

        return self.I.explore(q, make, observe=lambda made, out: made)

    def call1(self, label: str, make_children: Callable[[], list]) -> Any:
        """Result of a callback that must return on exactly one path."""
        outs = self.eval_callback(label, make_children)
        if len(outs) != 1 or outs[0].kind != "return":
            raise CallbackFailed(label, outs)
        return outs[0].value

    # -- bottom-up --------------------------------------------------------------------------------

    def unroll(self, shape: tuple, label: str) -> list[tuple]:
        """Concrete child-kind sequences of a shape: each Star taken 0, 1 and 2 times, with up to
        ``reps`` kinds per star position class."""
        seqs = [()]
        for el in shape:
            if isinstance(el, Star):
                kinds = self._dedupe_kinds(sorted(el.kinds))
                # classes of kinds are resolved later; here take each kind once plus a pair
                opts: list[tuple] = [()]
                for k in kinds:
                    opts.append((k,))
                if kinds:
                    opts.append((kinds[0], kinds[-1]))
                    opts.append((kinds[0], kinds[0]))
                    if self.deep:
                        # thorough: every ordered pair of kinds and a triple
                        for k1 in kinds:
                            for k2 in kinds:
                                opts.append((k1, k2))
                        opts.append((kinds[0], kinds[-1], kinds[0]))
                        opts = list(dict.fromkeys(opts))
                seqs = [s + o for s in seqs for o in opts]
            else:
                seqs = [s + (el,) for s in seqs]
            if len(seqs) > 4000:
                seqs = seqs[:4000]
        return seqs

    def _kind_sig(self, kind: str) -> tuple:
        if not kind.startswith("@"):
            return (kind,)
        return tuple(sorted({r.cls for r in self.results.get(kind[1:], []) if r.kind == "return"})) or (kind,)

    def _dedupe_kinds(self, kinds: list[str]) -> list[str]:
        seen = set()
        out = []
        for k in kinds:
            sig = self._kind_sig(k)
            if sig in seen:
                continue
            seen.add(sig)
            out.append(k)
        return out

    def child_options(self, kind: str) -> list[Callable[[], Any]]:
        if not kind.startswith("@"):
            return [(kind, lambda k=kind: self.fresh_token(k))]
        lab = kind[1:]
        res = [r for r in self.results.get(lab, []) if r.kind == "return" and r.make is not None]
        # one representative per value class
        seen = set()
        out = []
        for r in res:
            if r.cls in seen:
                continue
            seen.add(r.cls)
            out.append((r.cls, r.make))
            if len(out) >= max(self.reps, 20):
                break
        return out

    def run(self, labels: list[str] | None = None) -> dict[str, list[Res]]:
        labels = labels or self.labels
        order = self._order(labels)
        for rnd in range(self.rounds):
            for lab in order:
                if self.callback_qual(lab) is None:
                    continue
                self._eval_label(lab, rnd)
        return self.results

    def _order(self, labels: list[str]) -> list[str]:
        deps = {}
        for lab in labels:
            d = set()
            for s in self.shapes.get(lab, ()):
                for k in s:
                    for kk in k.kinds if isinstance(k, Star) else (k,):
                        if kk.startswith("@"):
                            d.add(kk[1:])
            deps[lab] = d
        done: list[str] = []
        remaining = set(labels)
        while remaining:
            ready = sorted(l for l in remaining if not (deps[l] & remaining - {l}))
            if not ready:
                ready = [sorted(remaining, key=lambda l: (len(deps[l] & remaining), l))[0]]
            for l in ready:
                done.append(l)
                remaining.discard(l)
        return done

    def _eval_label(self, lab: str, rnd: int) -> None:
        seen_cls = {(r.children_classes) for r in self.results.get(lab, [])}
        budget = 6000 if self.deep else 1500
        for shape in sorted(self.shapes.get(lab, ()), key=seq_str):
            for kinds in self.unroll(shape, lab):
                optlists = [self.child_options(k) for k in kinds]
                if any(not o for o in optlists):
                    continue  # a child label has no result yet (next round)
                # expression-level operands: only token-valued children are in scope
                combos = itertools.islice(itertools.product(*optlists), 3000 if self.deep else 600)
                for combo in combos:
                    def make_children(combo=combo):
                        return [mk() for _, mk in combo]

                    classes = tuple(c for c, _ in combo)
                    if lab in EXPR_LABELS and any(c.startswith(("tuple", "list", "dict")) for c in classes):
                        continue
                    if classes in seen_cls:
                        continue
                    seen_cls.add(classes)
                    budget -= 1
                    if budget < 0:
                        return
                    outs = self.eval_callback(lab, make_children)
                    for i, o in enumerate(outs):
                        r = Res(lab, shape, classes, o.kind, o.value, o.exc, o.assumptions)
                        if o.kind == "return":
                            r.make = (lambda v=o.value: self.fresh_copy(v))
                        self.results.setdefault(lab, []).append(r)
                        self.all_evals.append(r)

    def _remaker(self, lab: str, make_children, idx: int, n: int, assumptions: list):
        def make():
            outs = self.eval_callback(lab, make_children)
            if len(outs) != n:
                raise AnalysisError(f"non-deterministic path count re-evaluating {lab}")
            return outs[idx].value

        return make
