"""Progress check for ``while`` loops (a necessary condition of termination).

For ``while TEST:`` the *watched* places are the local names and attribute chains TEST reads.  A path from
the loop head through the body back to the loop head (end of body or ``continue``) on which nothing watched
can have changed leaves TEST exactly as it was: if the path is taken once it is taken forever.  Such a path
is reported.  What counts as a possible change (so that the rule stays silent where it cannot know):

* assignment / augmented assignment / ``del`` / loop or with target binding a watched name, or storing to an
  attribute or subscript whose base is a watched name or chain;
* any method call on a watched name or chain, and any call that receives one as an argument;
* when TEST itself contains a call on an object (``while not q.empty()``), any call on that object or with
  that object as argument; a TEST that calls a free function (``while more():``) is not judged at all;
* a nested loop, ``try`` handler or ``with`` body is walked like straight-line code where it must run and
  counted as possibly making progress where it may run (so nothing is reported through it unless both ways
  are stuck).

``while True`` and other tests that read no variable are not judged.
"""

from __future__ import annotations

import ast

from .core import norm
from .pyfacts import dotted


def _chains(test: ast.expr) -> tuple[set, bool]:
    """(watched dotted chains, judged?)"""
    watched: set = set()
    judged = True
    for n in ast.walk(test):
        if isinstance(n, ast.Call):
            f = n.func
            if isinstance(f, ast.Name):
                if f.id not in ("len", "isinstance", "bool", "int", "str", "min", "max", "abs", "any", "all", "sorted", "list", "tuple", "set"):
                    judged = False  # a free function decides: unknown state
            elif isinstance(f, ast.Attribute):
                d = dotted(f.value)
                if d is None:
                    judged = False
                else:
                    watched.add(d)
        if isinstance(n, (ast.Name, ast.Attribute)) and isinstance(getattr(n, "ctx", None), ast.Load):
            d = dotted(n)
            if d and not (isinstance(n, ast.Name) and n.id in ("len", "isinstance", "int", "str", "True", "False", "None", "bool", "min", "max", "abs", "any", "all", "sorted", "list", "tuple", "set")):
                watched.add(d)
        if isinstance(n, (ast.Await, ast.Yield, ast.YieldFrom, ast.NamedExpr)):
            judged = False
    # drop chains that are only the function part of a call (``x.startswith``): keep their base
    bases = set()
    for d in watched:
        bases.add(d)
    return bases, judged and bool(watched)


def _touches(node: ast.AST, watched: set) -> bool:
    """May executing ``node`` (one simple statement or expression) change what a watched chain denotes?"""

    def related(d: str | None) -> bool:
        if d is None:
            return False
        return any(d == w or w.startswith(d + ".") or d.startswith(w + ".") for w in watched)

    for n in ast.walk(node):
        if isinstance(n, (ast.Name, ast.Attribute, ast.Subscript)) and isinstance(getattr(n, "ctx", None), (ast.Store, ast.Del)):
            base = n
            while isinstance(base, ast.Subscript):
                base = base.value
            if related(dotted(base)):
                return True
            if isinstance(n, ast.Attribute) and related(dotted(n.value)):
                return True
        if isinstance(n, ast.Call):
            f = n.func
            if isinstance(f, ast.Attribute):
                b = f.value
                while isinstance(b, ast.Subscript):
                    b = b.value
                if related(dotted(b)):
                    return True
            for a in list(n.args) + [k.value for k in n.keywords]:
                if isinstance(a, ast.Starred):
                    a = a.value
                if related(dotted(a)):
                    return True
        if isinstance(n, (ast.Yield, ast.YieldFrom, ast.Await)):
            return True  # control leaves the function: anything may happen
    return False


def stuck_paths(fn: ast.FunctionDef) -> list:
    """[(while node, node of the back edge, description)] for every loop with a back path that cannot have
    changed anything its test reads."""
    out: list = []
    for loop in ast.walk(fn):
        if not isinstance(loop, ast.While):
            continue
        watched, judged = _chains(loop.test)
        if not judged:
            continue
        back: list = []  # (node, progressed?)

        # states: set of booleans "something watched may have changed since the loop head"
        def block(stmts: list, states: set) -> set:
            for st in stmts:
                if not states:
                    return states
                states = stmt(st, states)
            return states

        def stmt(st: ast.stmt, states: set) -> set:
            if isinstance(st, (ast.Return, ast.Raise, ast.Break)):
                return set()
            if isinstance(st, ast.Continue):
                for s_ in states:
                    back.append((st, s_))
                return set()
            if isinstance(st, ast.If):
                t = _touches(st.test, watched)
                s2 = {True} if t else set(states)
                return block(st.body, set(s2)) | block(st.orelse, set(s2))
            if isinstance(st, (ast.For, ast.AsyncFor, ast.While)):
                head = ast.For if isinstance(st, (ast.For, ast.AsyncFor)) else ast.While
                t = _touches(st.iter if head is ast.For else st.test, watched) or (head is ast.For and _touches(st.target, watched))
                s2 = {True} if t else set(states)
                # the body may run any number of times: zero times leaves the state, otherwise its own effect;
                # continue / break inside belong to the inner loop
                inner = any(_touches(x, watched) for x in st.body)
                after = set(s2) | ({True} if inner else set())
                return block(st.orelse, after) if st.orelse else after
            if isinstance(st, (ast.With, ast.AsyncWith)):
                t = any(_touches(i.context_expr, watched) or (i.optional_vars is not None and _touches(i.optional_vars, watched)) for i in st.items)
                return block(st.body, {True} if t else set(states))
            if isinstance(st, ast.Try):
                a = block(st.body, set(states))
                may = any(_touches(x, watched) for x in st.body)
                hin = set(states) | ({True} if may else set())
                res = block(st.orelse, a) if st.orelse else a
                for h in st.handlers:
                    res = res | block(h.body, set(hin))
                if st.finalbody:
                    res = block(st.finalbody, res)
                return res
            if isinstance(st, (ast.FunctionDef, ast.AsyncFunctionDef, ast.ClassDef)):
                return states
            if isinstance(st, ast.Match):
                return {True}
            return {True} if _touches(st, watched) else states

        start = {True} if _touches(loop.test, watched) and any(isinstance(n, ast.Call) and isinstance(n.func, ast.Attribute) and n.func.attr in ("pop", "popleft", "get", "next", "read", "readline", "remove") for n in ast.walk(loop.test)) else {False}
        end = block(loop.body, set(start))
        for s_ in end:
            back.append((loop.body[-1], s_))
        for node, progressed in back:
            if not progressed:
                what = "continue" if isinstance(node, ast.Continue) else "the end of the loop body"
                out.append((loop, node, f"while {norm(loop.test)[:60]}: the path to {what} at line {node.lineno} changes nothing the test reads ({', '.join(sorted(watched))})"))
    # one report per (loop, back edge)
    seen, uniq = set(), []
    for l, n, d in out:
        if (id(l), id(n)) not in seen:
            seen.add((id(l), id(n)))
            uniq.append((l, n, d))
    return uniq


_SELF_CASES = [
    ("def f(lines):\n i = 0\n while i < len(lines):\n  l = lines[i]\n  if not l:\n   i += 1\n   continue\n  if bad(l):\n   continue\n  lines[i] = g(l)\n  i += 1\n", 1),
    ("def f(lines):\n i = 0\n while i < len(lines):\n  l = lines[i]\n  if not l:\n   i += 1\n   continue\n  lines[i] = g(l)\n  i += 1\n", 0),
    ("def f(s):\n while s:\n  x = s.pop()\n  if x.kids:\n   s.extend(x.kids)\n", 0),
    ("def f(fr):\n while fr.pos < len(fr.lines):\n  k = fr.pos\n  fr.pos += 1\n  if fr.lines[k]:\n   continue\n", 0),
    ("def f(p):\n while len(p) > 1 and isinstance(p[-1], int):\n  p.pop()\n", 0),
    ("def f(p, q):\n while len(p) > 1:\n  q.pop()\n", 1),
    ("def f(n):\n while True:\n  n += 1\n  if n > 3:\n   break\n", 0),
    ("def f(it):\n while more(it):\n  pass\n", 0),
]


def self_check() -> int:
    for src, want in _SELF_CASES:
        fn = ast.parse(src).body[0]
        got = len(stuck_paths(fn))  # type: ignore[arg-type]
        if got != want:
            raise AssertionError(f"termination: {got} stuck path(s) in {src!r}, expected {want}")
    return len(_SELF_CASES)
