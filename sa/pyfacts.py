"""E1 - Python facts: resolved call graph, guard facts (structured dominance), def-use helpers."""

from __future__ import annotations

import ast
from dataclasses import dataclass, field
from typing import Any, Iterable, Iterator

from .core import AnalysisError, Repo, PKG_NAME, norm, src_of


# ---------------------------------------------------------------------------------------------
# small AST helpers
# ---------------------------------------------------------------------------------------------


def dotted(node: ast.AST) -> str | None:
    """``a.b.c`` for Name/Attribute chains, else None."""
    parts = []
    while isinstance(node, ast.Attribute):
        parts.append(node.attr)
        node = node.value
    if isinstance(node, ast.Name):
        parts.append(node.id)
        return ".".join(reversed(parts))
    if isinstance(node, ast.Call) and isinstance(node.func, ast.Name) and node.func.id == "super" and not parts == []:
        return "super()." + ".".join(reversed(parts))
    return None


def names_in(node: ast.AST) -> set[str]:
    return {n.id for n in ast.walk(node) if isinstance(n, ast.Name)}


def parents(root: ast.AST) -> dict[ast.AST, ast.AST]:
    pm: dict[ast.AST, ast.AST] = {}
    for n in ast.walk(root):
        for c in ast.iter_child_nodes(n):
            pm[c] = n
    return pm


def calls_in(node: ast.AST) -> Iterator[ast.Call]:
    for n in ast.walk(node):
        if isinstance(n, ast.Call):
            yield n


def call_name(call: ast.Call) -> str:
    d = dotted(call.func)
    return d if d is not None else src_of(call.func)


def terminates(body: list[ast.stmt]) -> bool:
    """The block never falls through (ends in return / raise / continue / break on every path)."""
    if not body:
        return False
    last = body[-1]
    if isinstance(last, (ast.Return, ast.Raise, ast.Continue, ast.Break)):
        return True
    if isinstance(last, ast.If):
        return terminates(last.body) and terminates(last.orelse)
    if isinstance(last, ast.Expr) and isinstance(last.value, ast.Call):
        d = dotted(last.value.func)
        if d in ("sys.exit", "exit", "os._exit"):
            return True
    return False


# ---------------------------------------------------------------------------------------------
# guard facts: the conditions known to hold when control reaches a statement
# ---------------------------------------------------------------------------------------------


@dataclass
class Guard:
    test: ast.expr
    positive: bool  # the test evaluated truthy (True) / falsy (False) on every path to here

    def __str__(self) -> str:
        return ("" if self.positive else "not ") + norm(self.test)


def walk_guarded(fn: ast.FunctionDef) -> Iterator[tuple[ast.stmt, list[Guard]]]:
    """Every statement of ``fn`` (not descending into nested defs) with the guards that hold
    there: tests of enclosing ``if``/``while``/conditional expressions, and the negated tests of
    earlier sibling ``if``s whose body never falls through.  For structured code without
    ``goto`` this is exactly "the test dominates the statement"."""

    def block(body: list[ast.stmt], guards: list[Guard]) -> Iterator[tuple[ast.stmt, list[Guard]]]:
        guards = list(guards)
        for st in body:
            yield st, list(guards)
            if isinstance(st, ast.If):
                yield from block(st.body, guards + [Guard(st.test, True)])
                yield from block(st.orelse, guards + [Guard(st.test, False)])
                if terminates(st.body) and not terminates(st.orelse):
                    guards.append(Guard(st.test, False))
                elif st.orelse and terminates(st.orelse) and not terminates(st.body):
                    guards.append(Guard(st.test, True))
            elif isinstance(st, ast.While):
                yield from block(st.body, guards + [Guard(st.test, True)])
                yield from block(st.orelse, guards)
            elif isinstance(st, (ast.For, ast.AsyncFor)):
                yield from block(st.body, guards)
                yield from block(st.orelse, guards)
            elif isinstance(st, (ast.With, ast.AsyncWith)):
                yield from block(st.body, guards)
            elif isinstance(st, ast.Try):
                yield from block(st.body, guards)
                for h in st.handlers:
                    yield from block(h.body, guards)
                yield from block(st.orelse, guards)
                yield from block(st.finalbody, guards)
            elif isinstance(st, ast.Assert):
                guards.append(Guard(st.test, True))

    yield from block(fn.body, [])


def expr_guards(stmt: ast.stmt, target: ast.AST) -> list[Guard]:
    """Extra guards inside one statement: ``a and b`` (b evaluated only when a is truthy),
    ``a or b``, ``x if c else y``, comprehension ``if`` clauses."""
    out: list[Guard] = []

    def visit(node: ast.AST, acc: list[Guard]) -> bool:
        if node is target:
            out.extend(acc)
            return True
        if isinstance(node, ast.BoolOp):
            cur = list(acc)
            for v in node.values:
                if visit(v, cur):
                    return True
                cur = cur + [Guard(v, isinstance(node.op, ast.And))]
            return False
        if isinstance(node, ast.IfExp):
            if visit(node.test, acc):
                return True
            if visit(node.body, acc + [Guard(node.test, True)]):
                return True
            return visit(node.orelse, acc + [Guard(node.test, False)])
        if isinstance(node, (ast.ListComp, ast.SetComp, ast.GeneratorExp, ast.DictComp)):
            cur = list(acc)
            for gen in node.generators:
                if visit(gen.iter, cur):
                    return True
                for c in gen.ifs:
                    if visit(c, cur):
                        return True
                    cur = cur + [Guard(c, True)]
            elts = [node.key, node.value] if isinstance(node, ast.DictComp) else [node.elt]
            for e in elts:
                if visit(e, cur):
                    return True
            return False
        for c in ast.iter_child_nodes(node):
            if visit(c, acc):
                return True
        return False

    visit(stmt, [])
    return out


def guards_at(fn: ast.FunctionDef, target: ast.AST) -> list[Guard]:
    """All guards known to hold when ``target`` (any node inside fn) is evaluated."""
    for st, gs in walk_guarded(fn):
        # statements are yielded outermost first; take the innermost statement containing target
        pass
    best: tuple[ast.stmt, list[Guard]] | None = None
    for st, gs in walk_guarded(fn):
        if isinstance(st, (ast.If, ast.While)):
            hay: Iterable[ast.AST] = ast.walk(st.test)
        elif isinstance(st, (ast.For, ast.AsyncFor)):
            hay = list(ast.walk(st.iter)) + list(ast.walk(st.target))
        elif isinstance(st, (ast.With, ast.AsyncWith)):
            hay = [n for it in st.items for n in ast.walk(it)]
        elif isinstance(st, ast.Try):
            hay = []
        elif isinstance(st, (ast.FunctionDef, ast.ClassDef)):
            hay = []
        else:
            hay = ast.walk(st)
        if any(n is target for n in hay):
            best = (st, gs)
    if best is None:
        raise AnalysisError(f"node {norm(target)[:60]} not found in {fn.name}")
    st, gs = best
    header = st.test if isinstance(st, (ast.If, ast.While)) else st
    return expand_guards(gs + expr_guards(header, target))


def expand_guards(gs: list[Guard]) -> list[Guard]:
    """A true conjunction makes each conjunct true, a false disjunction each disjunct false,
    `not x` flips polarity: add the atomic consequences (the compound guard is kept too)."""
    out: list[Guard] = []
    todo = list(gs)
    seen = set()
    while todo:
        g = todo.pop(0)
        key = (id(g.test), g.positive)
        if key in seen:
            continue
        seen.add(key)
        out.append(g)
        t = g.test
        if isinstance(t, ast.UnaryOp) and isinstance(t.op, ast.Not):
            todo.append(Guard(t.operand, not g.positive))
        elif isinstance(t, ast.BoolOp) and isinstance(t.op, ast.And) and g.positive:
            todo += [Guard(v, True) for v in t.values]
        elif isinstance(t, ast.BoolOp) and isinstance(t.op, ast.Or) and not g.positive:
            todo += [Guard(v, False) for v in t.values]
    return out


# ---------------------------------------------------------------------------------------------
# resolver / call graph
# ---------------------------------------------------------------------------------------------


@dataclass
class CallSite:
    caller: str
    node: ast.Call
    text: str
    target: str | None  # qualified repo function, or None
    external: str | None = None  # dotted text of an external callee when recognisable


class Facts:
    def __init__(self, repo: Repo):
        self.repo = repo
        self.class_quals: dict[str, str] = {}  # ClassName -> module.ClassName (unique in this repo)
        for mname, mi in repo.modules.items():
            for cname in mi.classes:
                self.class_quals.setdefault(cname, f"{mname}.{cname}")
        self.bases: dict[str, list[str]] = {}
        for mname, mi in repo.modules.items():
            for cname, cdef in mi.classes.items():
                bl = []
                for b in cdef.bases:
                    d = dotted(b)
                    if d is None:
                        continue
                    r = self.resolve_name(mname, d)
                    bl.append(r if r and r in self._all_class_quals() else "ext:" + d)
                self.bases[f"{mname}.{cname}"] = bl
        self.self_types: dict[str, dict[str, str]] = {}
        self._param_types: dict[str, dict[str, str]] = {}
        self._infer_self_types()
        self.calls: dict[str, list[CallSite]] = {}
        for qual, fn in repo.all_functions():
            self.calls[qual] = list(self._resolve_calls(qual, fn))

    def _all_class_quals(self) -> set[str]:
        return set(self.class_quals.values())

    # -- names -----------------------------------------------------------------------------------

    def resolve_name(self, mod: str, name: str) -> str | None:
        """Resolve a (dotted) name used in module ``mod`` to ``module.obj`` of this repo."""
        mi = self.repo.modules[mod]
        head, _, rest = name.partition(".")
        if head in mi.classes:
            return f"{mod}.{name}"
        if head in mi.functions and not rest:
            return f"{mod}.{head}"
        if head in mi.imports:
            m, n = mi.imports[head]
            m = m.lstrip(".")
            if m == PKG_NAME and n is None:
                # import mappyfile; mappyfile.open -> through __init__'s imports
                if rest:
                    return self.resolve_name("__init__", rest)
                return None
            if m.startswith(PKG_NAME + "."):
                m = m[len(PKG_NAME) + 1 :]
            elif m == PKG_NAME:
                m = "__init__"
                if n in self.repo.modules:  # from mappyfile import dictutils
                    return self.resolve_name(n, rest) if rest else n
            if m in self.repo.modules:
                if n is None:
                    return self.resolve_name(m, rest) if rest else m
                target = self.resolve_name(m, n) or f"{m}.{n}"
                return f"{target}.{rest}" if rest else target
            if m == "" and n in self.repo.modules:  # from . import x
                return self.resolve_name(n, rest) if rest else n
        return None

    def method(self, cls_qual: str, meth: str, skip_self: bool = False) -> str | None:
        """Method resolution through repo base classes; 'ext:Base.meth' when inherited from outside."""
        seen = set()
        todo = [cls_qual]
        first = True
        while todo:
            c = todo.pop(0)
            if c in seen:
                continue
            seen.add(c)
            if c.startswith("ext:"):
                return f"{c}.{meth}"
            mod, cname = c.split(".")
            mi = self.repo.modules[mod]
            if not (first and skip_self):
                real = mi.class_aliases[cname].get(meth, meth)
                if real in mi.methods[cname]:
                    return f"{c}.{real}"
            first = False
            todo += self.bases.get(c, [])
        return None

    # -- types of self attributes and locals --------------------------------------------------

    def _ctor_type(self, mod: str, cls: str | None, fn: ast.FunctionDef | None, expr: ast.expr, local: dict[str, str]) -> str | None:
        if isinstance(expr, ast.Call):
            d = dotted(expr.func)
            if d:
                if d in local:
                    return None
                r = self.resolve_name(mod, d)
                if r in self._all_class_quals():
                    return r
                if r and self.repo.has_func(r) and r.count(".") == 1:
                    # a module-level factory: every return hands back a freshly constructed object of one repo class
                    rt = self.factory_type(r)
                    if rt:
                        return rt
                if d.startswith("self.") and cls:
                    # self.transformer_class(...) : a class stored on self
                    t = self.self_types.get(f"{mod}.{cls}", {}).get(d[5:])
                    if t and t.startswith("class:"):
                        return t[6:]
                if d == "type(self)" or d == "self.__class__":
                    return f"{mod}.{cls}" if cls else None
        if isinstance(expr, ast.Name):
            if expr.id in local:
                return local[expr.id]
            if expr.id == "self" and cls:
                return f"{mod}.{cls}"
        if isinstance(expr, ast.Attribute) and isinstance(expr.value, ast.Name) and expr.value.id == "self" and cls:
            return self.self_types.get(f"{mod}.{cls}", {}).get(expr.attr)
        return None

    def factory_type(self, qual: str, _depth: int = 0) -> str | None:
        """Repo class a module-level function returns a *fresh* instance of on every path (all its
        returns are constructor calls of that class, or locals bound to one), else None."""
        memo = self.__dict__.setdefault("_factory_memo", {})
        if qual in memo:
            return memo[qual]
        memo[qual] = None
        if _depth > 3:
            return None
        fn = self.repo.func(qual)
        mod = qual.split(".")[0]
        local: dict[str, str] = {}
        for node in ast.walk(fn):
            if isinstance(node, ast.Assign) and len(node.targets) == 1 and isinstance(node.targets[0], ast.Name):
                ty = self._ctor_type(mod, None, fn, node.value, local)
                if ty:
                    local[node.targets[0].id] = ty
        rets = [n for n in ast.walk(fn) if isinstance(n, ast.Return)]
        tys = set()
        for r in rets:
            if r.value is None:
                return None
            if isinstance(r.value, ast.Name) and r.value.id in local:
                tys.add(local[r.value.id])
            elif isinstance(r.value, ast.Call):
                t = self._ctor_type(mod, None, fn, r.value, local)
                tys.add(t)
            else:
                return None
        if len(tys) == 1 and None not in tys:
            memo[qual] = next(iter(tys))
        return memo[qual]

    def _infer_self_types(self) -> None:
        # two rounds so that CommentsTransformer(self.mapfile_transformer) sees the first round
        for _round in range(3):
            self._lt_ready = _round > 0
            for mname, mi in self.repo.modules.items():
                for cname, meths in mi.methods.items():
                    cq = f"{mname}.{cname}"
                    st = self.self_types.setdefault(cq, {})
                    for meth, fn in meths.items():
                        params = {a.arg for a in fn.args.args + fn.args.kwonlyargs}
                        defaults = self._param_defaults(mname, fn)
                        for node in ast.walk(fn):
                            if isinstance(node, ast.Assign) and len(node.targets) == 1:
                                t = node.targets[0]
                                if isinstance(t, ast.Attribute) and isinstance(t.value, ast.Name) and t.value.id == "self":
                                    ty = self._ctor_type(mname, cname, fn, node.value, {})
                                    if ty is None and isinstance(node.value, ast.Name) and node.value.id not in params:
                                        # self.x = local, where the local was bound to a constructor call in this method
                                        ty = self.local_types(f"{cq}.{meth}", fn).get(node.value.id) if self.__dict__.get("_lt_ready") else None
                                    if ty is None and isinstance(node.value, ast.Name) and node.value.id in params:
                                        p = node.value.id
                                        ty = defaults.get(p) or self._param_types.get(f"{cq}.{meth}", {}).get(p)
                                    if ty:
                                        st.setdefault(t.attr, ty)
            # parameter types from constructor call sites
            for qual, fn in self.repo.all_functions():
                mod = qual.split(".")[0]
                cls = qual.split(".")[1] if qual.count(".") == 2 else None
                local = self.local_types(qual, fn)
                for call in calls_in(fn):
                    d = dotted(call.func)
                    if not d:
                        continue
                    r = self.resolve_name(mod, d)
                    if r in self._all_class_quals():
                        init = self.method(r, "__init__")
                        if init and not init.startswith("ext:"):
                            ifn = self.repo.func(init)
                            pnames = [a.arg for a in ifn.args.args][1:]
                            for i, a in enumerate(call.args):
                                if i < len(pnames):
                                    ty = self._ctor_type(mod, cls, fn, a, local)
                                    if ty:
                                        self._param_types.setdefault(init, {}).setdefault(pnames[i], ty)

    def _param_defaults(self, mod: str, fn: ast.FunctionDef) -> dict[str, str]:
        out = {}
        args = fn.args.args
        defs = fn.args.defaults
        for a, d in zip(args[len(args) - len(defs) :], defs):
            if isinstance(d, ast.Name):
                r = self.resolve_name(mod, d.id)
                if r in self._all_class_quals():
                    out[a.arg] = "class:" + r
        return out

    def local_types(self, qual: str, fn: ast.FunctionDef) -> dict[str, str]:
        mod = qual.split(".")[0]
        cls = qual.split(".")[1] if qual.count(".") == 2 else None
        local: dict[str, str] = {}
        for node in ast.walk(fn):
            if isinstance(node, ast.Assign) and len(node.targets) == 1 and isinstance(node.targets[0], ast.Name):
                ty = self._ctor_type(mod, cls, fn, node.value, local)
                if ty:
                    local[node.targets[0].id] = ty
        return local

    # -- calls -----------------------------------------------------------------------------------

    def _resolve_calls(self, qual: str, fn: ast.FunctionDef) -> Iterator[CallSite]:
        parts = qual.split(".")
        mod = parts[0]
        cls = parts[1] if len(parts) == 3 else None
        cq = f"{mod}.{cls}" if cls else None
        local = self.local_types(qual, fn)
        nested = {n.name for n in ast.walk(fn) if isinstance(n, ast.FunctionDef) and n is not fn}
        for call in calls_in(fn):
            text = call_name(call)
            target = None
            ext = None
            f = call.func
            d = dotted(f)
            if isinstance(f, ast.Attribute):
                recv = f.value
                rd = dotted(recv)
                if isinstance(recv, ast.Call) and isinstance(recv.func, ast.Name) and recv.func.id == "super" and cq:
                    target = self.method(cq, f.attr, skip_self=True)
                elif rd == "self" and cq:
                    target = self.method(cq, f.attr)
                    if target is None or target.startswith("ext:"):
                        ty = self.self_types.get(cq, {}).get(f.attr)
                        if ty and ty.startswith("class:"):
                            target = self.method(ty[6:], "__init__")
                elif rd in ("self.__class__", "cls") and cq:
                    target = self.method(cq, f.attr)
                elif rd and rd.startswith("self.") and cq and rd.count(".") == 1:
                    ty = self.self_types.get(cq, {}).get(rd[5:])
                    if ty and not ty.startswith("class:"):
                        target = self.method(ty, f.attr)
                elif rd and rd in local:
                    target = self.method(local[rd], f.attr)
                elif rd:
                    r = self.resolve_name(mod, d) if d else None
                    if r and self.repo.has_func(r):
                        target = r
                    elif r in self._all_class_quals():
                        target = self.method(r, "__init__")
                    else:
                        # ClassName.method(self, ...) e.g. OrderedDict.__getitem__
                        rr = self.resolve_name(mod, rd)
                        if rr in self._all_class_quals():
                            target = self.method(rr, f.attr)
            elif isinstance(f, ast.Name):
                multi = self._dispatch_targets(cq, fn, f.id) if cq and f.id not in nested else None
                if multi:
                    # a function taken from a class-level dispatch table and called with an explicit self:
                    # one call site per function the table holds
                    for t in multi:
                        cs = CallSite(qual, call, text, t, None)
                        cs.recv_cls = None  # type: ignore[attr-defined]
                        cs.explicit_self = True  # type: ignore[attr-defined]
                        yield cs
                    continue
                if f.id in nested:
                    target = None
                    ext = "nested:" + f.id
                else:
                    r = self.resolve_name(mod, f.id)
                    if r in self._all_class_quals():
                        target = self.method(r, "__init__") or "ext:object.__init__"
                    elif r and self.repo.has_func(r):
                        target = r
            recv_cls = None
            if target and target.startswith("ext:"):
                ext = target[4:]
                target = None
                # remember the repo class the external method is invoked on (lark Transformer.transform
                # dispatches to every callback of that class)
                if isinstance(f, ast.Attribute):
                    rd2 = dotted(f.value)
                    if rd2 and rd2.startswith("self.") and cq:
                        recv_cls = self.self_types.get(cq, {}).get(rd2[5:])
                    elif rd2 in local:
                        recv_cls = local[rd2]
                    elif isinstance(f.value, ast.Call):
                        recv_cls = self._ctor_type(mod, cls, fn, f.value, local)
            if target is None and ext is None:
                ext = d or text
            cs = CallSite(qual, call, text, target, ext)
            cs.recv_cls = recv_cls  # type: ignore[attr-defined]
            yield cs

    def class_table_targets(self, cq: str, table: str) -> list[str] | None:
        """Qualified functions held as values by the class-level dict display ``table`` of class ``cq`` (values
        are functions of the class body, directly or through ``**dict.fromkeys(keys, fn)``); None if the
        binding is anything else."""
        mod, cname = cq.split(".")
        mi = self.repo.modules[mod]
        expr = mi.class_bindings.get(cname, {}).get(table)
        if not isinstance(expr, ast.Dict):
            return None
        meths = mi.methods.get(cname, {})
        out: list[str] = []
        for k, v in zip(expr.keys, expr.values):
            if k is None:
                if isinstance(v, ast.Call) and dotted(v.func) == "dict.fromkeys" and len(v.args) == 2 and not v.keywords:
                    v = v.args[1]
                else:
                    return None
            if isinstance(v, ast.Name) and v.id in meths:
                out.append(f"{cq}.{v.id}")
            elif isinstance(v, ast.Name) and v.id in mi.functions:
                out.append(f"{mod}.{v.id}")
            else:
                return None
        return sorted(set(out)) or None

    def _dispatch_targets(self, cq: str, fn: ast.FunctionDef, local: str) -> list[str] | None:
        """``local`` is bound in ``fn`` only by look-ups in one class-level dispatch table of ``cq``."""
        values = []
        for st in ast.walk(fn):
            if isinstance(st, ast.Assign) and any(isinstance(t, ast.Name) and t.id == local for t in st.targets):
                values.append(st.value)
            elif isinstance(st, (ast.AugAssign, ast.AnnAssign, ast.For, ast.comprehension, ast.NamedExpr)) and isinstance(st.target, ast.Name) and st.target.id == local:
                return None
            elif isinstance(st, (ast.With, ast.ExceptHandler, ast.Import, ast.ImportFrom)) and local in {getattr(x, "id", None) for x in ast.walk(st) if isinstance(x, ast.Name) and isinstance(x.ctx, ast.Store)} and not isinstance(st, ast.Assign):
                pass
        if not values or local in {a.arg for a in fn.args.args + fn.args.kwonlyargs}:
            return None
        out: set = set()
        for v in values:
            tbl = None
            if isinstance(v, ast.Subscript):
                tbl = dotted(v.value)
            elif isinstance(v, ast.Call) and isinstance(v.func, ast.Attribute) and v.func.attr == "get" and 1 <= len(v.args) <= 2 and (len(v.args) == 1 or (isinstance(v.args[1], ast.Constant) and v.args[1].value is None)):
                tbl = dotted(v.func.value)
            if not tbl or tbl.count(".") != 1 or tbl.split(".")[0] not in ("self", "cls", cq.split(".")[1]):
                return None
            ts = self.class_table_targets(cq, tbl.split(".")[1])
            if not ts:
                return None
            out |= set(ts)
        return sorted(out)

    def callees(self, qual: str) -> set[str]:
        out = {c.target for c in self.calls.get(qual, []) if c.target}
        for c in self.calls.get(qual, []):
            rc = getattr(c, "recv_cls", None)
            if rc and c.external and c.external.endswith(".transform") and rc in self._all_class_quals():
                # lark's Transformer.transform calls back every method of the class by rule name
                mod, cname = rc.split(".")
                for m in self.repo.modules[mod].methods[cname]:
                    out.add(f"{rc}.{m}")
        return out

    def reachable_direct(self, roots: Iterable[str]) -> set[str]:
        """Reachable through resolved calls only - not through lark's dispatch to transformer callbacks."""
        seen: set[str] = set()
        todo = list(roots)
        while todo:
            q = todo.pop()
            if q in seen:
                continue
            seen.add(q)
            todo += [c.target for c in self.calls.get(q, []) if c.target and c.target not in seen]
        return seen

    def reachable(self, roots: Iterable[str]) -> set[str]:
        seen: set[str] = set()
        todo = list(roots)
        while todo:
            q = todo.pop()
            if q in seen:
                continue
            seen.add(q)
            todo += [c for c in self.callees(q) if c not in seen]
        return seen

    def callers_of(self, qual: str) -> list[CallSite]:
        return [c for cs in self.calls.values() for c in cs if c.target == qual]

    def stats(self) -> dict[str, int]:
        total = sum(len(v) for v in self.calls.values())
        res = sum(1 for v in self.calls.values() for c in v if c.target)
        return {"functions": len(self.calls), "call_sites": total, "resolved_in_repo": res, "external_or_unresolved": total - res}


# ---------------------------------------------------------------------------------------------
# binding a call's arguments to the callee's parameters
# ---------------------------------------------------------------------------------------------


def bind_args(call: ast.Call, fn: ast.FunctionDef, skip_self: bool = False) -> dict[str, ast.expr | None]:
    """parameter name -> argument expression (None when the default is used).  ``**kwargs`` and
    ``*args`` at the call are reported under the keys '**' / '*'."""
    params = [a.arg for a in fn.args.posonlyargs + fn.args.args]
    if skip_self and params and params[0] in ("self", "cls"):
        params = params[1:]
    out: dict[str, ast.expr | None] = {p: None for p in params}
    for a in fn.args.kwonlyargs:
        out[a.arg] = None
    i = 0
    for a in call.args:
        if isinstance(a, ast.Starred):
            out["*"] = a.value
            continue
        if i < len(params):
            out[params[i]] = a
        else:
            out[f"*{i - len(params)}"] = a
        i += 1
    for kw in call.keywords:
        if kw.arg is None:
            out["**"] = kw.value
        else:
            out[kw.arg] = kw.value
    return out


# ---------------------------------------------------------------------------------------------
# set-valued expressions (iteration order unspecified)
# ---------------------------------------------------------------------------------------------


def is_set_valued(repo: Repo, mod: str, expr: ast.AST, local_sets: set | None = None) -> bool:
    """Syntactic inference: does ``expr`` evaluate to a set / frozenset?"""
    local_sets = local_sets or set()
    if isinstance(expr, (ast.Set, ast.SetComp)):
        return True
    if isinstance(expr, ast.Name):
        if expr.id in local_sets:
            return True
        try:
            v = repo.const(mod, expr.id) if expr.id in repo.modules[mod].assigns else repo._const_lookup(repo.modules[mod], expr.id)
            return isinstance(v, (set, frozenset))
        except Exception:
            return False
    if isinstance(expr, ast.Call):
        d = dotted(expr.func)
        if d in ("set", "frozenset"):
            return True
        if isinstance(expr.func, ast.Attribute) and expr.func.attr in ("union", "intersection", "difference", "symmetric_difference", "copy"):
            return is_set_valued(repo, mod, expr.func.value, local_sets)
        return False
    if isinstance(expr, ast.BinOp) and isinstance(expr.op, (ast.BitOr, ast.BitAnd, ast.Sub, ast.BitXor)):
        return is_set_valued(repo, mod, expr.left, local_sets) or is_set_valued(repo, mod, expr.right, local_sets)
    if isinstance(expr, ast.IfExp):
        return is_set_valued(repo, mod, expr.body, local_sets) or is_set_valued(repo, mod, expr.orelse, local_sets)
    return False


def unordered_iterations(repo: Repo, qual: str, fn: ast.FunctionDef) -> list[str]:
    """for-loops and comprehensions (building ordered results) that iterate a set-valued expression."""
    mod = qual.split(".")[0]
    local_sets = set()
    for n in ast.walk(fn):
        if isinstance(n, ast.Assign) and len(n.targets) == 1 and isinstance(n.targets[0], ast.Name) and is_set_valued(repo, mod, n.value, local_sets):
            local_sets.add(n.targets[0].id)
    out = []
    pm = parents(fn)
    for n in ast.walk(fn):
        it = None
        if isinstance(n, ast.For):
            it = n.iter
        elif isinstance(n, ast.comprehension):
            it = n.iter
            # a comprehension feeding sorted()/set()/any()/all()/len()/sum()/min()/max() is order-free
            comp = pm.get(n)
            user = pm.get(comp) if comp is not None else None
            if isinstance(comp, ast.SetComp):
                continue
            if isinstance(user, ast.Call) and dotted(user.func) in ("sorted", "set", "frozenset", "any", "all", "sum", "min", "max", "len"):
                continue
        if it is not None and is_set_valued(repo, mod, it, local_sets):
            out.append("iteration over the set " + norm(it)[:70])
    return out
