"""E3 value domain: symbolic strings (literal pieces + opaque atoms with shape facts), symbolic
numbers (polynomials over named symbols with interval bounds), tagged opaque objects.

A predicate the facts do not decide raises ``Undecided``; the interpreter then forks the path and
records the assumption.  Nothing here executes repository code.
"""

from __future__ import annotations

import itertools
from dataclasses import dataclass, field, replace
from fractions import Fraction
from typing import Any, Callable, Iterable

from .core import AnalysisError


class Undecided(Exception):
    """A predicate whose truth the abstract facts do not determine."""

    def __init__(self, descr: str):
        super().__init__(descr)
        self.descr = descr


# ---------------------------------------------------------------------------------------------
# character classes
# ---------------------------------------------------------------------------------------------


@dataclass(frozen=True)
class CC:
    """Set of characters: explicit members, or the complement of explicit members."""

    chars: frozenset = frozenset()
    neg: bool = False

    @staticmethod
    def of(chars: Iterable[str]) -> "CC":
        return CC(frozenset(chars), False)

    @staticmethod
    def none_of(chars: Iterable[str]) -> "CC":
        return CC(frozenset(chars), True)

    def has(self, c: str) -> bool | None:
        return (c in self.chars) != self.neg

    def only(self, c: str) -> bool:
        return not self.neg and self.chars == frozenset((c,))

    def minus(self, chars: Iterable[str]) -> "CC":
        chars = frozenset(chars)
        if self.neg:
            return CC(self.chars | chars, True)
        return CC(self.chars - chars, False)

    def map(self, f: Callable[[str], str]) -> "CC":
        if self.neg:
            # complement sets: keep only exclusions that are fixed points of f and of its inverse image
            keep = frozenset(c for c in self.chars if f(c) == c and c.lower() == c.upper())
            return CC(keep, True)
        return CC(frozenset(f(c) for c in self.chars), False)

    def __str__(self) -> str:
        s = "".join(sorted(self.chars))
        return ("^" if self.neg else "") + "{" + s + "}"


ANYC = CC(frozenset(), True)
WS = " \t\n\r\x0b\x0c"


# ---------------------------------------------------------------------------------------------
# strings
# ---------------------------------------------------------------------------------------------


@dataclass(frozen=True)
class Atom:
    """An opaque, possibly empty piece of text about which only shape facts are known."""

    name: str
    first: CC = ANYC  # possible first characters (when non-empty)
    last: CC = ANYC
    nonempty: bool = True
    excludes: frozenset = frozenset()  # characters that do not occur anywhere in it
    free: bool = False  # differs (case-insensitively) from every vocabulary word and from any literal it is compared with
    lower_is: str | None = None  # its lower-case image when that is a known word
    ops: tuple = ()
    single: bool = False  # exactly one character long
    is_lower: bool = False  # contains no upper-case letter (lower() is the identity)
    is_upper: bool = False

    def __post_init__(self):
        w = self.lower_is
        if w and not self.ops:
            # a word of known spelling but unknown letter case
            if self.first == ANYC:
                object.__setattr__(self, "first", CC.of({w[0], w[0].upper()}))
            if self.last == ANYC:
                object.__setattr__(self, "last", CC.of({w[-1], w[-1].upper()}))
            if not self.excludes:
                letters = set(w) | set(w.upper())
                object.__setattr__(self, "excludes", frozenset(c for c in "\"'`()[]{}/#\\% \t\n\r" if c not in letters))

    def describe(self) -> str:
        o = "".join("." + (x if isinstance(x, str) else f"{x[0]}{x[1:]!r}") for x in self.ops)
        return f"<{self.name}{o}>"

    def with_op(self, op, **changes) -> "Atom":
        return replace(self, ops=self.ops + (op,), **changes)


@dataclass(frozen=True)
class Rep:
    """``base * count`` with a symbolic count."""

    base: tuple  # pieces
    count: Any  # SNum

    def describe(self) -> str:
        return "(" + SStr(self.base).describe() + ")*[" + str(self.count) + "]"


class SStr:
    """Symbolic string: a tuple of pieces (str literal | Atom | Rep)."""

    __slots__ = ("pieces",)
    pytype = "str"

    def __deepcopy__(self, memo):
        return self  # immutable

    def __copy__(self):
        return self

    def __init__(self, pieces: Iterable[Any] = ()):
        out: list[Any] = []
        for p in pieces:
            if isinstance(p, SStr):
                for q in p.pieces:
                    _push(out, q)
            else:
                _push(out, p)
        self.pieces = tuple(out)

    # -- construction ---------------------------------------------------------------------------

    @staticmethod
    def lit(s: str) -> "SStr":
        return SStr((s,))

    @staticmethod
    def atom(name: str, **facts) -> "SStr":
        return SStr((Atom(name, **facts),))

    def is_concrete(self) -> bool:
        return all(isinstance(p, str) for p in self.pieces)

    def concrete(self) -> str:
        return "".join(self.pieces)  # type: ignore[arg-type]

    def describe(self) -> str:
        out = []
        for p in self.pieces:
            if isinstance(p, str):
                out.append(repr(p)[1:-1])
            else:
                out.append(p.describe())
        return "".join(out)

    def __repr__(self) -> str:
        return f"S«{self.describe()}»"

    def __eq__(self, other) -> bool:
        return isinstance(other, SStr) and self.pieces == other.pieces

    def __hash__(self) -> int:
        return hash(self.pieces)

    def __add__(self, other) -> "SStr":
        return SStr(self.pieces + as_sstr(other).pieces)

    def __radd__(self, other) -> "SStr":
        return SStr(as_sstr(other).pieces + self.pieces)

    # -- emptiness -------------------------------------------------------------------------------

    def surely_nonempty(self) -> bool:
        for p in self.pieces:
            if isinstance(p, str) and p:
                return True
            if isinstance(p, Atom) and p.nonempty:
                return True
        return False

    def surely_empty(self) -> bool:
        return not self.pieces

    def truth(self) -> bool:
        if self.surely_nonempty():
            return True
        if self.surely_empty():
            return False
        raise Undecided(f"{self.describe()} is non-empty")

    # -- first / last characters -----------------------------------------------------------------

    def _first_info(self) -> tuple[str | None, CC | None]:
        """(known first character, or class of possible first characters)"""
        for p in self.pieces:
            if isinstance(p, str):
                if p:
                    return p[0], None
                continue
            if isinstance(p, Atom):
                if p.nonempty:
                    return None, p.first
                return None, None
            return None, None  # Rep: unknown
        return None, None

    def _last_info(self) -> tuple[str | None, CC | None]:
        for p in reversed(self.pieces):
            if isinstance(p, str):
                if p:
                    return p[-1], None
                continue
            if isinstance(p, Atom):
                if p.nonempty:
                    return None, p.last
                return None, None
            return None, None
        return None, None

    def startswith(self, prefix: str) -> bool:
        if prefix == "":
            return True
        # longest known literal prefix
        lead = ""
        rest_idx = 0
        for i, p in enumerate(self.pieces):
            if isinstance(p, str):
                lead += p
                rest_idx = i + 1
            else:
                break
        if len(lead) >= len(prefix):
            return lead.startswith(prefix)
        if not prefix.startswith(lead):
            return False
        if rest_idx >= len(self.pieces):
            return False  # whole string is the literal `lead`, shorter than prefix
        nxt = self.pieces[rest_idx]
        need = prefix[len(lead)]
        if isinstance(nxt, Atom) and not nxt.nonempty and nxt.has_first(need) is False:
            # possibly empty atom that cannot supply the next character: decided by what follows it
            rest = SStr((lead,) + self.pieces[rest_idx + 1 :])
            if not rest.startswith(prefix):
                return False
        if isinstance(nxt, Atom) and nxt.nonempty:
            if nxt.has_first(need) is False:
                return False
            if nxt.first.only(need) and len(prefix) == len(lead) + 1:
                return True
            if nxt.free and len(prefix) - len(lead) > 1 and rest_idx == len(self.pieces) - 1 and not lead:
                return False  # a free atom never starts with a multi-character literal it is tested against
        raise Undecided(f"{self.describe()} startswith {prefix!r}")

    def endswith(self, suffix: str) -> bool:
        if suffix == "":
            return True
        tail = ""
        rest_idx = len(self.pieces)
        for i in range(len(self.pieces) - 1, -1, -1):
            p = self.pieces[i]
            if isinstance(p, str):
                tail = p + tail
                rest_idx = i
            else:
                break
        if len(tail) >= len(suffix):
            return tail.endswith(suffix)
        if not suffix.endswith(tail):
            return False
        if rest_idx <= 0:
            return False
        prv = self.pieces[rest_idx - 1]
        need = suffix[len(suffix) - len(tail) - 1]
        if isinstance(prv, Atom) and not prv.nonempty and prv.has_last(need) is False:
            rest = SStr(self.pieces[: rest_idx - 1] + (tail,))
            if not rest.endswith(suffix):
                return False
        # the part of the suffix that must come out of the atom: a character the atom excludes cannot be there
        from_rest = suffix[: len(suffix) - len(tail)]
        for ch in from_rest:
            # a character that occurs in no literal piece before the tail and that every atom excludes cannot be matched
            if all((isinstance(p_, str) and ch not in p_) or (isinstance(p_, Atom) and ch in p_.excludes) for p_ in self.pieces[:rest_idx]):
                return False
        if isinstance(prv, Atom) and prv.nonempty:
            if prv.has_last(need) is False:
                return False
            if prv.last.only(need) and len(suffix) == len(tail) + 1:
                return True
            if prv.free and len(suffix) - len(tail) > 1 and rest_idx == 1 and not tail:
                return False
        raise Undecided(f"{self.describe()} endswith {suffix!r}")

    # -- transformations -------------------------------------------------------------------------

    def _map_case(self, which: str) -> "SStr":
        f = str.upper if which == "upper" else str.lower
        out: list[Any] = []
        for p in self.pieces:
            if isinstance(p, str):
                out.append(f(p))
            elif isinstance(p, Atom):
                if p.lower_is is not None:
                    out.append(f(p.lower_is))
                elif (p.ops and p.ops[-1] == which) or (which == "lower" and p.is_lower) or (which == "upper" and p.is_upper):
                    out.append(p)
                else:
                    out.append(p.with_op(which, first=p.first.map(f), last=p.last.map(f)))
            else:
                out.append(Rep(SStr(p.base)._map_case(which).pieces, p.count))
        return SStr(out)

    def case_op(self, which: str) -> "SStr":
        """swapcase / title / capitalize / casefold: exact on literals, an opaque operation on atoms."""
        out: list[Any] = []
        for p in self.pieces:
            if isinstance(p, str):
                out.append(getattr(p, which)())
            elif isinstance(p, Atom):
                out.append(Atom(p.name, excludes=p.excludes, nonempty=p.nonempty, ops=p.ops + (which,)))
            else:
                raise AnalysisError(f"{which} over a repeated piece")
        return SStr(out)

    def upper(self) -> "SStr":
        return self._map_case("upper")

    def lower(self) -> "SStr":
        return self._map_case("lower")

    def strip(self, chars: str | None = None, left: bool = True, right: bool = True) -> "SStr":
        ws = chars if chars is not None else WS
        pieces = list(self.pieces)
        # left
        while pieces and left:
            p = pieces[0]
            if isinstance(p, str):
                q = p.lstrip(ws)
                if q:
                    pieces[0] = q
                    break
                pieces.pop(0)
                continue
            if isinstance(p, Atom):
                if p.nonempty and all(p.has_first(c) is False for c in ws):
                    break
                if all(c in p.excludes for c in ws):
                    break
                pieces[0] = p.with_op(("lstrip", ws), first=p.first.minus(ws), nonempty=False)
                break
            raise AnalysisError("strip over a repeated piece is not modelled")
        while pieces and right:
            p = pieces[-1]
            if isinstance(p, str):
                q = p.rstrip(ws)
                if q:
                    pieces[-1] = q
                    break
                pieces.pop()
                continue
            if isinstance(p, Atom):
                if p.nonempty and all(p.has_last(c) is False for c in ws):
                    break
                if all(c in p.excludes for c in ws):
                    break
                pieces[-1] = p.with_op(("rstrip", ws), last=p.last.minus(ws), nonempty=False)
                break
            raise AnalysisError("strip over a repeated piece is not modelled")
        return SStr(pieces)

    def replace(self, old: str, new: str) -> "SStr":
        if old == "":
            raise AnalysisError("replace('') not modelled")
        if self.is_concrete():
            return SStr.lit(self.concrete().replace(old, new))
        out: list[Any] = []
        n = len(self.pieces)
        for i, p in enumerate(self.pieces):
            if isinstance(p, str):
                out.append(p.replace(old, new))
                # a match straddling a literal/atom boundary is possible only if the atom can supply
                # the missing characters
                if len(old) > 1:
                    for j in (i - 1, i + 1):
                        if 0 <= j < n and isinstance(self.pieces[j], Atom):
                            a = self.pieces[j]
                            for cut in range(1, len(old)):
                                left, right = old[:cut], old[cut:]
                                if j == i - 1:
                                    # atom ends with `left`, this literal starts with `right`
                                    if p.startswith(right) and not any(c in a.excludes for c in left) and a.has_last(left[-1]) is not False:
                                        raise Undecided(f"replace({old!r}) may straddle {a.describe()} boundary")
                                else:
                                    if p.endswith(left) and not any(c in a.excludes for c in right) and a.has_first(right[0]) is not False:
                                        raise Undecided(f"replace({old!r}) may straddle {a.describe()} boundary")
            elif isinstance(p, Atom):
                if any(c in p.excludes for c in old):
                    out.append(p)
                else:
                    ex = p.excludes
                    if len(old) == 1 and old not in new:
                        ex = ex | {old}
                    out.append(p.with_op(("replace", old, new), excludes=ex, first=ANYC if p.first.has(old[0]) else p.first, last=ANYC if p.last.has(old[-1]) else p.last))
            else:
                raise AnalysisError("replace over a repeated piece is not modelled")
        return SStr(out)

    def slice(self, lo: int | None, hi: int | None) -> "SStr":
        if self.is_concrete():
            return SStr.lit(self.concrete()[lo:hi])
        pieces = list(self.pieces)
        lo = lo or 0
        if lo < 0:
            raise AnalysisError("negative slice start on symbolic string")
        # drop `lo` characters from the front
        k = lo
        while k > 0:
            if not pieces:
                return SStr()
            p = pieces[0]
            if isinstance(p, str):
                if len(p) > k:
                    pieces[0] = p[k:]
                    k = 0
                else:
                    k -= len(p)
                    pieces.pop(0)
            elif isinstance(p, Atom) and p.single:
                pieces.pop(0)
                k -= 1
            elif isinstance(p, Atom):
                pieces[0] = Atom(p.name, excludes=p.excludes, nonempty=False, ops=p.ops + (("slice", k, None),), last=p.last)
                k = 0
            else:
                raise AnalysisError("slice into a repeated piece")
        if hi is None:
            return SStr(pieces)
        if hi >= 0:
            raise AnalysisError("positive slice end on symbolic string not modelled")
        k = -hi
        while k > 0:
            if not pieces:
                return SStr()
            p = pieces[-1]
            if isinstance(p, str):
                if len(p) > k:
                    pieces[-1] = p[:-k]
                    k = 0
                else:
                    k -= len(p)
                    pieces.pop()
            elif isinstance(p, Atom) and p.single:
                pieces.pop()
                k -= 1
            elif isinstance(p, Atom):
                pieces[-1] = Atom(p.name, excludes=p.excludes, nonempty=False, ops=p.ops + (("slice", None, -k),), first=p.first)
                k = 0
            else:
                raise AnalysisError("slice into a repeated piece")
        return SStr(pieces)

    def split(self, sep: str | None = None) -> list:
        """str.split for strings whose atoms cannot contain a separator character."""
        seps = WS if sep is None else sep
        if sep is not None and len(sep) != 1:
            raise AnalysisError("split on a multi-character separator of a symbolic string")
        for p in self.pieces:
            if isinstance(p, Atom):
                if not all(c in p.excludes for c in seps):
                    raise Undecided(f"{p.describe()} contains a separator of split({sep!r})")
            elif not isinstance(p, str):
                raise AnalysisError("split over a repeated piece")
        fields: list[list] = [[]]
        for p in self.pieces:
            if isinstance(p, Atom):
                fields[-1].append(p)
                continue
            cur = ""
            for ch in p:
                if ch in seps:
                    if cur:
                        fields[-1].append(cur)
                        cur = ""
                    fields.append([])
                else:
                    cur += ch
            if cur:
                fields[-1].append(cur)
        out = [SStr(f) for f in fields]
        if sep is None:
            out = [f for f in out if f.pieces]
            # an atom that may be empty could vanish: only when it stands alone in its field
            for f in out:
                if all(isinstance(x, Atom) and not x.nonempty for x in f.pieces):
                    raise Undecided(f"field {f.describe()} of split() may be empty")
        return [f.concrete() if f.is_concrete() else f for f in out]

    def contains_char(self, c: str) -> bool:
        assert len(c) == 1
        unknown = False
        for p in self.pieces:
            if isinstance(p, str):
                if c in p:
                    return True
            elif isinstance(p, Atom):
                if c not in p.excludes:
                    unknown = True
            else:
                unknown = True
        if unknown:
            raise Undecided(f"{c!r} in {self.describe()}")
        return False

    def length(self) -> Any:
        total: Any = 0
        for p in self.pieces:
            if isinstance(p, str):
                total = total + len(p)
            elif isinstance(p, Atom):
                if p.single:
                    total = total + 1
                else:
                    total = total + SNum.sym(f"len({p.describe()})", 1 if p.nonempty else 0, None)
            else:
                total = total + SStr(p.base).length() * p.count
        return total

    # -- comparison ------------------------------------------------------------------------------

    def equals(self, other: Any) -> bool:
        o = as_sstr(other) if isinstance(other, (str, SStr)) else None
        if o is None:
            return False
        if self.pieces == o.pieces:
            return True
        if self.is_concrete() and o.is_concrete():
            return self.concrete() == o.concrete()
        a, b = (self, o) if not self.is_concrete() else (o, self)
        if b.is_concrete():
            lit = b.concrete()
            # cheap refutations: first / last character, literal skeleton
            try:
                if lit == "":
                    if a.surely_nonempty():
                        return False
                else:
                    if not a.startswith(lit[0]):
                        return False
                    if not a.endswith(lit[-1]):
                        return False
            except Undecided:
                pass
            if len(a.pieces) == 1 and isinstance(a.pieces[0], Atom):
                at = a.pieces[0]
                if at.free:
                    return False
                if at.lower_is is not None and not at.ops:
                    if lit.lower() != at.lower_is:
                        return False
                if at.nonempty and lit == "":
                    return False
                if any(c in at.excludes for c in lit):
                    return False
            fixed = sum(len(p) for p in a.pieces if isinstance(p, str))
            minlen = fixed + sum(1 for p in a.pieces if isinstance(p, Atom) and p.nonempty)
            if minlen > len(lit):
                return False
            for p in a.pieces:
                if isinstance(p, str) and p not in lit:
                    return False
        raise Undecided(f"{a.describe()} == {b.describe()}")

    def member_of(self, coll: Iterable[Any]) -> bool:
        unknown = None
        for item in coll:
            if not isinstance(item, (str, SStr)):
                continue
            try:
                if self.equals(item):
                    return True
            except Undecided as u:
                unknown = u
        if unknown is not None:
            raise unknown
        return False


def _atom_has_first(self: Atom, c: str) -> bool | None:
    if c in self.excludes:
        return False
    if self.first.neg:
        return None if c not in self.first.chars else False
    return c in self.first.chars or False if not self.first.neg else None


def _has(cc: CC, c: str, excludes: frozenset) -> bool | None:
    """False: surely not; None: possible."""
    if c in excludes:
        return False
    if cc.neg:
        return False if c in cc.chars else None
    return None if c in cc.chars else False


Atom.has_first = lambda self, c: _has(self.first, c, self.excludes)  # type: ignore[attr-defined]
Atom.has_last = lambda self, c: _has(self.last, c, self.excludes)  # type: ignore[attr-defined]


def _nonneg(n: Any) -> bool:
    if isinstance(n, int):
        return n >= 0
    if isinstance(n, SNum):
        lo, _ = n.bounds()
        return lo is not None and lo >= 0
    return False


def _push(out: list, p: Any) -> None:
    """Append one piece, keeping the normal form: adjacent literals joined; a repetition ``b*[n]`` (n >= 0)
    absorbs the copies of ``b`` that stand right before or after it and a neighbouring ``b*[m]`` (m >= 0), so
    that s*level + s*indent, s*(level + indent) and s*level + s + s are one and the same value."""
    if isinstance(p, str):
        if not p:
            return
        if out and isinstance(out[-1], Rep) and len(out[-1].base) == 1 and isinstance(out[-1].base[0], str) and out[-1].base[0] and _nonneg(out[-1].count):
            b = out[-1].base[0]
            k = 0
            while p.startswith(b, k * len(b)):
                k += 1
            if k:
                out[-1] = Rep(out[-1].base, out[-1].count + k)
                p = p[k * len(b) :]
                if not p:
                    return
        if out and isinstance(out[-1], str):
            out[-1] = out[-1] + p
        else:
            out.append(p)
    elif isinstance(p, Atom):
        if out and isinstance(out[-1], Rep) and out[-1].base == (p,) and _nonneg(out[-1].count):
            out[-1] = Rep(out[-1].base, out[-1].count + 1)
        else:
            out.append(p)
    elif isinstance(p, Rep):
        if _nonneg(p.count) and out:
            last = out[-1]
            if isinstance(last, Rep) and last.base == p.base and _nonneg(last.count):
                out[-1] = Rep(p.base, last.count + p.count)
                return
            if len(p.base) == 1:
                b = p.base[0]
                if isinstance(b, Atom):
                    k = 0
                    while out and out[-1] == b:
                        out.pop()
                        k += 1
                    if k:
                        p = Rep(p.base, p.count + k)
                elif isinstance(b, str) and b and isinstance(last, str) and last.endswith(b):
                    k = 0
                    while last.endswith(b):
                        last = last[: -len(b)]
                        k += 1
                    if last:
                        out[-1] = last
                    else:
                        out.pop()
                    p = Rep(p.base, p.count + k)
                    if out and isinstance(out[-1], Rep) and out[-1].base == p.base and _nonneg(out[-1].count):
                        out[-1] = Rep(p.base, out[-1].count + p.count)
                        return
        out.append(p)
    else:
        raise AnalysisError(f"not a string piece: {p!r}")


def as_sstr(v: Any) -> SStr:
    if isinstance(v, SStr):
        return v
    if isinstance(v, str):
        return SStr.lit(v)
    raise AnalysisError(f"expected a string, got {v!r}")


def is_strlike(v: Any) -> bool:
    return isinstance(v, (str, SStr))


def repeat(s: Any, n: Any) -> SStr:
    s = as_sstr(s)
    if isinstance(n, SNum) and n.is_const():
        n = n.const_value()
    if isinstance(n, int) and not isinstance(n, bool):
        return SStr(s.pieces * max(n, 0))
    if isinstance(n, SNum):
        if not s.pieces:
            return SStr()
        # (a*m)*n = a*(m*n)
        if len(s.pieces) == 1 and isinstance(s.pieces[0], Rep):
            r = s.pieces[0]
            return SStr((Rep(r.base, r.count * n),))
        return SStr((Rep(s.pieces, n),))
    raise AnalysisError(f"string repeated by {n!r}")


# ---------------------------------------------------------------------------------------------
# numbers
# ---------------------------------------------------------------------------------------------

BOUNDS: dict[str, tuple] = {}  # symbol -> (lo, hi) ; hi None = unbounded.  Reset per exploration.
DEFS: dict[str, tuple] = {}  # opaque symbol -> (op, args) for clients that evaluate expressions on a grid


class SNum:
    """Polynomial with rational coefficients over named symbols (ints unless stated)."""

    __slots__ = ("terms", "is_float")

    def __deepcopy__(self, memo):
        return self  # immutable

    def __copy__(self):
        return self

    def __init__(self, terms: dict | None = None, is_float: bool = False):
        self.terms = {k: Fraction(v) for k, v in (terms or {}).items() if v != 0}
        self.is_float = is_float

    @property
    def pytype(self) -> str:
        return "float" if self.is_float else "int"

    @staticmethod
    def sym(name: str, lo: Any = None, hi: Any = None, is_float: bool = False) -> "SNum":
        if name not in BOUNDS:
            BOUNDS[name] = (lo, hi)
        return SNum({(name,): 1}, is_float)

    @staticmethod
    def const(c: Any) -> "SNum":
        return SNum({(): c}, isinstance(c, float))

    def is_const(self) -> bool:
        return all(k == () for k in self.terms)

    def const_value(self) -> Any:
        v = self.terms.get((), Fraction(0))
        if self.is_float:
            return float(v)
        return int(v) if v.denominator == 1 else float(v)

    def _coerce(self, o: Any) -> "SNum":
        if isinstance(o, SNum):
            return o
        if isinstance(o, bool):
            return SNum.const(int(o))
        if isinstance(o, (int, float, Fraction)):
            return SNum.const(o)
        raise AnalysisError(f"arithmetic on {o!r}")

    def __add__(self, o):
        o = self._coerce(o)
        t = dict(self.terms)
        for k, v in o.terms.items():
            t[k] = t.get(k, 0) + v
        return SNum(t, self.is_float or o.is_float)

    __radd__ = __add__

    def __neg__(self):
        return SNum({k: -v for k, v in self.terms.items()}, self.is_float)

    def __sub__(self, o):
        return self + (-self._coerce(o))

    def __rsub__(self, o):
        return self._coerce(o) - self

    def __mul__(self, o):
        o = self._coerce(o)
        t: dict = {}
        for k1, v1 in self.terms.items():
            for k2, v2 in o.terms.items():
                k = tuple(sorted(k1 + k2))
                t[k] = t.get(k, 0) + v1 * v2
        return SNum(t, self.is_float or o.is_float)

    __rmul__ = __mul__

    def bounds(self) -> tuple:
        lo: Any = Fraction(0)
        hi: Any = Fraction(0)
        for k, c in self.terms.items():
            mlo: Any = Fraction(1)
            mhi: Any = Fraction(1)
            for s in k:
                slo, shi = BOUNDS.get(s, (None, None))
                if slo is None or slo < 0:
                    return (None, None)  # only non-negative symbols are bounded here
                mlo = mlo * slo
                mhi = None if (mhi is None or shi is None) else mhi * shi
            if c >= 0:
                tlo, thi = c * mlo, (None if mhi is None else c * mhi)
            else:
                tlo, thi = (None if mhi is None else c * mhi), c * mlo
            lo = None if (lo is None or tlo is None) else lo + tlo
            hi = None if (hi is None or thi is None) else hi + thi
        return lo, hi

    def compare(self, op: str, o: Any) -> bool:
        d = self - self._coerce(o)
        if d.is_const():
            v = d.terms.get((), Fraction(0))
            return {"<": v < 0, "<=": v <= 0, ">": v > 0, ">=": v >= 0, "==": v == 0, "!=": v != 0}[op]
        lo, hi = d.bounds()
        if op in ("<", ">="):
            if hi is not None and hi < 0:
                return op == "<"
            if lo is not None and lo >= 0:
                return op == ">="
        elif op in (">", "<="):
            if lo is not None and lo > 0:
                return op == ">"
            if hi is not None and hi <= 0:
                return op == "<="
        else:
            if (lo is not None and lo > 0) or (hi is not None and hi < 0):
                return op == "!="
        raise Undecided(f"{self} {op} {o}")

    def truth(self) -> bool:
        return self.compare("!=", 0)

    def __str__(self) -> str:
        if not self.terms:
            return "0"
        parts = []
        for k in sorted(self.terms, key=lambda k: (len(k), k)):
            c = self.terms[k]
            cs = str(c.numerator) if c.denominator == 1 else str(c)
            if k == ():
                parts.append(cs)
            else:
                m = "*".join(k)
                parts.append(m if c == 1 else f"{cs}*{m}")
        return " + ".join(parts)

    __repr__ = __str__

    def __eq__(self, o) -> bool:
        return isinstance(o, SNum) and self.terms == o.terms

    def __hash__(self) -> int:
        return hash(tuple(sorted(self.terms.items())))


def opaque_num(op: str, args: tuple, lo: Any, hi: Any, is_float: bool = False) -> SNum:
    name = f"{op}({', '.join(str(a) for a in args)})"
    DEFS[name] = (op, args)
    return SNum.sym(name, lo, hi, is_float)


def is_num(v: Any) -> bool:
    return isinstance(v, SNum) or (isinstance(v, (int, float)) and not isinstance(v, bool))


# ---------------------------------------------------------------------------------------------
# objects
# ---------------------------------------------------------------------------------------------


class SObj:
    """Opaque heap object with attributes (Token, Tree, Meta, file object, jsonschema error...)."""

    def __init__(self, pytype: str, attrs: dict | None = None, label: str = "", elems: list | None = None, methods: tuple = ()):
        self.methods = tuple(methods)
        self.pytype = pytype
        self.attrs = dict(attrs or {})
        self.label = label or pytype
        self.elems = elems  # when the object is also a sequence (str-subclass Token: no)

    def __repr__(self) -> str:
        inner = ", ".join(f"{k}={v!r}" for k, v in self.attrs.items())
        return f"{self.label}({inner})"


class SBool:
    """Unknown boolean: forks when tested."""

    pytype = "bool"

    def __init__(self, name: str):
        self.name = name

    def __repr__(self) -> str:
        return f"?{self.name}"


class SOpaque:
    """A value of which only the Python type is known."""

    def __init__(self, pytype: str, label: str = ""):
        self.pytype = pytype
        self.label = label or pytype

    def __repr__(self) -> str:
        return f"<{self.label}>"


class HDict(dict):
    """Heap dictionary created by interpreted code or by the client (keys concrete)."""

    pytype = "dict"
    ci = False  # case-insensitive keys (CaseInsensitiveOrderedDict model)
    factory = None


class ReprDict:
    """A dictionary of unknown size represented by one item per *category* of entries; iteration
    visits each representative once.  Membership / lookup of a key that is not among the
    representatives is answered by ``absent_policy``."""

    pytype = "dict"

    def __init__(self, items: list, pytype: str = "dict", label: str = "dict", missing: str = "absent"):
        self.items_ = list(items)
        self.pytype = pytype
        self.label = label
        self.missing = missing  # 'absent' | 'undecided'

    def __repr__(self) -> str:
        return f"<{self.label} {[k for k, _ in self.items_]}>"
