"""C03 - pretty-printed text says exactly what the dictionary says."""

from __future__ import annotations

import ast

from .. import models, pai, printer
from ..absval import SStr, SNum, Atom, HDict
from ..core import AnalysisError, Ctx, norm, fold
from ..pyfacts import dotted, guards_at, walk_guarded, calls_in

from ..pai import as_sstr as pai_as

META = {
    "explanation": "The required lexical class table, decided exhaustively: for every (object type, keyword) slot of the 20 schema files, every value class the slot admits (enum word of unknown letter case, free string, hex colour, attribute binding, parenthesised / NOT expression, /regex/, 'regex'i, {list}, int, float, bool, number / binding / hex lists, empty auto-created dict) and both quote characters, PAI evaluates PrettyPrinter.process_attribute (get_attribute_properties -> format_value -> check_options_list / Quoter) on an opaque value of the class and compares the emitted template with the class the property demands: free strings Q..Q with the value untouched, enum words bare upper-case, numbers and booleans bare, bindings / expressions / regexes / list expressions verbatim, lists space-joined with strings quoted and bindings bare, empty dict refused (M1). Special writers: CONFIG, repeated keys, key/value blocks and PROJECTION quote their strings (M2). Hidden __keys__ never reach the output: _format / process_dict / compute_max_key_length are evaluated on dictionaries that carry hidden keys with recognisable values (H1). Dispatch completeness: _format is evaluated on a representative of every keyword that needs its own writer (the grammar's keyword-introduced blocks, an object list, a singleton block, a repeated keyword, a same-list-printed-twice probe M4) and the lines must have the shape the grammar reads back, never the generic KEY value line (D1).",
    "level_text": "The quoting decision is a function of (type, keyword, value shape) looked up in the schemas: the whole finite domain is enumerated and each cell is decided for all strings of the shape at once. Edit histories only change which dictionary is printed; the table is universal over dictionaries built from these classes.",
    "level_note": "Trusted: schema expansion equals jsonref's (checked separately by the $ref lint in C07). Strings containing the output quote character, and expression-capable slots holding a string that itself looks like an expression, are excluded as in the property. What an independent reader accepts beyond the lexical class is not examined.",
    "technique": "abstract interpretation (PAI) of the printer's value formatting over the exhaustive slot x value-class x quote table",
}

# exceptions to the required class, one line of reason each
TABLED = {
    ("composite", "compop"): ("QUOTED_UPPER", "MapServer reads COMPOP as a string: written quoted"),
}


def run(ctx: Ctx) -> None:
    e = models.env(ctx)
    repo, S, G = ctx.repo, e.S, e.G
    ctx.trusted += ["schema expansion model equals jsonref's for these files"]
    ctx.not_decided += ["acceptance by an independent reader beyond the lexical class", "strings containing the output quote character (documented limitation)"]
    PM = printer.PrinterModel(e)
    loc_fv = repo.loc("pprint", repo.func("pprint.PrettyPrinter.format_value"))

    ctx.rule("M1", "every (type, keyword, value class, quote) is printed in the lexical class MapServer requires", 1500)
    from .c19 import special_block_rules as _sbr

    special_keys = set(_sbr(G)) | set(repo.const("tokens", "REPEATED_KEYS"))
    n = 0
    first_gap = None
    for t in S.types():
        for k, node in sorted(S.slots(t).items()):
            if k in special_keys:
                continue  # written by the special writers (M2)
            for vc in printer.classes_for(S, t, k, node):
                for q in ('"', "'"):
                    n += 1
                    try:
                        kind, tmpl = PM.value_template(t, k, vc, q)
                    except AnalysisError as ex_cell:
                        # this cell cannot be evaluated: go on (a violation in another cell must not be hidden by
                        # it) and end the run as incomplete afterwards
                        first_gap = first_gap or ex_cell
                        continue
                    construct = f"{t}.{k} | {vc.name}"
                    val = vc.make(q)
                    want_desc, good = _judge(t, k, vc, q, kind, tmpl, val)
                    shown = tmpl.describe() if isinstance(tmpl, SStr) else tmpl
                    ctx.check(good, "M1", construct, loc_fv, f"quote {q}: {shown}", f"{k.upper()} with a value of class {vc.name} is written as {shown!r} (quote {q}); required: {want_desc}")
    ctx.units.update({"slot_class_quote_cells": n, "pai_evaluations": PM.evals})
    if first_gap is not None:
        raise first_gap

    # ---- M4 the same object printed twice ------------------------------------------------------------
    ctx.rule("M4", "a list value is written the same way the second time the same list object is printed (by the same or another printer): formatting does not rewrite the caller's value", 20)
    I4 = e.interp(allow_fork=False)
    n4 = 0
    for t in S.types():
        for k, node in sorted(S.slots(t).items()):
            if k in special_keys:
                continue
            for vc in printer.classes_for(S, t, k, node):
                if not vc.name.startswith("LIST"):
                    continue
                holder: dict = {"v": vc.make('"')}
                got = []
                for i_ in range(2):
                    got.append(printer.attr_line(I4, lambda: models.printer(I4, quote='"', indent=0), t, k, holder["v"]))
                n4 += 1
                unchanged = holder["v"] == vc.make('"')
                ctx.check(got[0] == got[1] and unchanged, "M4", f"{t}.{k} | {vc.name}", loc_fv, f"{got[0][1]!r} twice", f"{k.upper()}: the first print writes {got[0][1]!r}, printing the same list object again writes {got[1][1]!r}" + ("" if unchanged else f" - the caller's list was rewritten to {holder['v']!r}"))
    ctx.units["list_values_printed_twice"] = n4

    # ---- M5 keyword and value stay two tokens under align_values -----------------------------------
    ctx.rule("M5", "with align_values every keyword of every type, printed as the only keyword of its object, is followed by at least one blank before its value (indent 0, 1, 2, 4, 7): an independent reader sees the keyword and the value, not one unknown word", 250)
    from .. import layout as _layout5

    L5 = _layout5.Layout(e)
    n5 = 0
    for t, k, bad in printer.glued_under_alignment(e, L5):
        n5 += 1
        ctx.check(not bad, "M5", f"{t}.{k}", loc_fv, "keyword and value separated", f"with align_values the line for {k.upper()} is written {bad[:3]}: keyword and value run together, so the text no longer says {k.upper()} <value>")
    ctx.units["keywords_checked_under_align_values"] = n5

    # ---- M3 lookup follows the enclosing object ------------------------------------------------------
    ctx.rule("M3", "a keyword is formatted by the schema of its *own* enclosing object wherever it stands: printed after a child block that has a keyword of the same name with a different schema, its line is the same as without the child", 10)
    from .. import layout as _layout

    L_ = _layout.Layout(e)
    edges = []
    for t in S.types():
        for k, node in S.slots(t).items():
            for a in S.alternatives(node):
                kids = [a] if a.cls == "OBJECT" else (a.items or [] if a.cls == "LIST" else [])
                for x in kids:
                    if getattr(x, "cls", None) == "OBJECT" and x.obj_type and x.obj_type in S.type_files and x.obj_type != t:
                        edges.append((t, k, x.obj_type, a.cls == "LIST"))
    n3 = 0
    for parent, ckey, child, is_list in sorted(set(edges)):
        ps, cs = S.slots(parent), S.slots(child)
        for k in sorted(set(ps) & set(cs)):
            if k in special_keys or ps[k] == cs[k]:
                continue
            classes = [vc for vc in printer.classes_for(S, parent, k, ps[k]) if vc.expect not in ("RAISE", "LIST")]
            for vc in classes[:4]:
                def line_of(with_child):
                    items = [("__type__", parent)]
                    if with_child:
                        ch = _layout.cdict([("__type__", child)])
                        items.append((ckey, [ch] if is_list else ch))
                    items.append((k, vc.make('"')))
                    outs = L_.format_lines(lambda: _layout.cdict(items), lambda: L_.sym_options(end_comment=False, indent=0, spacer=" ", newlinechar="\n"), level=0, fork=False)
                    if len(outs) != 1 or outs[0][1] != "return":
                        return None
                    for ln in outs[0][2]:
                        t_ = pai.as_sstr(ln)
                        if t_.pieces and isinstance(t_.pieces[0], str) and t_.pieces[0].startswith(k.upper() + " "):
                            return t_
                    return None

                a_, b_ = line_of(False), line_of(True)
                n3 += 1
                ctx.check(a_ is not None and a_ == b_, "M3", f"{parent}.{k} after a {child} block | {vc.name}", loc_fv, f"{a_.describe() if a_ is not None else None}", f"{k.upper()} of a {parent.upper()} is written as {b_.describe() if b_ is not None else None!r} when it follows a {child.upper()} block but as {a_.describe() if a_ is not None else None!r} otherwise: the child's schema is used for the parent's keyword")
    ctx.units["shared_keyword_cells"] = n3

    # ---- M2 special writers -----------------------------------------------------------------------
    ctx.rule("M2", "CONFIG, repeated keys, key/value blocks and PROJECTION write their strings quoted (AUTO bare), keys of CONFIG upper-cased", 8)
    I = e.interp(allow_fork=False)
    for q in ('"', "'"):
        s1 = lambda nm: SStr.atom(nm, first=printer.WORD, last=printer.WORD, excludes=frozenset("\"'`"), free=True)

        def body(type_name, items):
            return [pai_as(x) for x in printer.block_lines(I, lambda: models.printer(I, quote=q, indent=0, end_comment=False), type_name, items)]

        lfmt = repo.loc("pprint", repo.func(models.fmt_qual(repo)))
        lines = body("layer", [("processing", [s1("v1"), s1("v2")])])
        good = lines == [SStr(["PROCESSING ", q, Atom("v1", first=printer.WORD, last=printer.WORD, excludes=frozenset("\"'`"), free=True), q]), SStr(["PROCESSING ", q, Atom("v2", first=printer.WORD, last=printer.WORD, excludes=frozenset("\"'`"), free=True), q])]
        ctx.check(good, "M2", f"repeated key (quote {q})", lfmt, "one quoted line per value, in order", f"PROCESSING values written as {lines!r}")
        d = HDict()
        d["somekey"] = s1("v")
        lines = body("map", [("config", d)])
        vq = [" ", q, Atom("v", first=printer.WORD, last=printer.WORD, excludes=frozenset("\"'`"), free=True), q]
        good = lines in ([SStr(["CONFIG ", q, "SOMEKEY", q] + vq)], [SStr(["CONFIG ", q, "somekey", q] + vq)])
        ctx.check(good, "M2", f"CONFIG (quote {q})", lfmt, "CONFIG Q KEY Q Q value Q", f"CONFIG written as {lines!r}")
        lines = body("layer", [("metadata", printer.kv_dict("metadata", [("akey", s1("v"))]))])
        good = lines == [SStr(["METADATA"]), SStr([q, "akey", q, " ", q, Atom("v", first=printer.WORD, last=printer.WORD, excludes=frozenset("\"'`"), free=True), q]), SStr(["END"])]
        ctx.check(good, "M2", f"key/value block entry (quote {q})", lfmt, "Q key Q Q value Q; __type__ skipped", f"METADATA entries written as {lines!r}")
        lines = body("layer", [("projection", [s1("p1"), s1("p2")])])
        inner = lines[1:-1]
        good = len(lines) == 4 and lines[0] == SStr(["PROJECTION"]) and lines[-1] == SStr(["END"]) and all(b.pieces and b.pieces[0] == q and b.pieces[-1] == q for b in inner)
        ctx.check(good, "M2", f"PROJECTION strings (quote {q})", lfmt, "each string quoted", f"PROJECTION written as {lines!r}")
        lines = body("layer", [("projection", [SStr.atom("w", lower_is="auto")])])
        ctx.check(lines == [SStr(["PROJECTION"]), SStr(["AUTO"]), SStr(["END"])], "M2", f"PROJECTION AUTO (quote {q})", lfmt, "AUTO bare", f"PROJECTION AUTO written as {lines!r}")

    # ---- H1 hidden keys ----------------------------------------------------------------------------
    ctx.rule("H1", "keys of the form __name__ never reach the output (evaluated on dictionaries whose hidden keys carry recognisable values)", 3)
    from .. import layout

    L = layout.Layout(e)
    for variant in L.hidden_key_probes():
        name, lines, leaked = variant
        ctx.check(not leaked, "H1", name, repo.loc("pprint", repo.func(models.fmt_qual(repo))), f"{len(lines)} lines, no hidden value", f"hidden key data reaches the output: {leaked}")

    # a key that merely starts or merely ends with two underscores is an ordinary key and is printed
    I_h = e.interp(allow_fork=False)
    md = printer.kv_dict("metadata", [("__lead", SStr.atom("v1", first=printer.WORD, last=printer.WORD, excludes=frozenset("\"'`"), free=True)), ("trail__", SStr.atom("v2", first=printer.WORD, last=printer.WORD, excludes=frozenset("\"'`"), free=True))])
    lines = [pai_as(x).describe() for x in printer.block_lines(I_h, lambda: models.printer(I_h, quote='"', indent=0, end_comment=False), "layer", [("metadata", md)])]
    ctx.check(lines == ["METADATA", '"__lead" "<v1>"', '"trail__" "<v2>"', "END"], "H1", "keys with two underscores at one end only are printed", repo.loc("pprint", repo.func(models.fmt_qual(repo))), " / ".join(lines), f"a METADATA block with the keys __lead and trail__ is written as {lines}: keys that are not of the form __name__ are dropped")

    # ---- D1 dispatch completeness -------------------------------------------------------------------
    ctx.rule("D1", "every keyword that needs its own writer (the grammar's keyword-introduced blocks, object lists, singleton blocks, repeated keywords) is written in that shape and never by the generic KEY value writer (evaluated)", 8)
    from .c19 import special_block_rules

    fmt = repo.func(models.fmt_qual(repo))
    shapes = printer.dispatch_shapes(e, special_block_rules(G), repo.const("tokens", "OBJECT_LIST_KEYS"), repo.const("tokens", "REPEATED_KEYS"))
    for kw, okk, desc in shapes:
        ctx.check(okk, "D1", f"{kw.upper()} is written by its own writer", repo.loc("pprint", fmt), desc, f"a {kw.upper()} value is written as {desc!r}: not the block / repeated-line shape the grammar reads back (the generic KEY value writer, or nothing, was used)")

def _judge(t, k, vc, q, kind, tmpl, val):
    exp = vc.expect
    if (t, k) in TABLED and vc.name.startswith("ENUM"):
        word = vc.name.split(":", 1)[1]
        return f"{q}{word.upper()}{q} ({TABLED[(t, k)][1]})", kind == "line" and (tmpl == SStr([q + word.upper() + q]) or tmpl == SStr([q, val, q]))
    if exp == "RAISE":
        return "an error (a value without Mapfile representation must be refused)", kind == "raise"
    if kind != "line":
        return exp, False
    if exp == "QUOTED":
        return f"{q}<value>{q} with the value unchanged", tmpl == SStr([q, val, q])
    if exp == "BARE_UPPER":
        word = vc.name.split(":", 1)[1]
        if word.lower() == "end":
            return f"{q}<word>{q} (END would close the block)", tmpl == SStr([q, val, q])
        # the word bare: upper-cased, or exactly as stored (both are the enumerated keyword, unquoted)
        return f"bare {word.upper()}", tmpl == SStr([word.upper()]) or tmpl == val
    if exp == "BARE_NUM":
        got = tmpl.pieces
        return "the bare number", len(got) == 1 and isinstance(got[0], Atom) and got[0].name.startswith("str(")
    if exp == "BARE_BOOL":
        return "bare TRUE / FALSE", tmpl == SStr(["TRUE" if val else "FALSE"])
    if exp == "VERBATIM":
        return "the value verbatim, unquoted", tmpl == val
    if exp == "LIST":
        want = []
        for i, x in enumerate(val):
            if i:
                want.append(" ")
            if isinstance(x, SNum):
                want.append(Atom(f"str({x})", first=av_num_first(), last=av_num_last(), excludes=frozenset(" \t\n'\"()[]{}#/")))
            elif isinstance(x, SStr) and x.pieces and x.pieces[0] == "[":
                want.append(x)
            else:
                want += [q, x, q]
        return "items separated by one space: numbers and bindings bare, strings quoted", tmpl == SStr(want)
    return exp, False


def av_num_first():
    from ..absval import CC

    return CC.of("0123456789-")


def av_num_last():
    from ..absval import CC

    return CC.of("0123456789")
