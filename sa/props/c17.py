"""C17 - Mapfile dicts behave as case-insensitive, insertion-ordered dicts."""

from __future__ import annotations

import ast

from .. import models, pai
from ..absval import SStr, SObj, SOpaque, HDict, Atom
from ..core import AnalysisError, Ctx, norm
from ..pyfacts import dotted, calls_in

META = {
    "explanation": "Composition argument over the trusted collections.OrderedDict: PAI evaluates every keyed method of CaseInsensitiveOrderedDict with an opaque mixed-case string key and with a non-string key and records what reaches the superclass (K1); the key-folding helper (found by role: what __setitem__ wraps the key in) is evaluated on both type tags (K0); the set of overridden methods is compared with the frozen table of OrderedDict/dict methods that can insert or look up a key (K2); update() goes through the folding constructor, __init__ hands every argument to the superclass constructor, which stores through the overridden __setitem__ (K3); __missing__ evaluated for the three cases factory-less / object-list key / other key (K4); copy, deepcopy and pickle support carry default_factory and all items, deepcopy through copy.deepcopy (K5). K5 also evaluates __copy__ as resolved for each dictionary class: same class, same default_factory, same items, a new object.",
    "level_text": "Every overridden method is evaluated abstractly for all string keys at once (an opaque key atom) - the key that reaches OrderedDict is shown to be lower(key) on every path; together with the exhaustive list of inserting methods this gives the invariant 'stored keys are lower-case', from which equivalence with an ordered dict keyed by lower-cased keys follows by OrderedDict's own contract. Operation sequences are not replayed.",
    "level_note": "Trusted: CPython's OrderedDict (ordering, update/fromkeys/__ior__ going through __setitem__), copy and pickle protocols. Frozen stdlib facts are listed in the checker (INSERTING / KEYED tables).",
    "technique": "abstract interpretation (PAI) of each dict method with a recorder on superclass calls + override-exhaustiveness table + AST dataflow rules",
}

KEYED = ["__getitem__", "__setitem__", "__delitem__", "__contains__", "get", "pop", "setdefault"]
# inherited OrderedDict / dict methods through which a key can enter or be looked up, and how each is covered
INSERTING = {
    "__init__": "OrderedDict.__init__ stores through self.update / self.__setitem__ (overridden); an override must pass every argument on (K3)",
    "__setitem__": "must be overridden",
    "setdefault": "must be overridden",
    "update": "must be overridden",
    "__ior__": "OrderedDict.__ior__ calls self.update (overridden)",
    "fromkeys": "OrderedDict.fromkeys calls cls() then self[key] = value (overridden __setitem__)",
    "__missing__": "called by DefaultOrderedDict.__getitem__ with the already folded key; stores through self[key]",
}
CI = "ordereddict.CaseInsensitiveOrderedDict"
DD = "ordereddict.DefaultOrderedDict"


def run(ctx: Ctx) -> None:
    e = models.env(ctx)
    repo = ctx.repo
    mi = repo.module("ordereddict")
    if "CaseInsensitiveOrderedDict" not in mi.classes or "DefaultOrderedDict" not in mi.classes:
        raise AnalysisError("anchor vanished: ordereddict classes")
    ctx.trusted += ["collections.OrderedDict semantics", "copy / pickle protocols"]
    ctx.not_decided += ["equivalence with a reference model over operation sequences is not replayed (follows from K0-K3 and OrderedDict's contract)"]
    meths = mi.methods["CaseInsensitiveOrderedDict"]

    # K0: the key-folding helper (found by role: what __setitem__ wraps the key in before calling the superclass)
    ctx.rule("K0", "the key-folding helper lower-cases string keys and returns other keys unchanged (PAI on both type tags)", 2)
    I = e.interp(allow_fork=False)
    cls_ref = pai.FuncRef(None, cls=CI)
    helper = None
    si = meths.get("__setitem__")
    if si is not None:
        for c in calls_in(si):
            if isinstance(c.func, ast.Attribute) and c.func.attr == "__setitem__" and c.args and isinstance(c.args[0], ast.Call) and isinstance(c.args[0].func, ast.Attribute) and c.args[0].func.attr in meths:
                helper = c.args[0].func.attr
    if helper is None:
        ctx.ok("K0", "no separate folding helper", "mappyfile/ordereddict.py", "the folding is written inline; K1 evaluates every keyed method", nontrivial=False)
        ctx.ok("K0", "(inline)", "mappyfile/ordereddict.py", "see K1", nontrivial=False)
    else:
        outs = I.explore(f"{CI}.{helper}", lambda: (cls_ref, [SStr.atom("K")], {}))
        good = len(outs) == 1 and outs[0].kind == "return" and outs[0].value == SStr.atom("K").lower()
        ctx.check(good, "K0", f"{helper}(str)", repo.loc("ordereddict", meths.get(helper)), "returns key.lower()", f"{helper}(<string key>) yields {[ (o.kind, o.value, o.exc) for o in outs]}")
        op = SOpaque("int", "intkey")
        outs = I.explore(f"{CI}.{helper}", lambda: (cls_ref, [op], {}))
        good = len(outs) == 1 and outs[0].kind == "return" and outs[0].value is op
        ctx.check(good, "K0", f"{helper}(non-str)", repo.loc("ordereddict", meths.get(helper)), "returns the key itself", f"{helper}(<int key>) yields {[(o.kind, o.value, o.exc) for o in outs]}")

    # K1: keyed operations
    ctx.rule("K1", "in every keyed operation the key reaches OrderedDict only as _k(key); the superclass result is returned; optional arguments are forwarded exactly as given", 18)
    for m in KEYED:
        if m not in meths:
            ctx.finding("K1", f"{m}: override", "mappyfile/ordereddict.py", f"CaseInsensitiveOrderedDict does not override {m}: the inherited method uses the raw key")
            continue
        for label, mk in (("str", lambda: SStr.atom("K")), ("nonstr", lambda: SOpaque("int", "intkey"))):
            rec: list = []
            result = SOpaque("object", "super-result")

            def stub(fr, self_obj, args, kwargs, _m=m, _rec=rec):
                _rec.append((args, kwargs))
                return result

            stubs = {f"ext:OrderedDict.{x}": stub for x in KEYED}
            # DefaultOrderedDict.__getitem__ is repo code; everything else is OrderedDict's
            I2 = e.interp(stubs=stubs, allow_fork=False)
            keyv = mk()
            extra = [SOpaque("object", "value")] if m in ("__setitem__", "setdefault", "pop", "get") else []
            inst = pai.Inst(CI)
            inst.attrs["default_factory"] = None
            try:
                outs = I2.explore(f"{CI}.{m}", lambda: (inst, [keyv] + extra, {}))
            except AnalysisError:
                raise
            want = keyv.lower() if label == "str" else keyv
            if label == "nonstr" and all(o.kind == "raise" for o in outs):
                ctx.ok("K1", f"{m}({label})", repo.loc("ordereddict", meths[m]), f"raises {outs[0].exc} for a non-string key (outside C17, which speaks about string keys)", nontrivial=False)
                continue
            ok = bool(rec) and all(len(a) >= 1 and (a[0] == want if label == "str" else a[0] is want) for a, _ in rec)
            ok = ok and all(o.kind == "return" for o in outs)
            fwd = all(list(a[1:]) == extra for a, _ in rec)
            ret_ok = all((o.value is result) or m in ("__setitem__",) for o in outs)
            detail = f"superclass received {[a[0] for a, _ in rec]}, returns {[o.value for o in outs]}"
            ctx.check(ok and fwd and ret_ok, "K1", f"{m}({label})", repo.loc("ordereddict", meths[m]), detail, f"{m}: key reaching OrderedDict is not _k(key), or result/extra arguments not forwarded: {detail}")

    # a stored value of None (or any other falsy value) is a value: reading it returns it, nothing is created
    for stored, label in ((None, "None"), (0, "0"), ("", "''"), (False, "False")):
        missing_calls: list = []

        def stub_lookup(fr, self_obj, args, kwargs, stored=stored):
            return stored

        def stub_missing(I_, self_obj, args, kwargs):
            missing_calls.append(list(args))
            return SOpaque("object", "auto-created")

        stubs = {f"ext:OrderedDict.{x}": stub_lookup for x in ("__getitem__", "get", "setdefault", "pop")}
        stubs["ext:OrderedDict.__contains__"] = lambda fr, so, a, k: True
        stubs[f"{DD}.__missing__"] = stub_missing
        I7 = e.interp(stubs=stubs, allow_fork=False)
        inst = pai.Inst(CI)
        inst.attrs["default_factory"] = SOpaque("object", "factory")
        outs = I7.explore(f"{CI}.__getitem__", lambda: (inst, [SStr.atom("K")], {}))
        good = len(outs) == 1 and outs[0].kind == "return" and outs[0].value is stored and not missing_calls
        ctx.check(good, "K1", f"__getitem__ of a key whose stored value is {label}", repo.loc("ordereddict", meths["__getitem__"]), "returned as stored", f"reading a key whose stored value is {label} gives {[(o.kind, o.value, o.exc) for o in outs]} and calls __missing__ {len(missing_calls)} time(s): a present key is treated as absent (the value is replaced by an auto-created one, or KeyError is raised)")

    # optional arguments are forwarded exactly as given: none given -> none passed on (pop(key) of an
    # absent key must raise, so no default may be invented), one given -> that one
    for m in ("pop", "get", "setdefault"):
        if m not in meths:
            continue
        for extra_n in (0, 1):
            rec2: list = []
            res2 = SOpaque("object", "super-result")

            def stub2(fr, self_obj, args, kwargs, _rec=rec2):
                _rec.append((list(args), dict(kwargs)))
                return res2

            I5 = e.interp(stubs={f"ext:OrderedDict.{x}": stub2 for x in KEYED}, allow_fork=False)
            inst = pai.Inst(CI)
            inst.attrs["default_factory"] = None
            keyv = SStr.atom("K")
            given = [SOpaque("object", "given-default")][:extra_n]
            outs = I5.explore(f"{CI}.{m}", lambda: (inst, [keyv] + given, {}))
            ok = bool(rec2) and all(a == [keyv.lower()] + given and not k for a, k in rec2) and all(o.kind == "return" and o.value is res2 for o in outs)
            ctx.check(ok, "K1", f"{m} with {extra_n} optional argument(s)", repo.loc("ordereddict", meths[m]), f"superclass called with {[(a, k) for a, k in rec2]}", f"{m}(key{', default' if extra_n else ''}) calls the superclass with {[(a, k) for a, k in rec2]}: " + ("an argument that was not given is passed on (pop of an absent key returns it instead of raising KeyError)" if not extra_n else "the given argument is not forwarded unchanged"))

    # K2: exhaustiveness
    ctx.rule("K2", "every inherited method that can insert a key is overridden with folding or routes through an overridden one (frozen stdlib table)", 7)
    must = [k for k, v in INSERTING.items() if v.startswith("must")]
    for k, why in INSERTING.items():
        if k in must:
            ctx.check(k in meths, "K2", f"override {k}", "mappyfile/ordereddict.py", why, f"{k} is not overridden in CaseInsensitiveOrderedDict: keys inserted through it keep their case")
        else:
            ctx.ok("K2", f"routed {k}", "mappyfile/ordereddict.py", why, nontrivial=False)
    extra_defs = set(meths) - set(KEYED) - set(INSERTING) - {helper, "has_key", "_convert_keys"}
    for k in sorted(extra_defs):
        ctx.ok("K2", f"other method {k}", repo.loc("ordereddict", meths[k]), "not a key-inserting OrderedDict method", nontrivial=False)

    # K3: update / __init__ / _convert_keys
    ctx.rule("K3", "update() passes its arguments through the folding constructor; __init__ hands everything to the superclass constructor (which stores through the overridden methods); a _convert_keys pass, where present, re-stores every key of a snapshot through the folding __setitem__", 4)
    if "update" in meths:
        up = meths["update"]
        sup = [c for c in calls_in(up) if isinstance(c.func, ast.Attribute) and c.func.attr == "update" and isinstance(c.func.value, ast.Call) and dotted(c.func.value.func) == "super"]
        for c in sup:
            arg_ok = True
            for a in list(c.args) + [k.value for k in c.keywords]:
                d = dotted(a.func) if isinstance(a, ast.Call) else None
                if d not in ("self.__class__", "type(self)", "CaseInsensitiveOrderedDict", "cls"):
                    if not (isinstance(a, ast.Call) and isinstance(a.func, ast.Call) and dotted(a.func.func) == "type"):
                        arg_ok = False
            ctx.check(arg_ok and bool(c.args or c.keywords), "K3", f"update: {norm(c)[:70]}", repo.loc("ordereddict", c), "argument is built by the folding constructor", "update() hands raw keys to OrderedDict.update")
        ctx.check(bool(sup), "K3", "update reaches super().update", repo.loc("ordereddict", up), "", "update() never calls the superclass update")
        # all parameters used
        params = {a.arg for a in up.args.args[1:]} | ({up.args.kwarg.arg} if up.args.kwarg else set()) | ({up.args.vararg.arg} if up.args.vararg else set())
        used = {n.id for c in sup for n in ast.walk(c) if isinstance(n, ast.Name)}
        ctx.check(params <= used, "K3", "update forwards every parameter", repo.loc("ordereddict", up), f"parameters {sorted(params)} all reach super().update", f"update() drops parameter(s) {sorted(params - used)}")
    if "__init__" in meths:
        init = meths["__init__"]
        # what the constructor was given must reach storage through a folding path: either every
        # argument is handed to the superclass constructor (OrderedDict.__init__ stores through
        # self.update / self.__setitem__, both overridden - frozen stdlib fact), unconditionally, ...
        top = [st.value for st in init.body if isinstance(st, ast.Expr) and isinstance(st.value, ast.Call)]
        sup_init = [c for c in top if isinstance(c.func, ast.Attribute) and c.func.attr == "__init__" and isinstance(c.func.value, ast.Call) and dotted(c.func.value.func) == "super"]
        iparams = {a.arg for a in init.args.args[1:]} | ({init.args.kwarg.arg} if init.args.kwarg else set()) | ({init.args.vararg.arg} if init.args.vararg else set())
        passed = {n.id for c in sup_init for n in ast.walk(c) if isinstance(n, ast.Name)}
        ctx.check(bool(sup_init) and iparams <= passed, "K3", "__init__ hands every argument to the superclass constructor, unconditionally", repo.loc("ordereddict", init), "items are stored through the overridden update / __setitem__", f"__init__ does not pass {sorted(iparams - passed) or 'its arguments'} to super().__init__ at the top level: items given to the constructor may bypass the folding store")
    if "_convert_keys" in meths:
        ck = meths["_convert_keys"]
        loops = [n for n in ast.walk(ck) if isinstance(n, ast.For)]
        ok = False
        detail = "no loop"
        for lp in loops:
            snap = isinstance(lp.iter, ast.Call) and dotted(lp.iter.func) == "list" and lp.iter.args and "self" in {n.id for n in ast.walk(lp.iter.args[0]) if isinstance(n, ast.Name)}
            kvar = lp.target.id if isinstance(lp.target, ast.Name) else None
            stores = [n for n in ast.walk(lp) if isinstance(n, ast.Assign) and isinstance(n.targets[0], ast.Subscript) and dotted(n.targets[0].value) == "self" and isinstance(n.targets[0].slice, ast.Name) and n.targets[0].slice.id == kvar]
            pops = [c for c in calls_in(lp) if isinstance(c.func, ast.Attribute) and c.func.attr == "pop" and isinstance(c.func.value, ast.Call) and dotted(c.func.value.func) == "super" and c.args and isinstance(c.args[0], ast.Name) and c.args[0].id == kvar]
            ok = bool(snap and stores and pops)
            detail = f"snapshot={bool(snap)} raw pop={len(pops)} folding store={len(stores)}"
        ctx.check(ok, "K3", "_convert_keys", repo.loc("ordereddict", ck), detail, f"_convert_keys does not re-store each key of a snapshot through self[k]: {detail}")

    # K4: __missing__
    ctx.rule("K4", "__missing__ raises KeyError without a factory, stores and returns a new [] for object-list keys and default_factory() otherwise", 3)
    olk = sorted(repo.const("tokens", "OBJECT_LIST_KEYS"))
    I3 = e.interp(allow_fork=False)

    def mk_self(factory):
        d = HDict()
        d.pytype = DD  # type: ignore[misc]
        d.factory = factory
        return d

    outs = I3.explore(f"{DD}.__missing__", lambda: (mk_self(None), ["anykey"], {}))
    ctx.check(len(outs) == 1 and outs[0].exc == "KeyError", "K4", "__missing__ without factory", repo.loc("ordereddict", mi.methods["DefaultOrderedDict"].get("__missing__")), "raises KeyError", f"yields {[(o.kind, o.exc, o.value) for o in outs]}")
    made = SOpaque("object", "factory-product")

    def factory(fr, args, kwargs):
        return made

    for key, expect_list in ((olk[0] if olk else "layers", True), ("somekey", False)):
        holder = {}

        def mk():
            holder["d"] = mk_self(factory)
            return holder["d"], [key], {}

        outs = I3.explore(f"{DD}.__missing__", mk)
        d = holder["d"]
        o = outs[0] if outs else None
        if expect_list:
            good = o is not None and o.kind == "return" and isinstance(o.value, list) and o.value == [] and key in d and d[key] is o.value
        else:
            good = o is not None and o.kind == "return" and o.value is made and key in d and d[key] is made
        ctx.check(good and len(outs) == 1, "K4", f"__missing__({'object-list key' if expect_list else 'other key'})", repo.loc("ordereddict", mi.methods["DefaultOrderedDict"].get("__missing__")), "stores and returns the default", f"yields {[(x.kind, x.exc, x.value) for x in outs]} dict={dict(d)}")

    # K5: copies
    ctx.rule("K5", "__copy__, __deepcopy__ and __reduce__ carry default_factory and every item; __deepcopy__ copies the items with copy.deepcopy", 3)
    dm = mi.methods["DefaultOrderedDict"]
    for name in ("__copy__", "__deepcopy__", "__reduce__"):
        if name not in dm and name not in meths:
            ctx.finding("K5", name, "mappyfile/ordereddict.py", f"{name} is not defined: the default_factory would be lost")
            continue
        fn = dm.get(name) or meths[name]
        rets = [n for n in ast.walk(fn) if isinstance(n, ast.Return) and n.value is not None]
        txt = " ".join(norm(r.value) for r in rets)
        uses_factory = "default_factory" in {n.attr for n in ast.walk(fn) if isinstance(n, ast.Attribute)}
        same_class = any(isinstance(n, ast.Call) and dotted(n.func) in ("type", ) and n.args and isinstance(n.args[0], ast.Name) and n.args[0].id == "self" for n in ast.walk(fn)) or "self.__class__" in txt
        if name == "__deepcopy__":
            deep = [c for c in calls_in(fn) if dotted(c.func) in ("copy.deepcopy", "deepcopy")]
            covers = any("self" in {n.id for n in ast.walk(c) if isinstance(n, ast.Name)} for c in deep)
            in_ret = any(any(x in deep for x in ast.walk(r)) for r in rets) or _flows_to_return(fn, deep)
            good = uses_factory and same_class and covers and in_ret
            ctx.check(good, "K5", name, repo.loc("ordereddict", fn), "items deep-copied, same class, factory kept", f"__deepcopy__: factory kept={uses_factory}, same class={same_class}, items pass through copy.deepcopy={covers and in_ret}")
        elif name == "__copy__":
            passes_self = any(isinstance(r.value, ast.Call) and any(isinstance(a, ast.Name) and a.id == "self" or (isinstance(a, ast.Call) and "self" in {n.id for n in ast.walk(a) if isinstance(n, ast.Name)}) for a in r.value.args[1:]) for r in rets)
            ctx.check(uses_factory and same_class and passes_self, "K5", name, repo.loc("ordereddict", fn), "same class, factory and items", f"__copy__: factory kept={uses_factory}, same class={same_class}, items passed={passes_self}")
        else:
            items = any(isinstance(c.func, ast.Attribute) and c.func.attr == "items" and dotted(c.func.value) == "self" for c in calls_in(fn))
            tup = any(isinstance(r.value, ast.Tuple) and len(r.value.elts) == 5 for r in rets)
            ctx.check(uses_factory and same_class and items and tup, "K5", name, repo.loc("ordereddict", fn), "5-tuple with class, factory args and item iterator", f"__reduce__: factory kept={uses_factory}, same class={same_class}, items iterator={items}, 5-tuple={tup}")
    # evaluated: what pickle is told to rebuild the dictionary with
    I6 = e.interp(allow_fork=False)
    fac = SOpaque("object", "the-factory")

    def mkd(f):
        d = HDict()
        d.pytype = CI  # type: ignore[misc]
        d.ci = True
        d.factory = f
        d["k"] = SStr.atom("v")
        return d

    for f, label in ((fac, "with a default_factory"), (None, "without a default_factory")):
        outs = I6.explore(f"{DD}.__reduce__", lambda f=f: (mkd(f), [], {}))
        good = False
        detail = f"{[(o.kind, o.exc, o.value) for o in outs]}"
        if len(outs) == 1 and outs[0].kind == "return" and isinstance(outs[0].value, tuple) and len(outs[0].value) == 5:
            cls_, args_, state_, li_, di_ = outs[0].value
            items_ = list(I6.iter_values(di_)) if hasattr(I6, "iter_values") else None
            good = isinstance(cls_, pai.FuncRef) and cls_.cls == CI and (tuple(args_) == ((fac,) if f is not None else ()) or (f is None and tuple(args_) == (None,))) and di_ is not None
            detail = f"class {cls_!r}, constructor arguments {args_!r}"
        ctx.check(good, "K5", f"__reduce__ {label}", repo.loc("ordereddict", dm.get("__reduce__") or meths.get("__reduce__")), detail, f"pickling a dictionary {label} rebuilds it from {detail}: the default_factory (and with it the auto-created lists and blocks) is lost, or the class / items are not carried")
    # evaluated: the shallow copy the case-insensitive class really hands out (its own __copy__ or an inherited one)
    for cls_q in (CI, DD):
        mq = e.facts.method(cls_q, "__copy__")
        if not mq or mq.startswith("ext:"):
            continue  # reported above
        for f, label in ((fac, "with a default_factory"), (None, "without a default_factory")):
            h = {}

            def mk(f=f, cls_q=cls_q):
                d = mkd(f)
                d.pytype = cls_q  # type: ignore[misc]
                d.ci = cls_q == CI
                d["second"] = SStr.atom("w")
                h["d"] = d
                return d, [], {}

            outs = I6.explore(mq, mk)
            o = outs[0]
            r = o.value if o.kind == "return" else None
            good = len(outs) == 1 and isinstance(r, HDict) and r is not h["d"] and r.pytype == cls_q and r.factory is f and list(r.items()) == list(h["d"].items())
            detail = f"{o.kind} {o.exc or ''}" if not isinstance(r, HDict) else f"class {r.pytype}, default_factory {r.factory!r}, items {list(r.items())!r}"
            ctx.check(good, "K5", f"copy of a {cls_q.split('.')[-1]} {label}", repo.loc("ordereddict", repo.func(mq)), "same class, same factory, same items, new object", f"copy.copy / .copy() of a {cls_q.split('.')[-1]} {label} gives {detail}; expected the same class, default_factory {f!r} and the items in order: the copy does not behave like the original (missing keys are no longer created)")
    ctx.units.update({"methods_evaluated": len(KEYED) * 2 + 11, "pai_paths": I.paths_run + I3.paths_run})


def _flows_to_return(fn: ast.FunctionDef, calls: list) -> bool:
    names = set()
    for st in ast.walk(fn):
        if isinstance(st, ast.Assign) and any(c in list(ast.walk(st.value)) for c in calls):
            for t in st.targets:
                if isinstance(t, ast.Name):
                    names.add(t.id)
    for r in ast.walk(fn):
        if isinstance(r, ast.Return) and r.value is not None and names & {n.id for n in ast.walk(r.value) if isinstance(n, ast.Name)}:
            return True
    return False
