"""C18 - update / find helpers obey their documented laws."""

from __future__ import annotations

import ast
import copy

from .. import models, pai
from ..absval import SStr, SNum, SOpaque, HDict, Atom
from ..core import AnalysisError, Ctx, norm
from ..effects import Effects

META = {
    "explanation": "The helpers branch only on the *shape* of their arguments (key present or not, value kind: scalar / dict / list of dicts and None / the '__delete__' marker / dict carrying __delete__, overwrite flag), so the case table is finite. PAI evaluates dictutils.update on every cell of that table with opaque leaf values and compares the resulting d1 with the documented law; d2 is compared with a structural snapshot taken before the call (U1-U3). find / findall / findunique / findkey are evaluated on lists whose items have the key with an equal value, with a different value, with a value that is a proper substring / superstring of the asked one, with a falsy value, or lack the key: results, order and the items themselves are compared with the law (F1-F4). Effect analysis shows update never stores into d2 or its sub-objects and the find helpers have no mutation site (E1, shared with C12). U3 runs the three deletion forms in both overwrite modes, at the top level and inside a nested object.",
    "level_text": "Exhaustive over the finite shape table on which the code branches; leaf values are opaque, so each cell holds for all values of its shape. Arbitrary nestings are compositions of these cells through the recursive calls, which are evaluated through the same code.",
    "level_note": "Trusted: itertools.zip_longest, sorted/set on strings. Deep nesting beyond the two levels of the table is covered by the recursion going through the same evaluated cells, not replayed.",
    "technique": "abstract interpretation over the argument-shape case table + effect analysis",
}


def V(name: str) -> SStr:
    return SStr.atom(name, free=True)


def snap(x):
    """Structural snapshot of nested dict/list (leaf identity kept)."""
    if isinstance(x, dict):
        return ("d", [(k, snap(v)) for k, v in x.items()])
    if isinstance(x, list):
        return ("l", [snap(v) for v in x])
    return ("v", x)


def run(ctx: Ctx) -> None:
    e = models.env(ctx)
    repo = ctx.repo
    I = e.interp(allow_fork=False, max_depth=20)
    loc_u = repo.loc("dictutils", repo.func("dictutils.update"))

    def do_update(mk1, mk2, overwrite=True):
        h = {}

        def make():
            h["d1"], h["d2"] = mk1(), mk2()
            h["snap2"] = snap(h["d2"])
            return None, [h["d1"], h["d2"]], ({"overwrite": overwrite} if overwrite is not True else {})

        outs = I.explore("dictutils.update", make)
        if len(outs) != 1:
            raise AnalysisError("update forks")
        return outs[0], h

    # ---- U1 scalar / overwrite --------------------------------------------------------------------
    ctx.rule("U1", "scalar and non-object-list values of d2 replace those of d1 (never when overwrite=False and the key exists); keys not mentioned in d2 are untouched; d1 is returned; d2 is not modified", 4)
    a, b, c, n = V("a"), V("b"), V("c"), V("new")
    for ow in (True, False):
        o, h = do_update(lambda: HDict({"keep": a, "k": b}), lambda: HDict({"k": n, "added": c, "lst": [V("x"), V("y")]}), ow)
        d1 = h["d1"]
        want = {"keep": a, "k": (n if ow else b), "added": c, "lst": h["d2"]["lst"]}
        ok = o.kind == "return" and o.value is d1 and dict(d1) == want and list(d1.keys()) == ["keep", "k", "added", "lst"]
        ctx.check(ok, "U1", f"scalars, overwrite={ow}", loc_u, str(dict(d1)), f"update({{keep,k}}, {{k,added,lst}}, overwrite={ow}) gives {dict(d1)!r} (returned d1: {o.value is d1}); expected {want!r}")
        ctx.check(snap(h["d2"]) == h["snap2"], "U1", f"d2 unchanged, overwrite={ow}", loc_u, "", "update modified d2")

    # ---- U2 nested dicts and lists -------------------------------------------------------------------
    ctx.rule("U2", "nested dicts merge recursively; lists of dicts merge index by index, None skips an index, extra items are appended", 5)
    o, h = do_update(lambda: HDict({"web": HDict({"p": a, "q": b}), "x": c}), lambda: HDict({"web": HDict({"q": n, "r": c}), "fresh": HDict({"z": a})}))
    d1 = h["d1"]
    ok = o.kind == "return" and dict(d1["web"]) == {"p": a, "q": n, "r": c} and d1["x"] is c and dict(d1["fresh"]) == {"z": a}
    ctx.check(ok, "U2", "nested dict merge", loc_u, "", f"nested merge gives {d1!r}")
    shares = [k for k in ("web", "fresh") if isinstance(d1.get(k), dict) and d1[k] is h["d2"].get(k)]
    ctx.check(not shares, "U2", "d1 does not share dict objects with d2 after the merge", loc_u, "new sub-objects are copies", f"after update() d1[{shares}] is the very same object as in d2: a later update of d1 rewrites the patch d2 (and every other dictionary the patch was applied to)")
    ctx.check(snap(h["d2"]) == h["snap2"], "U2", "d2 unchanged by a nested merge", loc_u, "", f"update modified d2: {h['d2']!r}")
    o, h = do_update(lambda: HDict({"layers": [HDict({"name": a}), HDict({"name": b})]}), lambda: HDict({"layers": [None, HDict({"name": n}), HDict({"name": c})]}))
    d1 = h["d1"]
    got = [dict(x) for x in d1["layers"]] if o.kind == "return" else o.exc
    ctx.check(got == [{"name": a}, {"name": n}, {"name": c}], "U2", "list of dicts: None skips, longer list appends", loc_u, "", f"layers merge gives {got!r}, expected [name a, name new, name c]")
    ctx.check(snap(h["d2"]) == h["snap2"], "U2", "d2 unchanged by a list merge", loc_u, "", f"update modified d2: {h['d2']!r}")
    o, h = do_update(lambda: HDict({"layers": [HDict({"name": a, "type": b})]}), lambda: HDict({"layers": [HDict({"type": n})]}), False)
    got = [dict(x) for x in h["d1"]["layers"]] if o.kind == "return" else o.exc
    ctx.check(got == [{"name": a, "type": b}], "U2", "list merge honours overwrite=False", loc_u, "", f"{got!r}")
    # the overwrite flag travels down through nested dicts (directly, two levels deep, and below a list item)
    o, h = do_update(lambda: HDict({"web": HDict({"p": a, "meta": HDict({"t": b})})}), lambda: HDict({"web": HDict({"p": n, "r": c, "meta": HDict({"t": n, "u": c})})}), False)
    got = snap(h["d1"]) if o.kind == "return" else o.exc
    want = snap(HDict({"web": HDict({"p": a, "meta": HDict({"t": b, "u": c}), "r": c})}))
    okw = o.kind == "return" and dict(h["d1"]["web"]["meta"]) == {"t": b, "u": c} and h["d1"]["web"]["p"] is a and h["d1"]["web"].get("r") is c
    ctx.check(okw, "U2", "nested dict merge honours overwrite=False at every depth", loc_u, "", f"update({{web: {{p, meta: {{t}}}}}}, {{web: {{p', r, meta: {{t', u}}}}}}, overwrite=False) gives {h['d1']!r}; existing p and meta.t must keep their values, r and meta.u are added")
    o, h = do_update(lambda: HDict({"layers": [HDict({"name": a, "metadata": HDict({"t": b})})]}), lambda: HDict({"layers": [HDict({"metadata": HDict({"t": n, "u": c})})]}), False)
    okl = o.kind == "return" and dict(h["d1"]["layers"][0]["metadata"]) == {"t": b, "u": c}
    ctx.check(okl, "U2", "overwrite=False holds for an object nested inside a list item", loc_u, "", f"update(layers[0].metadata {{t}}, {{t', u}}, overwrite=False) gives {h['d1']!r}")
    o, h = do_update(lambda: HDict({"x": a}), lambda: HDict({"layers": [HDict({"name": n})]}))
    got = [dict(x) for x in h["d1"].get("layers", [])] if o.kind == "return" else o.exc
    ctx.check(got == [{"name": n}], "U2", "list of dicts added to a d1 without the key", loc_u, "", f"{got!r}")
    if o.kind == "return" and h["d1"].get("layers"):
        ctx.check(h["d1"]["layers"][0] is not h["d2"]["layers"][0], "U2", "appended list items are copies, not d2's own objects", loc_u, "", "an object appended from d2's list is shared between d1 and d2")
    # a new object whose own list carries placeholders / delete markers is still merged recursively
    o, h = do_update(lambda: HDict({"x": a}), lambda: HDict({"layer": HDict({"name": n, "classes": [None, HDict({"name": c}), HDict({"__delete__": True})]})}))
    got = h["d1"].get("layer")
    okn = o.kind == "return" and isinstance(got, dict) and got is not h["d2"]["layer"] and [dict(x) for x in got.get("classes", [])] == [{}, {"name": c}]
    ctx.check(okn, "U2", "a new nested object is merged recursively (placeholders and delete markers inside it are honoured)", loc_u, "", f"update({{x}}, {{layer: {{name, classes: [None, {{name}}, {{__delete__}}]}}}}) gives layer = {got!r}")

    # ---- U3 deletions -----------------------------------------------------------------------------------
    ctx.rule("U3", "'__delete__' as value removes the key, a dict carrying __delete__ removes the object, a list item carrying it removes that item; a root d2 carrying __delete__ yields an empty dict", 4)
    # a deletion is not an overwrite: the three forms remove what they name in both overwrite modes, at the
    # top level and inside a nested object
    for ow in (True, False):
        tag = "" if ow else " (overwrite=False)"
        o, h = do_update(lambda: HDict({"k": a, "keep": b}), lambda: HDict({"k": "__delete__"}), ow)
        ctx.check(o.kind == "return" and dict(h["d1"]) == {"keep": b}, "U3", "value '__delete__'" + tag, loc_u, "", f"update({{k, keep}}, {{k: '__delete__'}}, overwrite={ow}) leaves {h['d1']!r} / {o.exc}: the key named by the delete marker must go, whatever the overwrite mode")
        o, h = do_update(lambda: HDict({"web": HDict({"p": a, "q": c}), "keep": b}), lambda: HDict({"web": HDict({"p": "__delete__"})}), ow)
        ctx.check(o.kind == "return" and dict(h["d1"].get("web", {})) == {"q": c}, "U3", "value '__delete__' inside a nested object" + tag, loc_u, "", f"update({{web: {{p, q}}}}, {{web: {{p: '__delete__'}}}}, overwrite={ow}) leaves web = {h['d1'].get('web')!r} / {o.exc}")
        o, h = do_update(lambda: HDict({"web": HDict({"p": a}), "keep": b}), lambda: HDict({"web": HDict({"__delete__": True})}), ow)
        ctx.check(o.kind == "return" and dict(h["d1"]) == {"keep": b}, "U3", "dict carrying __delete__" + tag, loc_u, "", f"{h['d1']!r} / {o.exc}")
        o, h = do_update(lambda: HDict({"layers": [HDict({"name": a}), HDict({"name": b}), HDict({"name": c})]}), lambda: HDict({"layers": [None, HDict({"__delete__": True})]}), ow)
        got = [dict(x) for x in h["d1"]["layers"]] if o.kind == "return" else o.exc
        ctx.check(got == [{"name": a}, {"name": c}], "U3", "list item carrying __delete__" + tag, loc_u, "", f"{got!r}")
    # positions in the patch list refer to the positions of d1's list, whatever is deleted before them
    X = V("X")
    cases = [
        ("delete first, then change second", [None, None, None], lambda: [HDict({"__delete__": True}), HDict({"color": X})], lambda n0: [dict(n0[1], color=X), n0[2]]),
        ("delete first, None for second", [None, None], lambda: [HDict({"__delete__": True}), None], lambda n0: [n0[1]]),
        ("two delete markers", [None, None, None], lambda: [HDict({"__delete__": True}), HDict({"__delete__": True})], lambda n0: [n0[2]]),
        ("delete middle, change last", [None, None, None], lambda: [None, HDict({"__delete__": True}), HDict({"color": X})], lambda n0: [n0[0], dict(n0[2], color=X)]),
        ("delete only item, append a new one", [None], lambda: [HDict({"__delete__": True}), HDict({"name": X})], lambda n0: [{"name": X}]),
        ("delete marker beyond the end", [None], lambda: [None, HDict({"__delete__": True})], lambda n0: [n0[0]]),
    ]
    for name, shape, mkpatch, expect in cases:
        names = [V(f"n{i}") for i in range(len(shape))]
        o, h = do_update(lambda names=names: HDict({"layers": [HDict({"name": nm}) for nm in names]}), lambda mkpatch=mkpatch: HDict({"layers": mkpatch()}))
        got = [dict(x) for x in h["d1"]["layers"]] if o.kind == "return" else o.exc
        want = expect([{"name": nm} for nm in names])
        ctx.check(got == want, "U3", f"list positions: {name}", loc_u, f"{len(want)} item(s) left", f"update of a list of {len(shape)} objects with the patch list ({name}) gives {got!r}, expected {want!r}: entries after a delete marker are applied to the wrong object")
    if ctx.tier == "thorough":
        # small-scope exhaustive: every d1 list of 0..3 objects x every patch list of 0..3 entries over
        # {None, {}, delete marker, change of an existing key, new key}, against the positional law
        import itertools

        kinds = ["none", "empty", "delete", "change", "add"]
        n_cases = 0
        bad_cases = []
        for n1 in range(0, 4):
            for n2 in range(0, 4):
                for combo in itertools.product(kinds, repeat=n2):
                    names = [V(f"n{i}") for i in range(n1)]

                    def mk2(combo=combo):
                        out = []
                        for j, kd in enumerate(combo):
                            out.append(None if kd == "none" else HDict() if kd == "empty" else HDict({"__delete__": True}) if kd == "delete" else HDict({"name": V(f"c{j}")}) if kd == "change" else HDict({"color": V(f"x{j}")}))
                        return HDict({"layers": out})

                    o, h = do_update(lambda names=names: HDict({"layers": [HDict({"name": nm}) for nm in names]}), mk2)
                    want = []
                    for j in range(max(n1, n2)):
                        orig = {"name": names[j]} if j < n1 else {}
                        kd = combo[j] if j < n2 else "none"
                        if kd == "delete":
                            continue
                        if kd == "change":
                            orig = dict(orig, name=V(f"c{j}"))
                        elif kd == "add":
                            orig = dict(orig, color=V(f"x{j}"))
                        want.append(orig)
                    got = [dict(x) for x in h["d1"]["layers"]] if o.kind == "return" else o.exc
                    n_cases += 1
                    if got != want or snap(h["d2"]) != h["snap2"]:
                        bad_cases.append((n1, combo, got, want))
        ctx.units["update_list_shapes_enumerated"] = n_cases
        ctx.check(not bad_cases, "U3", f"all {n_cases} list / patch-list shapes up to length 3", loc_u, "positional law holds", f"{len(bad_cases)} shapes disagree with the positional law, e.g. a list of {bad_cases[0][0] if bad_cases else ''} objects patched with {bad_cases[0][1] if bad_cases else ''} gives {bad_cases[0][2] if bad_cases else ''!r}, expected {bad_cases[0][3] if bad_cases else ''!r}")
    o, h = do_update(lambda: HDict({"k": a}), lambda: HDict({"__delete__": True}))
    ctx.check(o.kind == "return" and isinstance(o.value, dict) and not o.value, "U3", "root __delete__", loc_u, "", f"{o.value!r}")

    # ---- find helpers ------------------------------------------------------------------------------------
    def items():
        return [
            HDict({"name": "l0", "group": "roads"}),
            HDict({"name": "l1", "group": "road"}),  # proper substring of the asked value
            HDict({"name": "l2"}),  # lacks the key
            HDict({"name": "l3", "group": "roads-major"}),  # superstring
            HDict({"name": "l4", "group": "roads"}),
            HDict({"name": "l5", "group": ""}),
            HDict({"name": "l6", "group": "rivers"}),
        ]

    def call(q, args):
        h = {}

        def make():
            h["lst"] = items()
            h["snap"] = snap(h["lst"])
            return None, [h["lst"]] + args, {}

        outs = I.explore(q, make)
        if len(outs) != 1:
            raise AnalysisError(f"{q} forks")
        return outs[0], h

    ctx.rule("F1", "find returns the first item whose key equals the value, or None; items lacking the key are skipped and left unchanged", 3)
    o, h = call("dictutils.find", ["GROUP", "roads"])
    ctx.check(o.kind == "return" and o.value is h["lst"][0], "F1", "find first match (key case-folded)", repo.loc("dictutils", repo.func("dictutils.find")), "", f"find(..., 'GROUP', 'roads') = {o.value!r} / {o.exc}")
    o2, h2 = call("dictutils.find", ["group", "lakes"])
    ctx.check(o2.kind == "return" and o2.value is None, "F1", "find without match", repo.loc("dictutils", repo.func("dictutils.find")), "", f"{o2.value!r} / {o2.exc}")
    ctx.check(snap(h["lst"]) == h["snap"] and snap(h2["lst"]) == h2["snap"], "F1", "find leaves the items unchanged", repo.loc("dictutils", repo.func("dictutils.find")), "", "find modified the list or its items")

    ctx.rule("F2", "findall returns, in list order, the items whose key equals the value asked for (or is one of the values of a list); substrings do not match; items are unchanged", 4)
    o, h = call("dictutils.findall", ["group", "roads"])
    names = [x.get("name") for x in o.value] if o.kind == "return" else o.exc
    ctx.check(names == ["l0", "l4"], "F2", "findall with a string value", repo.loc("dictutils", repo.func("dictutils.findall")), "", f"asking for group 'roads' returns items {names}: expected ['l0', 'l4'] ('road' is a substring of 'roads', 'roads-major' a superstring - neither equals it)")
    o3, h3 = call("dictutils.findall", ["group", ["roads", "rivers"]])
    names = [x.get("name") for x in o3.value] if o3.kind == "return" else o3.exc
    ctx.check(names == ["l0", "l4", "l6"], "F2", "findall with a list of values", repo.loc("dictutils", repo.func("dictutils.findall")), "", f"asking for ['roads','rivers'] returns {names}")
    o5, h5 = call("dictutils.findall", ["GROUP", "roads"])
    names = [x.get("name") for x in o5.value] if o5.kind == "return" else o5.exc
    ctx.check(names == ["l0", "l4"], "F2", "findall folds the key's case like find (plain dictionaries too)", repo.loc("dictutils", repo.func("dictutils.findall")), "", f"asking for GROUP 'roads' on plain dictionaries returns {names}, expected ['l0', 'l4'] as for 'group'")
    from ..core import UnorderedIteration

    try:
        o6, h6 = call("dictutils.findunique", ["GROUP"])
        ctx.check(o6.kind == "return" and list(o6.value) == ["", "rivers", "road", "roads", "roads-major"], "F2", "findunique folds the key's case like find", repo.loc("dictutils", repo.func("dictutils.findunique")), "", f"findunique(..., 'GROUP') = {o6.value!r} / {o6.exc}")
    except UnorderedIteration:
        pass  # F3 below reports a result that depends on set order
    o4, h4 = call("dictutils.findall", ["group", "lakes"])
    ctx.check(o4.kind == "return" and o4.value == [], "F2", "findall without match", repo.loc("dictutils", repo.func("dictutils.findall")), "", f"{o4.value!r}")
    ctx.check(all(snap(x["lst"]) == x["snap"] for x in (h, h3, h4)), "F2", "findall leaves the items unchanged", repo.loc("dictutils", repo.func("dictutils.findall")), "", "findall modified the list or its items")

    ctx.rule("F3", "findunique returns the sorted distinct values present (None / missing excluded)", 2)
    from ..core import UnorderedIteration

    try:
        o, h = call("dictutils.findunique", ["GROUP"])
    except UnorderedIteration as ex:
        ctx.finding("F3", "findunique", repo.loc("dictutils", repo.func("dictutils.findunique")), f"the result is built by iterating a set without sorting: {ex}")
        o, h = None, None
    if o is not None:
      ctx.check(o.kind == "return" and o.value == ["", "rivers", "road", "roads", "roads-major"], "F3", "findunique", repo.loc("dictutils", repo.func("dictutils.findunique")), "", f"{o.value!r} / {o.exc}")
    if h is not None:
      ctx.check(snap(h["lst"]) == h["snap"], "F3", "findunique leaves the items unchanged", repo.loc("dictutils", repo.func("dictutils.findunique")), "", "modified")

    ctx.rule("F4", "findkey returns the element at a key / index path, consuming the path left to right, without creating missing keys", 3)
    root = lambda: HDict({"layers": [HDict({"name": "l0", "classes": [HDict({"name": "c0"}), HDict({"name": "c1"})]})]})
    hh = {}

    def mkroot():
        hh["d"] = root()
        return None, [hh["d"], "layers", 0, "classes", 1], {}

    outs = I.explore("dictutils.findkey", mkroot)
    ctx.check(len(outs) == 1 and outs[0].kind == "return" and outs[0].value is hh["d"]["layers"][0]["classes"][1], "F4", "findkey path", repo.loc("dictutils", repo.func("dictutils.findkey")), "", f"{outs[0].value!r} / {outs[0].exc}")
    outs = I.explore("dictutils.findkey", lambda: (None, [root()], {}))
    ctx.check(outs[0].kind == "return" and isinstance(outs[0].value, dict) and "layers" in outs[0].value, "F4", "findkey with an empty path returns the dictionary", repo.loc("dictutils", repo.func("dictutils.findkey")), "", f"{outs[0].value!r}")

    def mkmiss():
        d = HDict()
        d.pytype = "ordereddict.CaseInsensitiveOrderedDict"  # type: ignore[misc]
        d.ci = True
        d.factory = pai.FuncRef(None, cls="ordereddict.CaseInsensitiveOrderedDict")
        d["name"] = "x"
        hh["m"] = d
        return None, [d, "nokey"], {}

    outs = I.explore("dictutils.findkey", mkmiss)
    ctx.check("nokey" not in hh["m"], "F4", "findkey does not create a missing key", repo.loc("dictutils", repo.func("dictutils.findkey")), f"outcome {outs[0].kind} {outs[0].exc or ''}", f"after findkey(d, 'nokey') the dictionary has keys {list(hh['m'].keys())}")

    # ---- E1 ---------------------------------------------------------------------------------------------
    ctx.rule("E1", "update has no mutation site on d2; find / findall / findunique / findkey have none on their arguments (effect analysis)", 5)
    E = Effects(repo, e.facts)
    for q, p in (("dictutils.update", "d2"), ("dictutils.find", "lst"), ("dictutils.findall", "lst"), ("dictutils.findunique", "lst"), ("dictutils.findkey", "d")):
        sites = E.mutation_sites(q, p)
        ctx.check(not sites, "E1", f"{q}({p})", repo.loc("dictutils", repo.func(q)), "no mutation site", f"{q} can modify {p}: {[s.text for s in sites][:3]}")
    ctx.units["pai_paths"] = I.paths_run
