"""C05 - surface syntax (case, whitespace, comments, quote style, bare words) does not change meaning."""

from __future__ import annotations

import ast
import re

from .. import models, pai
from ..absval import SStr, Atom, CC, SObj, HDict
from ..core import AnalysisError, Ctx, norm
from ..grammar import regex_first_last, sre_parse, sre_c, Star

META = {
    "explanation": "Grammar-table rules plus abstract interpretation of the Python side: every keyword literal terminal is case-insensitive and every regex terminal with letters is case-closed (G2); the ignored terminals cover space, tab, form feed, CR, LF, #-comments and C comments, no other terminal can begin or end with a separator character, a terminal that can begin like an ignored one has lower priority, the terminal with an interior space occurs only inside list braces (G3); the two quoted-string terminals (and the two hex-colour terminals) are mirror images and occur only side by side as alternatives of one rule; remove_quotes strips either pair identically (Q1); a bare word and the same word in either quote style are stored identically by attr() (Q2); PAI evaluates the interactive token loop and the keyword-inspecting transformer callbacks with keyword tokens of *unknown letter case*: the result may not depend on the case (no fork, no assertion failure) (P2).",
    "level_text": "The token sequence seen by the parser is shown invariant under the renderings C05 lists by properties of the lexer tables (finite), and every place where Python code looks at keyword text is evaluated for all letter cases at once with an abstract case-unknown token.",
    "level_note": "Trusted: lark's lexer (longest/first match per its documented ordering, %ignore semantics). Sign attachment inside expressions ('1 -1') and separators *inside* a quoted token are outside the property's renderer and not examined.",
    "technique": "terminal-table lint on the compiled grammar (regex first/last-character sets, flags, priorities) + case-unknown abstract interpretation of parser/transformer keyword tests",
}

SEP = " \t\x0c\r\n"


def _letters_case_closed(pattern: str, flags: frozenset) -> list[str]:
    """Letter ranges / literals of a regex that are not closed under case (when flag i is absent)."""
    if "i" in flags:
        return []
    tree = sre_parse.parse(pattern)
    bad: list[str] = []

    def walk(items):
        for op, av in items:
            if op is sre_c.IN:
                chars = set()
                neg = False
                for o, a in av:
                    if o is sre_c.NEGATE:
                        neg = True
                    elif o is sre_c.LITERAL:
                        chars.add(a)
                    elif o is sre_c.RANGE:
                        chars.update(range(a[0], min(a[1], 0x2FF) + 1))
                if neg:
                    continue
                for c in chars:
                    ch = chr(c)
                    if ch.isalpha() and len(ch.swapcase()) == 1 and ord(ch.swapcase()) not in chars:
                        bad.append(f"class has {ch!r} without {ch.swapcase()!r}")
                        break
            elif op is sre_c.LITERAL:
                ch = chr(av)
                if ch.isalpha():
                    bad.append(f"literal {ch!r}")
            elif op in (sre_c.MAX_REPEAT, sre_c.MIN_REPEAT):
                walk(av[2])
            elif op is sre_c.SUBPATTERN:
                walk(av[-1])
            elif op is sre_c.BRANCH:
                # (?:e|E) style alternations listing both cases are fine
                alts = av[1]
                lits = []
                simple = True
                for alt in alts:
                    if len(alt) == 1 and alt[0][0] is sre_c.LITERAL:
                        lits.append(chr(alt[0][1]))
                    else:
                        simple = False
                if simple and all((c.swapcase() in lits) or not c.isalpha() for c in lits):
                    continue
                for alt in alts:
                    walk(alt)
            elif op in (sre_c.ASSERT, sre_c.ASSERT_NOT):
                walk(av[1])

    walk(tree)
    return bad


# letters in regex terminals that are case-sensitive on purpose
CASE_TABLE = {
    "DOUBLE_QUOTED_STRING": "the regex-suffix i of \"...\"i is lower-case only, as in MapServer",
    "SINGLE_QUOTED_STRING": "the regex-suffix i of '...'i is lower-case only, as in MapServer",
    "ESCAPED_STRING": "suffix i",
    "REGEXP1": "suffix i of /re/i",
    "REGEXP2": "suffix i",
}


def run(ctx: Ctx) -> None:
    e = models.env(ctx)
    repo, G = ctx.repo, e.G
    ctx.trusted += ["lark lexer: %ignore'd terminals are dropped between tokens; terminal order by priority, then length"]
    ctx.not_decided += ["sign attachment in expressions (1 -1)", "layout inside a quoted token"]

    # ---- G2 --------------------------------------------------------------------------------------
    ctx.rule("G2", "keyword literals are case-insensitive; regex terminals with letters are case-closed (tabled: the lower-case regex suffix i)", 60)
    for t in G.terms.values():
        if t.kind == "str":
            if any(c.isalpha() for c in t.value):
                ctx.check(t.ci, "G2", f"literal {t.name}", "mappyfile/mapfile.lark", "flag i", f"keyword literal {t.value!r} is case-sensitive: '{t.value.lower()}' would not be recognised")
            else:
                ctx.ok("G2", f"literal {t.name}", "mappyfile/mapfile.lark", "no letters", nontrivial=False)
        else:
            bad = _letters_case_closed(t.value, t.flags)
            if bad and t.name in CASE_TABLE and all(b == "literal 'i'" for b in bad):
                ctx.ok("G2", f"regex {t.name}", "mappyfile/mapfile.lark", "tabled: " + CASE_TABLE[t.name], nontrivial=False)
            else:
                ctx.check(not bad, "G2", f"regex {t.name}", "mappyfile/mapfile.lark", "case-closed", f"terminal {t.name} /{t.value}/ treats letter case asymmetrically: {bad[:3]}")

    # ---- G3 --------------------------------------------------------------------------------------
    ctx.rule("G3", "ignored terminals cover all separators and both comment styles; no other terminal begins or ends with a separator; ignored terminals win ties; UNQUOTED_STRING_SPACE only inside braces", 30)
    ign = [G.terms[n] for n in G.ignore if n in G.terms]
    covered = set()
    for t in ign:
        rx = t.regex()
        for ch in SEP:
            if rx.fullmatch(ch):
                covered.add(ch)
    ctx.check(covered == set(SEP), "G3", "separator coverage", "mappyfile/mapfile.lark", "space, tab, FF, CR, LF ignored", f"separator characters {sorted(repr(c) for c in set(SEP) - covered)} are not ignored between tokens")
    hashc = any(t.regex().fullmatch("# any text ; END") and not t.regex().fullmatch("# a\nb") for t in ign)
    cc = any(t.regex().fullmatch("/* a\n b */") for t in ign)
    ctx.check(hashc, "G3", "# comment to end of line", "mappyfile/mapfile.lark", "", "no ignored terminal matches a # comment up to (not across) the end of line")
    ctx.check(cc, "G3", "C comment across lines", "mappyfile/mapfile.lark", "", "no ignored terminal matches a /* */ comment spanning lines")
    ign_first = {}
    for t in ign:
        f, l, _ = regex_first_last(t.value if t.kind == "re" else re.escape(t.value), t.flags)
        ign_first[t.name] = f
    space_inside_ok = set()
    # which rules use UNQUOTED_STRING_SPACE
    for t in G.terms.values():
        if t.name in G.ignore:
            continue
        src = t.value if t.kind == "re" else re.escape(t.value)
        f, l, nullable = regex_first_last(src, t.flags)
        begins = [repr(ch) for ch in SEP if ord(ch) in f]
        ends = [repr(ch) for ch in SEP if ord(ch) in l]
        if begins or ends:
            users = {r.origin for r in G.rules if any(n == t.name for n, _, _ in r.expansion)}
            inside = users and all(_only_in_braces(G, u) for u in users)
            if inside:
                ctx.ok("G3", f"terminal {t.name} edges", "mappyfile/mapfile.lark", f"may begin/end with a separator but occurs only between braces (rules {sorted(users)})")
            else:
                # delimited tokens (quoted strings, regexes, comments-in-strings) begin with their delimiter, never a separator
                ctx.finding("G3", f"terminal {t.name} edges", "mappyfile/mapfile.lark", f"terminal {t.name} can begin with {begins} / end with {ends}: the token sequence depends on the separators around it")
        else:
            ctx.ok("G3", f"terminal {t.name} edges", "mappyfile/mapfile.lark", "cannot begin or end with a separator")
        # a terminal that can begin like an ignored terminal must lose against it
        for it in ign:
            common = [c for c in range(33, 127) if c in f and c in ign_first[it.name]]
            if common:
                ctx.check(it.priority > t.priority or _disjoint_second(t, it), "G3", f"{t.name} vs ignored {it.name}", "mappyfile/mapfile.lark", f"both may start with {chr(common[0])!r}; {it.name} has priority {it.priority} > {t.priority}", f"{t.name} (priority {t.priority}) can start with {chr(common[0])!r} like the ignored {it.name} (priority {it.priority}): a comment could be read as a {t.name} token")

    # ---- G9 --------------------------------------------------------------------------------------
    ctx.rule("G9", "in every parser state, every text /*w*/ (w over a small alphabet up to length 3 plus longer samples, w not closing the comment early) and every #w up to the line end is lexed as one ignored comment token, whatever w begins or ends with", 2)
    import itertools

    ign_names = set(G.ignore)
    accept_sets = {}
    for st, acc in G.accepts.items():
        accept_sets.setdefault(tuple(acc), st)
    alpha = ["a", " ", "*", "/", "\n", "#", '"', "1"]
    lens = (1, 2, 3, 4) if ctx.tier == "thorough" else (1, 2, 3)
    if ctx.tier == "thorough":
        alpha = alpha + ["'", "E", "\t"]
    bodies = [""] + ["".join(c) for n_ in lens for c in itertools.product(alpha, repeat=n_)]
    bodies += ["note", "note ", " note", "TODO: check this", "* banner *", "\n multi\n line\n", "END", "'quoted'", "[x] = 1", "a /* nested"]
    nc = nh = 0
    bad_c: dict = {}
    bad_h: dict = {}
    for w in bodies:
        txt = "/*" + w + "*/"
        if txt.find("*/", 2) == len(txt) - 2:
            nc += 1
            for acc, st in accept_sets.items():
                k_ = G.lex_kind(txt, list(acc))
                if k_ not in ign_names:
                    bad_c.setdefault(txt, (st, k_))
        if "\n" not in w:
            nh += 1
            txt = "#" + w
            for acc, st in accept_sets.items():
                k_ = G.lex_kind(txt, list(acc))
                if k_ not in ign_names:
                    bad_h.setdefault(txt, (st, k_))
    ctx.units["comment_texts_lexed"] = nc + nh
    ctx.units["lexer_states"] = len(accept_sets)
    for kind, n_, bad in (("/* */ comments", nc, bad_c), ("# comments", nh, bad_h)):
        ex = sorted(bad.items(), key=lambda kv: (len(kv[0]), kv[0]))[:4]
        ctx.check(not bad, "G9", kind, "mappyfile/mapfile.lark", f"{n_} texts x {len(accept_sets)} lexer states", f"{len(bad)} of {n_} comment texts are not skipped as one comment, e.g. " + "; ".join(f"{t!r} in state {st} is read as {k_ or 'several tokens / an error'}" for t, (st, k_) in ex))
    if nc < 400 or nh < 400:
        raise AnalysisError(f"comment family shrank: {nc} / {nh}")

    # ---- Q1 --------------------------------------------------------------------------------------
    ctx.rule("Q1", "single- and double-quoted terminals are mirror images, occur only as sibling alternatives of one rule, and remove_quotes strips either pair alike", 5)
    for a, b in (("DOUBLE_QUOTED_STRING", "SINGLE_QUOTED_STRING"), ("DOUBLE_QUOTED_HEXCOLOR", "SINGLE_QUOTED_HEXCOLOR")):
        if a not in G.terms or b not in G.terms:
            raise AnalysisError(f"anchor vanished: terminals {a}/{b}")
        ta, tb = G.terms[a], G.terms[b]
        mirror = ta.value.replace('"', "\x00").replace("'", '"').replace("\x00", "'") == tb.value and ta.flags == tb.flags and ta.priority == tb.priority
        ctx.check(mirror, "Q1", f"{a} ~ {b}", "mappyfile/mapfile.lark", "mirror images", f"{a} and {b} differ by more than the quote character: /{ta.value}/ vs /{tb.value}/")
        ra = {(r.origin, r.alias) for r in G.rules if any(n == a for n, _, _ in r.expansion)}
        rb = {(r.origin, r.alias) for r in G.rules if any(n == b for n, _, _ in r.expansion)}
        single = all(len(r.expansion) == 1 for r in G.rules if any(n in (a, b) for n, _, _ in r.expansion))
        ctx.check(ra == rb and single and bool(ra), "Q1", f"{a} / {b} siblings", "mappyfile/mapfile.lark", f"both only in {sorted(ra)}", f"{a} is used in {sorted(ra)} but {b} in {sorted(rb)}: the quote style changes the parse")
    I = e.interp(allow_fork=True, max_paths=32)
    body = lambda: Atom("s", nonempty=False, excludes=frozenset("\"'"))
    for q in ('"', "'"):
        outs = I.explore("quoter.Quoter.remove_quotes", lambda q=q: (I.instantiate("quoter.Quoter", [], {}), [SStr([q, body(), q])], {}))
        good = bool(outs) and all(o.kind == "return" and (o.value == SStr([body()])) for o in outs)
        ctx.check(good, "Q1", f"remove_quotes({q}...{q})", repo.loc("quoter", repo.func("quoter.Quoter.remove_quotes")), "strips exactly the outer pair", f"remove_quotes({q}<s>{q}) = {[(o.kind, o.value) for o in outs]}")

    for q in ('"', "'"):
        outs = I.explore("quoter.Quoter.remove_quotes", lambda q=q: (I.instantiate("quoter.Quoter", [], {}), [q + q], {}))
        ctx.check(len(outs) == 1 and outs[0].value == "", "Q1", f"remove_quotes of the empty string {q}{q}", repo.loc("quoter", repo.func("quoter.Quoter.remove_quotes")), "''", f"remove_quotes({q}{q}) = {[o.value for o in outs]}: an empty string loads differently in the two quote styles")

    # ---- Q2 --------------------------------------------------------------------------------------
    ctx.rule("Q2", "attr() stores a bare word and the same word in double or single quotes identically", 3)
    wordf = lambda: Atom("w", first=models.ALNUM, last=models.ALNUM, excludes=frozenset("\"'` \t\n"))
    results = {}
    for style, mk in (("bare", lambda: SStr([wordf()])), ("double", lambda: SStr(['"', wordf(), '"'])), ("single", lambda: SStr(["'", wordf(), "'"]))):
        def make(mk=mk, style=style):
            inst = I.instantiate("transformer.MapfileTransformer", [], {})
            key = models.token("UNQUOTED_STRING", SStr.atom("kw", lower_is="name"))
            val = models.token("UNQUOTED_STRING" if style == "bare" else "DOUBLE_QUOTED_STRING", mk())
            return inst, [[key, val]], {}
        outs = I.explore("transformer.MapfileTransformer.attr", make)
        if not outs or any(o.kind != "return" for o in outs):
            ctx.finding("Q2", f"attr with {style} value", repo.loc("transformer", repo.func("transformer.MapfileTransformer.attr")), f"{[(o.kind, o.exc) for o in outs]}")
            continue
        bad_o = [o for o in outs if o.value.get("name") != SStr([wordf()])]
        d = (bad_o or outs)[0].value
        results[style] = d.get("name")
        ctx.check(not bad_o, "Q2", f"attr with {style} value", repo.loc("transformer", repo.func("transformer.MapfileTransformer.attr")), f"stores {d.get('name')!r}", f"a {style} value is stored as {d.get('name')!r} instead of the word itself")

    # ---- P2 --------------------------------------------------------------------------------------
    ctx.rule("P2", "wherever Python code inspects keyword text the outcome is the same for every letter case (evaluated with case-unknown tokens)", 12)
    sym_attrs = sorted(repo.const("parser", "SYMBOL_ATTRIBUTES"))
    anycase = lambda w: (lambda: SStr.atom("kw", lower_is=w.lower()))
    cases = [
        (("SYMBOL", anycase("symbol")), "UNQUOTED_STRING", anycase("circle"), "symbol name after SYMBOL"),
        (("SYMBOL", anycase("symbol")), "UNQUOTED_STRING", anycase(sym_attrs[0] if sym_attrs else "name"), "attribute keyword after SYMBOL"),
        (("UNQUOTED_STRING", anycase("name")), "GRID", anycase("grid"), "GRID as a value after NAME"),
        (("UNQUOTED_STRING", anycase("type")), "GRID", anycase("grid"), "GRID after another keyword"),
    ]
    for prev, ck, cv, what in cases:
        outs = models.retag_outcomes(e, prev, ck, cv)
        kinds = sorted({str(o[0]) for o in outs})
        ctx.check(len(kinds) == 1 and not kinds[0].startswith("raise"), "P2", f"token loop: {what}", repo.loc("parser", repo.func("parser.Parser.parse")), f"always {kinds[0]}", f"the retagging decision depends on letter case or raises: outcomes {kinds} under assumptions {[o[2] for o in outs]}")
    # a bare word used as a *value* (the token below it on the stack is its keyword) must never change
    # how the next token is read, whatever it spells: GROUP symbol DATA ..., CLASSITEM name GRID ...
    ctx.rule("Q3", "a bare-word value spelled like a keyword (symbol, name, ...) does not change how the following token is read", 4)
    for word in ("symbol", "name", "grid", "style"):
        for ck, cv, what in (("UNQUOTED_STRING", anycase("data"), "next keyword"), ("GRID", anycase("grid"), "GRID block")):
            outs = models.retag_outcomes(e, ("UNQUOTED_STRING", anycase(word)), ck, cv, below="token")
            kinds = sorted({str(o[0]) for o in outs})
            ctx.check(kinds == [ck], "Q3", f"value '{word}' followed by {what}", repo.loc("parser", repo.func("parser.Parser.parse")), f"{ck} unchanged", f"after a keyword whose bare-word value is spelled '{word}', the following {what} token is read as {kinds}: leaving the value unquoted changes the parse (KEY {word} DATA ... fails, KEY \"{word}\" DATA ... parses)")

    # only bare words and the GRID keyword are ever re-typed: a number, a quoted string, a bracket ... after
    # NAME / SYMBOL keeps its kind whatever the spelling of the keyword before it
    ctx.rule("Q4", "the token loop of Parser.parse changes the kind of bare words and GRID only: every other token keeps its kind after any previous keyword (NAME, SYMBOL, ...)", 12)
    others = [("SIGNED_INT", lambda: "7"), ("SIGNED_FLOAT", lambda: "7.5"), ("DOUBLE_QUOTED_STRING", lambda: SStr(['"', Atom("s", nonempty=False, excludes=frozenset('"')), '"'])), ("LSQB", lambda: "["), ("LPAR", lambda: "("), ("_END", lambda: anycase("end"))]
    for pk, pv in (("UNQUOTED_STRING", "name"), ("UNQUOTED_STRING", "symbol"), ("SYMBOL", "symbol"), ("UNQUOTED_STRING", "grid")):
        for ck, cf in others:
            outs = models.retag_outcomes(e, (pk, anycase(pv)), ck, cf, below="tree")
            kinds = sorted({str(o[0]) for o in outs})
            ctx.check(kinds == [ck], "Q4", f"{ck} after the keyword {pv.upper()} ({pk})", repo.loc("parser", repo.func("parser.Parser.parse")), f"{ck} unchanged", f"a {ck} token that follows the keyword {pv.upper()} leaves the token loop as {kinds}: e.g. NAME 7 would be read as a string, NAME [attr] / NAME (1=1) would not parse")

    # transformer callbacks that look at keyword text
    I2 = e.interp(allow_fork=True, max_paths=32)
    tok = lambda kind, w: models.token(kind, SStr.atom("kw_" + w, lower_is=w))
    strtok = lambda nm: models.token("DOUBLE_QUOTED_STRING", SStr(['"', Atom(nm, excludes=frozenset("\"'")), '"']))
    numtok = lambda nm: models.token("SIGNED_INT", 7)
    cb = {
        "metadata": lambda: [[tok("METADATA", "metadata"), [strtok("k"), strtok("v")], tok("_END", "end")]],
        "validation": lambda: [[tok("VALIDATION", "validation"), [strtok("k"), strtok("v")], tok("_END", "end")]],
        "values": lambda: [[tok("VALUES", "values"), tok("_END", "end")]],
        "connectionoptions": lambda: [[tok("CONNECTIONOPTIONS", "connectionoptions"), [strtok("k"), strtok("v")], tok("_END", "end")]],
        "projection": lambda: [[tok("PROJECTION", "projection"), strtok("p"), tok("_END", "end")]],
        "points": lambda: [[tok("POINTS", "points"), (numtok("a"), numtok("b")), tok("_END", "end")]],
        "pattern": lambda: [[tok("PATTERN", "pattern"), (numtok("a"), numtok("b")), tok("_END", "end")]],
        "config": lambda: [[tok("CONFIG", "config"), strtok("k"), strtok("v")]],
        "attr": lambda: [[[tok("STYLE", "style")], tok("UNQUOTED_STRING", "hilite")]],
        "attr_name": lambda: [[[tok("SYMBOL", "symbol")]]],
    }
    for name, mk in cb.items():
        q = f"transformer.MapfileTransformer.{name}"
        if not repo.has_func(q):
            if name == "attr_name":
                continue
            raise AnalysisError(f"anchor vanished: {q}")
        outs = I2.explore(q, lambda mk=mk: (I2.instantiate("transformer.MapfileTransformer", [], {}), mk(), {}))
        case_forks = [a for o in outs for a in o.assumptions if "kw_" in a]
        bad_raise = [o.exc for o in outs if o.kind == "raise"]
        ctx.check(not case_forks and not bad_raise, "P2", f"callback {name}", repo.loc("transformer", repo.func(q)), f"{len(outs)} path(s), case-independent", f"callback {name} depends on keyword letter case ({case_forks[:2]}) or fails ({bad_raise[:2]}) for mixed-case keywords")
    ctx.units.update({"terminals": len(G.terms), "ignored": list(G.ignore), "pai_paths": I.paths_run + I2.paths_run})


def _only_in_braces(G, origin: str) -> bool:
    """Every expansion of `origin` (through its helper rules) is delimited by LBRACE ... RBRACE."""
    seen = set()
    todo = [origin]
    tops = set()
    while todo:
        o = todo.pop()
        if o in seen:
            continue
        seen.add(o)
        if o.startswith("__") or o.startswith("_"):
            # helper: find its users
            for r in G.rules:
                if any(n == o for n, _, _ in r.expansion) and r.origin != o:
                    todo.append(r.origin)
        else:
            tops.add(o)
    ok = bool(tops)
    for t in tops:
        for r in G.by_origin.get(t, []):
            names = [n for n, _, _ in r.expansion]
            if not names or names[0] != "LBRACE" or names[-1] != "RBRACE":
                ok = False
    return ok


def _disjoint_second(t, it) -> bool:
    return False
