"""C08 - recorded positions and validation error locations are exact (necessary conditions)."""

from __future__ import annotations

from .. import models, pai, valmodel, xform
from ..absval import SStr, SNum, SObj, HDict, Atom
from ..core import AnalysisError, Ctx

META = {
    "explanation": "Dataflow clauses, each decided by PAI with symbolic line / column numbers carried by abstract tokens: (Q1) create_position_dict takes line from the key token's .line and column from its .column (no swap, no arithmetic) and lists the (line, column) of the flattened value tokens in order; (Q2) in attr / composite / key-value blocks / PROJECTION / POINTS / CONFIG the token handed to it is the *keyword* token, and composite() hoists each attribute's own position under that attribute's key (repeated keywords: a list in source order); (Q3) callbacks that rewrite a token's value keep its position (update_token_value, expression builders return their first operand's token); (Q4) for every error-path shape create_message reports the line / column recorded for the offending keyword, or the enclosing block's own line / column for object-level errors (root, object in a list, singleton block, key/value block); (Q5) the CLI prints the message's line and column. Q4 also evaluates validate([root0, root1]) from validate() down to create_message() with a stand-in reporting the same error paths for both roots: every message carries the position recorded in its own root.",
    "level_text": "Necessary conditions: the numbers lark put on the tokens reach the dictionary and the messages unchanged and attached to the right key. That lark's numbers are the 1-based position of the token's first character under every layout is trusted, not decided.",
    "level_note": "Trusted: lark's Token.line / Token.column. Multi-line values and every concrete layout are outside what a static argument here can bound.",
    "technique": "abstract interpretation with symbolic position numbers (provenance of line/column through transformer and validator)",
}


def run(ctx: Ctx) -> None:
    e = models.env(ctx)
    repo = ctx.repo
    ctx.trusted += ["lark Token.line / Token.column are exact"]
    ctx.not_decided += ["exactness of lark's numbers for every token under every layout", "multi-line values"]
    X = xform.AbstractTransformer(e, include_position=True)
    lt = lambda name: repo.loc("transformer", repo.func(f"transformer.MapfileTransformer.{name}"))

    def tok(kind, text, tag):
        return models.token(kind, text, line=SNum.sym(f"L_{tag}", 1, None), column=SNum.sym(f"C_{tag}", 1, None))

    def lc(tag):
        return (SNum.sym(f"L_{tag}", 1, None), SNum.sym(f"C_{tag}", 1, None))

    # ---- Q1 ------------------------------------------------------------------------------------------
    ctx.rule("Q1", "create_position_dict: line <- key_token.line, column <- key_token.column, values <- positions of the flattened value tokens in order", 2)
    I = X.I
    k = tok("UNQUOTED_STRING", "KEY", "key")
    v1, v2, v3 = tok("SIGNED_INT", "1", "v1"), tok("SIGNED_INT", "2", "v2"), tok("SIGNED_INT", "3", "v3")
    outs = I.explore("transformer.MapfileTransformer.create_position_dict", lambda: (X.instance(), [k, [v1, (v2, v3)]], {}))
    d = outs[0].value if outs and outs[0].kind == "return" else {}
    good = d.get("line") == lc("key")[0] and d.get("column") == lc("key")[1] and d.get("values") == [lc("v1"), lc("v2"), lc("v3")]
    ctx.check(good, "Q1", "create_position_dict with values", lt("create_position_dict"), "", f"position dict is {dict(d)!r}")
    outs = I.explore("transformer.MapfileTransformer.create_position_dict", lambda: (X.instance(), [k, None], {}))
    d = outs[0].value if outs and outs[0].kind == "return" else {}
    ctx.check(d.get("line") == lc("key")[0] and d.get("column") == lc("key")[1] and "values" not in d, "Q1", "create_position_dict without values", lt("create_position_dict"), "", f"{dict(d)!r}")

    # ---- Q2 ------------------------------------------------------------------------------------------
    ctx.rule("Q2", "the position recorded for a keyword / block is that of its keyword token; composite() hoists each attribute's own position under its key", 9)

    def cb(label, children):
        outs = X.eval_callback(label, children)
        if len(outs) != 1 or outs[0].kind != "return":
            raise AnalysisError(f"{label} not evaluable with positions: {[(o.kind, o.exc, o.value) for o in outs]}")
        return outs[0].value

    def attr(word, tag, val_kind="DOUBLE_QUOTED_STRING"):
        kt = tok("UNQUOTED_STRING", SStr.atom("kw", lower_is=word), tag)
        vt = models.token(val_kind, xform.token_value(e.G, val_kind, 1), line=SNum.sym(f"L_{tag}_v", 1, None), column=SNum.sym(f"C_{tag}_v", 1, None))
        child = cb("string", lambda: [vt]) if val_kind.endswith("QUOTED_STRING") else vt
        return cb("attr", lambda: [kt, child])

    a = attr("name", "name")
    pd = a.get("__position__", {})
    ctx.check(pd.get("line") == lc("name")[0] and pd.get("column") == lc("name")[1] and pd.get("values") == [lc("name_v")], "Q2", "attr: keyword token position, value position", lt("attr"), "", f"{dict(pd)!r}")
    # multi-valued
    kt = tok("UNQUOTED_STRING", SStr.atom("kw", lower_is="color"), "color")
    ints = [cb("int", lambda i=i: [tok("SIGNED_INT", SStr.atom(f"n{i}", first=xform.DIGITS, last=xform.DIGITS, excludes=xform.NODELIM), f"c{i}")]) for i in range(3)]
    rgb = cb("rgb", lambda: list(ints))
    a3 = cb("attr", lambda: [kt, rgb])
    pd = a3.get("__position__", {})
    ctx.check(pd.get("line") == lc("color")[0] and pd.get("values") == [lc("c0"), lc("c1"), lc("c2")], "Q2", "attr with three values: value positions in source order", lt("attr"), "", f"{dict(pd)!r}")
    # composite
    a_name = attr("name", "name")
    a_type = attr("type", "type", "UNQUOTED_STRING")
    p1, p2 = attr("processing", "p1"), attr("processing", "p2")
    ct = [tok("LAYER", SStr.atom("kw", lower_is="layer"), "layer")]
    lyr = cb("composite", lambda: [ct, [a_name, p1, a_type, p2]])
    pd = lyr.get("__position__", {})
    good = pd.get("line") == lc("layer")[0] and pd.get("column") == lc("layer")[1]
    ctx.check(good, "Q2", "composite: own position is the block keyword's", lt("composite"), "", f"{ {k: v for k, v in pd.items() if k in ('line', 'column')} }")
    good = isinstance(pd.get("name"), dict) and pd["name"].get("line") == lc("name")[0] and isinstance(pd.get("type"), dict) and pd["type"].get("line") == lc("type")[0]
    ctx.check(good, "Q2", "composite: attribute positions hoisted under their own keys", lt("composite"), "", f"name -> {pd.get('name')!r}, type -> {pd.get('type')!r}")
    pr = pd.get("processing")
    ctx.check(isinstance(pr, list) and [x.get("line") for x in pr] == [lc("p1")[0], lc("p2")[0]], "Q2", "composite: repeated keyword positions as a list in source order", lt("composite"), "", f"{pr!r}")
    ctx.check(all(not (isinstance(k2, str) and k2 == "__tokens__") for k2 in lyr.keys()) and "__position__" not in a_name, "Q2", "composite: bookkeeping popped from attribute dicts", lt("composite"), "", f"layer keys {list(lyr.keys())}")
    # a keyword given twice: the value kept is the last one, so the position must be the last one's too
    d1, d2 = attr("name", "first"), attr("name", "second")
    lyr2 = cb("composite", lambda: [[tok("LAYER", SStr.atom("kw", lower_is="layer"), "layer2")], [d1, attr("type", "type2", "UNQUOTED_STRING"), d2]])
    pd2 = lyr2.get("__position__", {})
    ctx.check(isinstance(pd2.get("name"), dict) and pd2["name"].get("line") == lc("second")[0] and pd2["name"].get("column") == lc("second")[1], "Q2", "composite: a keyword given twice records the position of the occurrence whose value is kept", lt("composite"), "", f"NAME given twice: value of the second occurrence is kept but the recorded position is {pd2.get('name')!r} (second occurrence is at {lc('second')})")
    # key/value block
    sp = cb("string_pair", lambda: [cb("string", lambda: [tok("DOUBLE_QUOTED_STRING", SStr(['"', Atom("k", free=True), '"']), "mk")]), cb("string", lambda: [tok("DOUBLE_QUOTED_STRING", SStr(['"', Atom("v", free=True), '"']), "mv")])])
    md = cb("metadata", lambda: [tok("METADATA", SStr.atom("kw", lower_is="metadata"), "md"), sp, tok("_END", SStr.atom("kw", lower_is="end"), "mdend")])
    pd = md.get("__position__", {})
    ctx.check(pd.get("line") == lc("md")[0] and pd.get("values") == [lc("mk"), lc("mv")], "Q2", "METADATA: block keyword position, pair positions", lt("process_value_pairs"), "", f"{dict(pd)!r}")
    # projection / points
    pj = cb("projection", lambda: [tok("PROJECTION", SStr.atom("kw", lower_is="projection"), "pj"), cb("string", lambda: [tok("DOUBLE_QUOTED_STRING", SStr(['"', Atom("p", free=True), '"']), "pjv")]), tok("_END", SStr.atom("kw", lower_is="end"), "pjend")])
    pd = pj.get("__position__", {})
    ctx.check(pd.get("line") == lc("pj")[0] and pd.get("column") == lc("pj")[1], "Q2", "PROJECTION: keyword position", lt("projection"), "", f"{dict(pd)!r}")
    np_ = cb("num_pair", lambda: [cb("int", lambda: [tok("SIGNED_INT", SStr.atom("a", first=xform.DIGITS, last=xform.DIGITS, excludes=xform.NODELIM), "pa")]), cb("int", lambda: [tok("SIGNED_INT", SStr.atom("b", first=xform.DIGITS, last=xform.DIGITS, excludes=xform.NODELIM), "pb")])])
    pts = cb("points", lambda: [tok("POINTS", SStr.atom("kw", lower_is="points"), "pts"), np_, tok("_END", SStr.atom("kw", lower_is="end"), "ptsend")])
    pd = pts.get("__position__", {})
    ctx.check(pd.get("line") == lc("pts")[0] and pd.get("column") == lc("pts")[1], "Q2", "POINTS: keyword position", lt("process_pair_lists"), "", f"{dict(pd)!r}")
    ctx.check(pd.get("values") == [lc("pa")], "Q2", "POINTS: value positions start at the first number of the first pair", lt("process_pair_lists"), "", f"the value positions recorded for POINTS a b END are {pd.get('values')!r}; the first number stands at {lc('pa')}")

    # several POINTS blocks and several CONFIG lines inside one object: one position per block / per sub-key, in source order
    def pts_block(tag):
        npair = cb("num_pair", lambda: [cb("int", lambda: [tok("SIGNED_INT", SStr.atom(f"{tag}a", first=xform.DIGITS, last=xform.DIGITS, excludes=xform.NODELIM), f"{tag}a")]), cb("int", lambda: [tok("SIGNED_INT", SStr.atom(f"{tag}b", first=xform.DIGITS, last=xform.DIGITS, excludes=xform.NODELIM), f"{tag}b")])])
        return cb("points", lambda: [tok("POINTS", SStr.atom("kw", lower_is="points"), tag), npair, tok("_END", SStr.atom("kw", lower_is="end"), f"{tag}end")])

    for n_blocks in (1, 2, 3):
        tags = [f"pt{i}" for i in range(n_blocks)]
        feat = cb("composite", lambda tags=tags: [[tok("FEATURE", SStr.atom("kw", lower_is="feature"), "feat")], [pts_block(t_) for t_ in tags]])
        pp_ = feat.get("__position__", {}).get("points")
        got = [(x.get("line") if isinstance(x, dict) else x) for x in pp_] if isinstance(pp_, list) else ([pp_.get("line")] if isinstance(pp_, dict) else pp_)
        shape_ok = (isinstance(pp_, dict) if n_blocks == 1 else isinstance(pp_, list) and all(isinstance(x, dict) for x in pp_))
        ctx.check(shape_ok and got == [lc(t_)[0] for t_ in tags], "Q2", f"FEATURE with {n_blocks} POINTS block(s): one recorded position per block, in order", lt("composite"), "", f"a FEATURE with {n_blocks} POINTS block(s) at lines {[lc(t_)[0] for t_ in tags]} records the positions {pp_!r}")

    def cfg_line(tag):
        kt_ = tok("CONFIG", SStr.atom("kw", lower_is="config"), tag)
        ks = cb("string", lambda: [tok("DOUBLE_QUOTED_STRING", SStr(['"', f"key_{tag}", '"']), f"{tag}k")])
        vs = cb("string", lambda: [tok("DOUBLE_QUOTED_STRING", SStr(['"', Atom(f"v_{tag}", free=True), '"']), f"{tag}v")])
        return cb("config", lambda: [kt_, ks, vs])

    mp = cb("composite", lambda: [[tok("MAP", SStr.atom("kw", lower_is="map"), "map")], [cfg_line("c0"), cfg_line("c1")]])
    cp = mp.get("__position__", {}).get("config")
    good = isinstance(cp, dict) and {k_: (v_.get("line") if isinstance(v_, dict) else v_) for k_, v_ in cp.items()} == {"key_c0": lc("c0")[0], "key_c1": lc("c1")[0]}
    ctx.check(good, "Q2", "MAP with two CONFIG lines: one recorded position per sub-key", lt("composite"), "", f"two CONFIG lines at lines {lc('c0')[0]} and {lc('c1')[0]} record the positions {cp!r}")

    # ---- Q3 ------------------------------------------------------------------------------------------
    ctx.rule("Q3", "value-rewriting callbacks keep the token's position; expression builders return their first operand's token", 10)
    for lab, kind in (("int", "SIGNED_INT"), ("float", "SIGNED_FLOAT"), ("true", "TRUE"), ("false", "FALSE"), ("hexcolor", "DOUBLE_QUOTED_HEXCOLOR")):
        t0 = models.token(kind, xform.token_value(e.G, kind, 1), line=SNum.sym("L_t", 1, None), column=SNum.sym("C_t", 1, None))
        r = cb(lab, lambda: [t0])
        ctx.check(isinstance(r, SObj) and r.attrs.get("line") == lc("t")[0] and r.attrs.get("column") == lc("t")[1], "Q3", f"{lab} keeps line/column", lt(lab), "", f"{r!r}")
    for lab in ("add", "and_test", "or_test", "comparison"):
        x = tok("OPERAND", SStr.atom("X", free=True), "x")
        y = tok("OPERAND", SStr.atom("Y", free=True), "y")
        kids = [x, cb("compare_op", lambda: [X.fresh_token("EQUAL")]), y] if lab == "comparison" else [x, y]
        r = cb(lab, lambda kids=kids: list(kids))
        ctx.check(isinstance(r, SObj) and r.attrs.get("line") == lc("x")[0] and r.attrs.get("column") == lc("x")[1], "Q3", f"{lab} result carries its first operand's position", lt(lab), "", f"{r.attrs.get('line')!r}")
    ex = cb("expression", lambda: [tok("OPERAND", SStr.atom("X", free=True, excludes=frozenset("()\"'`")), "x")])
    ctx.check(ex.attrs.get("line") == lc("x")[0], "Q3", "expression keeps position", lt("expression"), "", "")

    # ---- Q6 line accounting of the lexer ---------------------------------------------------------------
    # ---- Q7 ------------------------------------------------------------------------------------------
    ctx.rule("Q7", "the text reaches the lexer with the line structure it was given: the include pre-pass (run by default on every load) cuts and re-joins the text with the same separator, so no line break is added or removed before positions are counted", 1)
    from .c15 import split_join_pairing

    li = repo.func("parser.Parser.load_includes")
    _, sep7, ok7, why7, where7 = split_join_pairing(li)
    ctx.check(ok7, "Q7", "load_includes: split / join", repo.loc("parser", where7), f"separator {sep7!r}", why7 + " - every line and column recorded after such a character is off")

    ctx.rule("Q6", "every terminal that can match a line break is one lark counts line breaks in (its pattern text shows a newline to lark), so tokens after it keep exact line numbers", 10)
    import re as _re

    G = e.G
    for t in G.terms.values():
        src = t.value if t.kind == "re" else _re.escape(t.value)
        can = _can_match_newline(src, t.flags)
        # lark.lexer._regexp_has_newline
        r = t.value if t.kind == "re" else _re.escape(t.value)
        if t.kind == "re" and t.flags:
            r = "(?%s:%s)" % ("".join(sorted(t.flags)), r)
        lark_counts = ("\n" in r) or ("\\n" in r) or ("\\s" in r) or ("[^" in r) or ("(?s" in r and "." in r)
        if can:
            ctx.check(lark_counts, "Q6", f"terminal {t.name}", "mappyfile/mapfile.lark", "line breaks inside it are counted", f"terminal {t.name} /{t.value}/ can match a line break but its pattern does not look like it to lark (no \\n, \\s, [^ or (?s .): line breaks inside such a token are not counted and every later position is off")
        else:
            ctx.ok("Q6", f"terminal {t.name}", "mappyfile/mapfile.lark", "cannot contain a line break", nontrivial=False)

    # ---- Q4 ------------------------------------------------------------------------------------------
    ctx.rule("Q4", "create_message reports the line / column recorded for the offending keyword, or the enclosing block's own position for object-level errors", 14)
    lcm = repo.loc("validator", repo.func("validator.Validator.create_message"))
    for path, what, key, holder_path, ptag in valmodel.SHAPES:
        o, root = valmodel.create_message(e, path)
        if o.kind != "return":
            ctx.ok("Q4", f"path shape {path}", lcm, f"raises {o.exc}: reported by C07 W5", nontrivial=False)
            continue
        line, col = o.value.get("line"), o.value.get("column")
        wl, wc = SNum.sym(f"line_{ptag}", 1, None), SNum.sym(f"col_{ptag}", 1, None)
        ctx.check(line == wl and col == wc, "Q4", f"path shape {path}", lcm, f"line {line}, column {col}", f"an error on a {what} (absolute_path {path}) is located at ({line}, {col}) but the position recorded for it is ({wl}, {wc})")
    # one Validator, several roots in one call: every message carries the position recorded in *its* root
    multi = [(["name"], "map_name"), (["layers", 0, "type"], "layer_type"), (["layers", 0], "layer"), (["size", 1], "map_size")]
    o, roots = valmodel.validate_roots(e, [p_ for p_, _ in multi], 2)
    lv = repo.loc("validator", repo.func("validator.Validator.validate"))
    if o.kind != "return" or not isinstance(o.value, list) or len(o.value) != 2 * len(multi):
        ctx.finding("Q4", "two roots in one validate() call", lv, f"validate([root0, root1]) with {len(multi)} errors per root gives {o.kind} {o.exc or ''} / {len(o.value) if isinstance(o.value, list) else o.value!r} message(s)")
    else:
        for r in range(2):
            for j, (p_, ptag) in enumerate(multi):
                m = o.value[r * len(multi) + j]
                wl, wc = SNum.sym(f"line_{ptag}_r{r}", 1, None), SNum.sym(f"col_{ptag}_r{r}", 1, None)
                ctx.check(m.get("line") == wl and m.get("column") == wc, "Q4", f"root {r} of two in one call, path {p_}", lv, f"line {m.get('line')}", f"validate([root0, root1]): the error at {p_} of root {r} is located at ({m.get('line')}, {m.get('column')}), but that root records ({wl}, {wc}) for it: the position of another root is reported")
    o, root = valmodel.create_message(e, ["name"], with_position=False)
    ctx.check(o.kind == "return" and "line" not in o.value, "Q4", "no position recorded: message without line/column", lcm, "", f"{o.value!r}")

    # ---- Q5 ------------------------------------------------------------------------------------------
    ctx.rule("Q5", "mappyfile validate prints the line and column of each message", 1)
    echoed: list = []
    from ..absval import HDict as _HD

    def validate_stub(I_, s, a, k):
        m = _HD()
        m.update({"error": SStr.atom("ERR"), "message": SStr.atom("MSG"), "line": SNum.sym("LINE", 1, None), "column": SNum.sym("COL", 1, None)})
        return [m]

    def sys_exit(fr, s, a, k):
        raise pai.PyExc("SystemExit", tuple(a))

    I5 = e.interp(stubs={"cli.get_mapfiles": lambda *a: ["f.map"], "utils.open": lambda *a: _HD(), "utils.validate": validate_stub, "ext:click.echo": lambda fr, s, a, k: echoed.append(a[0] if a else ""), "ext:click.format_filename": lambda fr, s, a, k: a[0], "ext:sys.exit": sys_exit, "global:cli.logger": SObj("Logger", {})}, allow_fork=False)
    I5.explore("cli.validate", lambda: (None, [None, ("f.map",), True, 8.2], {}))
    msgs = [m for m in echoed if isinstance(m, SStr)]
    good = any("str(LINE)" in m.describe() and "str(COL)" in m.describe() and m.describe().index("str(LINE)") < m.describe().index("str(COL)") and "<MSG>" in m.describe() and "<ERR>" in m.describe() and "Line" in m.describe() for m in msgs)
    ctx.check(good, "Q5", "cli.validate message line", repo.loc("cli", repo.func("cli.validate")), f"{[m.describe() for m in msgs][:1]}", f"the printed message does not carry file, line, column, message and error in that order: {[m.describe() for m in msgs]}")
    ctx.units["pai_paths"] = X.I.paths_run


def _can_match_newline(pattern: str, flags) -> bool:
    from ..grammar import sre_parse, sre_c
    import re as _re

    fl = 0
    if "s" in flags:
        fl |= _re.S
    if "i" in flags:
        fl |= _re.I
    tree = sre_parse.parse(pattern, fl)
    dotall = "s" in flags

    def walk(items) -> bool:
        for op, av in items:
            if op is sre_c.LITERAL and av in (10, 13):
                return True
            if op is sre_c.NOT_LITERAL and av not in (10,):
                return True
            if op is sre_c.ANY and dotall:
                return True
            if op is sre_c.IN:
                neg = any(o is sre_c.NEGATE for o, _ in av)
                has_nl = False
                for o, a in av:
                    if o is sre_c.LITERAL and a == 10:
                        has_nl = True
                    elif o is sre_c.RANGE and a[0] <= 10 <= a[1]:
                        has_nl = True
                    elif o is sre_c.CATEGORY:
                        nm = str(a)
                        if "SPACE" in nm and "NOT" not in nm:
                            has_nl = True
                        if "NOT_WORD" in nm or "NOT_DIGIT" in nm:
                            has_nl = True
                if has_nl != neg:
                    return True
            if op in (sre_c.MAX_REPEAT, sre_c.MIN_REPEAT) and walk(av[2]):
                return True
            if op is sre_c.SUBPATTERN and walk(av[-1]):
                return True
            if op is sre_c.BRANCH and any(walk(alt) for alt in av[1]):
                return True
        return False

    return walk(tree)
