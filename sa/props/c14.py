"""C14 - kept comments are verbatim, never invented or duplicated, and stay attached (necessary conditions)."""

from __future__ import annotations

import ast

from .. import models, pai, layout, xform
from ..absval import SStr, SNum, SObj, HDict, Atom
from ..core import AnalysisError, Ctx, norm
from ..pyfacts import dotted, calls_in

META = {
    "explanation": "The chain lexer token -> Parser.comments_dict -> node.meta.comments -> __comments__ -> printed text is evaluated link by link with PAI on comment texts that are opaque atoms, so 'verbatim' and 'at most once' are decided for all comment texts: (K1) Parser.parse stores value.strip() of every buffered comment token under its line and nothing else; (K2) _assign_comments, evaluated on a tree with nodes and comments at chosen line numbers, attaches each pending comment to the first following attr / composite / projection / string_pair node and removes it from the pending table (each comment attached exactly once, comments after the last node stay unattached); (K3) the CommentsTransformer callbacks and add_metadata_comments move meta.comments into __comments__ unchanged, METADATA pair comments under the pair's cleaned lower-cased key; composite() hoists attribute comments under the attribute's key; (K4) the printer writes a block's __type__ comments as whole lines directly above the opener at the opener's indentation, an attribute's comments at the end of that attribute's own line after one space, each comment text exactly once and unmodified, for objects and for METADATA / VALIDATION / CONNECTIONOPTIONS blocks; (K5) removing the comment pieces leaves exactly the lines of the comment-free output. K4 also prints the same commented dictionary twice (indent 2 and 0): the lines are the same and the __comments__ tables are left as they were.",
    "level_text": "Which node a comment ends up attached to depends on run-time line numbers of a concrete layout and is not decided in general; the clauses above are the structural necessary conditions (provenance, consumption once, placement templates). K2 evaluates the attachment rule itself on a small line-number scenario that covers before / between / after placements.",
    "level_note": "Trusted: lark reports comment tokens with their line; propagate_positions gives node.meta.line / end_line. The feature is documented as experimental: only the placements of docs/comments.rst are claimed.",
    "technique": "abstract interpretation of each link of the comment chain with opaque comment texts; placement templates from the printer model",
}


def C(name: str) -> SStr:
    return SStr(["# ", Atom(f"COMMENT_{name}", excludes=frozenset("\n"), free=True)])


def run(ctx: Ctx) -> None:
    e = models.env(ctx)
    repo = ctx.repo
    ctx.trusted += ["lark comment tokens carry their line", "propagate_positions sets meta.line / end_line"]
    ctx.not_decided += ["which node a comment is attached to under an arbitrary layout (depends on run-time line numbers)"]

    # ---- K1 ------------------------------------------------------------------------------------------
    ctx.rule("K1", "Parser.parse stores the stripped text of every buffered comment token under its line number", 1)
    holder = {}

    def meth(fr, recv, name, args, kwargs, node):
        if isinstance(recv, SObj) and recv.pytype == "Lark" and name in ("parse_interactive", "parse"):
            # the lexer callbacks fill the buffer while lark tokenises
            inst = holder["inst"]
            inst.attrs["_comments"].extend(holder["tokens"])
            return recv.attrs["_ip"] if name == "parse_interactive" else SObj("Tree", {"children": [], "data": "start", "meta": SObj("Meta", {})})
        if isinstance(recv, SObj) and recv.pytype == "InteractiveParser":
            if name == "iter_parse":
                return []
            if name == "resume_parse":
                return SObj("Tree", {"children": [], "data": "start", "meta": SObj("Meta", {})})
        return NotImplemented

    I = e.interp(stubs={"hook:method": meth}, allow_fork=False)
    raw1 = SStr(["# ", Atom("COMMENT_one", excludes=frozenset("\n"), free=True, last=models.ALNUM), "  "])
    raw2 = SStr(["/* ", Atom("COMMENT_two", free=True), " */"])

    def make():
        ip = SObj("InteractiveParser", {"parser_state": SObj("ParserState", {"value_stack": []})}, methods=("iter_parse", "resume_parse"))
        lalr = SObj("Lark", {"_ip": ip}, methods=("parse_interactive", "parse"))
        inst = models.new_parser(I, expand_includes=False, include_comments=True)
        inst.attrs["lalr"] = lalr
        inst.attrs["_comments"].append(models.token("COMMENT", SStr.atom("STALE"), line=99))  # left over from a previous parse
        holder["inst"] = inst
        holder["tokens"] = [models.token("COMMENT", raw1, line=2), models.token("CCOMMENT", raw2, line=5)]
        return inst, ["<text>"], {}

    # concrete representative first: interior runs of blanks, a tab and (in /* */) a line break are part of the
    # comment's text; only the whitespace around the whole comment goes
    sym = {"raw1": raw1, "raw2": raw2}
    raw1, raw2 = "#  name:   see\tticket 42  ", "/* primary   key\n   of the\ttable */"
    outs_c = I.explore("parser.Parser.parse", make)
    cd_c = holder["inst"].attrs.get("comments_dict")
    want_c = {2: raw1.strip(), 5: raw2}
    good_c = len(outs_c) == 1 and outs_c[0].kind == "return" and isinstance(cd_c, dict) and {k: (v if isinstance(v, str) else (v.describe() if hasattr(v, "describe") else repr(v))) for k, v in dict(cd_c).items()} == want_c
    ctx.check(good_c, "K1", "comment buffer -> comments_dict (texts with interior blanks, tab, line break)", repo.loc("parser", repo.func("parser.Parser.parse")), "interior whitespace kept", f"comments_dict = {cd_c!r}, expected {want_c!r}: the stored comment is not the source text (only surrounding whitespace may be stripped); outcome {outs_c[0].kind} {outs_c[0].exc or ''}")
    raw1, raw2 = sym["raw1"], sym["raw2"]
    try:
        outs = I.explore("parser.Parser.parse", make)
    except AnalysisError:
        if good_c:
            raise
        outs = outs_c  # the concrete representative already shows the comment text is rewritten
    cd = holder["inst"].attrs.get("comments_dict")
    want = {2: SStr(["# ", Atom("COMMENT_one", excludes=frozenset("\n"), free=True, last=models.ALNUM)]), 5: raw2}
    good = len(outs) == 1 and outs[0].kind == "return" and isinstance(cd, dict) and dict(cd) == want
    ctx.check(good, "K1", "comment buffer -> comments_dict", repo.loc("parser", repo.func("parser.Parser.parse")), "stripped text keyed by line; buffer of the previous parse discarded", f"comments_dict = {cd!r} (expected the two fresh comments, stripped, keyed by line; a stale comment of a previous parse must not appear); outcome {outs[0].kind} {outs[0].exc or ''}")

    # ---- K2 ------------------------------------------------------------------------------------------
    ctx.rule("K2", "_assign_comments attaches every pending comment exactly once, to the first commentable node at or after its line", 4)

    def node(data, line, children=(), end_line=None):
        return SObj("Tree", {"data": data, "children": list(children), "meta": SObj("Meta", {"line": line, "end_line": end_line or line})})

    def scenario():
        a1 = node("attr", 4)
        a2 = node("attr", 6)
        proj = node("projection", 8, end_line=10)
        sp = node("string_pair", 13)
        md = node("metadata", 12, [models.token("METADATA", "METADATA"), sp], end_line=14)
        mdc = node("composite", 12, [md], end_line=14)
        body = node("composite_body", 4, [a1, a2, proj, mdc])
        # an empty block: lark gives its body a Meta without line information
        empty_body = SObj("Tree", {"data": "composite_body", "children": [], "meta": SObj("Meta", {"empty": True})})
        empty = node("composite", 16, [node("composite_type", 16), empty_body], end_line=16)
        comp = node("composite", 3, [node("composite_type", 3), body], end_line=15)
        root = node("start", 3, [comp, empty])
        return root, {"comp": comp, "a1": a1, "a2": a2, "proj": proj, "mdc": mdc, "sp": sp, "body": body}

    # every scenario goes through Parser.parse (lark replaced by a stub that hands back the scenario's tree and
    # fills the comment buffer), on a parser built by the real constructor: whatever state parse() prepares
    # for the attachment pass exists
    def scenario_b():
        # the last comments of the document stand between a block's opener and its first item; nothing follows
        a1 = node("attr", 6)
        a2 = node("attr", 7)
        body = node("composite_body", 6, [a1, a2])
        comp = node("composite", 3, [node("composite_type", 3), body], end_line=8)
        root = node("start", 3, [comp])
        return root, {"comp": comp, "a1": a1, "a2": a2, "body": body}

    scenarios = [
        ("comments before, between, inside and after blocks", scenario, {1: "l1", 2: "l2", 5: "l5", 9: "l9", 11: "l11", 13: "l13", 20: "l20"}, {"comp": ["l1", "l2"], "a1": None, "a2": ["l5"], "proj": ["l9"], "mdc": ["l11"], "sp": ["l13"], "body": None}, [20]),
        ("the last comments stand between a block opener and its first item", scenario_b, {4: "m4", 5: "m5"}, {"comp": None, "a1": ["m4", "m5"], "a2": None, "body": None}, []),
    ]
    # comment text as the lexer delivers it: no blank at either end, so that stripping leaves it as it is
    Cs = lambda tag: SStr(["# ", Atom(f"COMMENT_{tag}", excludes=frozenset("\n"), free=True, nonempty=True, last=models.ALNUM)])
    lac = repo.loc("parser", repo.func("parser.Parser._assign_comments"))
    for sname, mk_scn, comment_lines, want_tags, pending_after in scenarios:
        h: dict = {}

        def meth2(fr, recv, name, args, kwargs, node_, h=h, comment_lines=comment_lines):
            if isinstance(recv, SObj) and recv.pytype == "Lark" and name in ("parse_interactive", "parse"):
                h["inst"].attrs["_comments"].extend(models.token("COMMENT", Cs(tag), line=ln) for ln, tag in comment_lines.items())
                return recv.attrs["_ip"] if name == "parse_interactive" else h["root"]
            if isinstance(recv, SObj) and recv.pytype == "InteractiveParser":
                if name == "iter_parse":
                    return []
                if name == "resume_parse":
                    return h["root"]
            return NotImplemented

        def lark_open(fr, so, a, k):
            ip = SObj("InteractiveParser", {"parser_state": SObj("ParserState", {"value_stack": []})}, methods=("iter_parse", "resume_parse"))
            return SObj("Lark", {"_ip": ip}, methods=("parse_interactive", "parse"))

        I2 = e.interp(stubs={"hook:method": meth2, "ext:lark.Lark": pai.ModRef("ext:lark.Lark"), "ext:lark.Lark.open": lark_open, "global:parser.lark_cython": None}, allow_fork=False, max_depth=30)

        def make2(h=h, mk_scn=mk_scn):
            h["root"], h["nodes"] = mk_scn()
            h["inst"] = I2.instantiate("parser.Parser", [], {"expand_includes": False, "include_comments": True})
            return h["inst"], ["<text>"], {}

        outs = I2.explore("parser.Parser.parse", make2)
        if len(outs) != 1 or outs[0].kind != "return":
            ctx.finding("K2", f"attachment: {sname}", lac, f"Parser.parse raises {outs[0].exc}{outs[0].value} on the scenario")
            continue
        nd = h["nodes"]
        strip = lambda c: c  # comments are stored stripped; C() atoms have no surrounding blanks
        got = {k: nd[k].attrs["meta"].attrs.get("comments") for k in nd}
        want = {k: ([Cs(t) for t in v] if v is not None else None) for k, v in want_tags.items()}
        ctx.check(got == want, "K2", f"attachment: {sname}", lac, "block <- comments above it; attribute <- comments since the previous node; projection <- comments inside; pair <- its line", f"attachments {got}, expected {want}: a comment is attached to the wrong node or to none (and is then lost on output)")
        allc = [c for v in got.values() if v for c in v]
        ctx.check(len(allc) == len(set(map(repr, allc))), "K2", f"no comment attached twice: {sname}", lac, "", f"{allc}")
        cd = h["inst"].attrs.get("comments_dict")
        ctx.check(isinstance(cd, dict) and list(cd.keys()) == pending_after, "K2", f"attached comments leave the pending table: {sname}", lac, "", f"pending after the pass: {list(cd.keys()) if isinstance(cd, dict) else cd}")
        ctx.check(all(repr(c).count("COMMENT_") == 1 for c in allc), "K2", f"comment text unchanged: {sname}", lac, "", "")

    # ---- K3 ------------------------------------------------------------------------------------------
    ctx.rule("K3", "CommentsTransformer / add_metadata_comments / composite() move comments into __comments__ unchanged under the right key", 3)

    def main_transform(fr, self_obj, args, kwargs):
        return args[0].attrs["_main_result"]()

    I3 = e.interp(stubs={"ext:Transformer.transform": main_transform}, allow_fork=False)

    def ctinst():
        # through the real constructor, so that the attribute holding the main transformer may be renamed
        return I3.instantiate("transformer.CommentsTransformer", [I3.instantiate("transformer.MapfileTransformer", [], {"include_comments": True})], {})

    def pair(keytext, comments, quoted=True):
        if quoted:
            key_child = SObj("Tree", {"data": "string", "children": [models.token("DOUBLE_QUOTED_STRING", keytext)], "meta": SObj("Meta", {})})
        else:
            key_child = models.token("UNQUOTED_STRING", keytext)
        m = {"line": 2}
        if comments is not None:
            m["comments"] = comments
        return SObj("Tree", {"data": "string_pair", "children": [key_child, models.token("DOUBLE_QUOTED_STRING", '"v"')], "meta": SObj("Meta", m)})

    sp1 = pair('"WMS_Title"', [C("p1")])
    sp2 = pair("ows_enable", None, quoted=False)
    mdtree = SObj("Tree", {"data": "metadata", "children": [models.token("METADATA", "METADATA"), sp1, sp2, models.token("_END", "END")], "meta": SObj("Meta", {})})
    tree = SObj("Tree", {"data": "composite", "children": [mdtree], "meta": SObj("Meta", {"comments": [C("block")]}), "_main_result": lambda: layout.cdict([("__type__", "metadata"), ("wms_title", "v"), ("ows_enable", "v")])})
    outs = I3.explore("transformer.CommentsTransformer.composite", lambda: (ctinst(), [tree], {}))
    o = outs[0]
    com = o.value.get("__comments__") if o.kind == "return" else None
    good = isinstance(com, dict) and com.get("__type__") == [C("block")] and com.get("wms_title") == [C("p1")] and com.get("ows_enable") == []
    ctx.check(good, "K3", "METADATA: block comment under __type__, pair comments under the cleaned lower-cased key", repo.loc("transformer", repo.func("transformer.CommentsTransformer.add_metadata_comments")), "", f"__comments__ = {com!r} / {o.exc}")
    # attr + composite hoist
    X = xform.AbstractTransformer(e, include_comments=True)
    kt = models.token("UNQUOTED_STRING", SStr.atom("kw", lower_is="name"))
    a = X.eval_callback("attr", lambda: [kt, X.eval_callback("string", lambda: [X.fresh_token("DOUBLE_QUOTED_STRING")])[0].value])[0].value
    a["__comments__"] = [C("attr")]
    lyr = X.eval_callback("composite", lambda: [[models.token("LAYER", SStr.atom("kw", lower_is="layer"))], [a]])[0].value
    ctx.check(isinstance(lyr.get("__comments__"), dict) and lyr["__comments__"].get("name") == [C("attr")], "K3", "composite(): attribute comment hoisted under the attribute's key", repo.loc("transformer", repo.func("transformer.MapfileTransformer.composite")), "", f"{lyr.get('__comments__')!r}")
    outs = I3.explore("transformer.CommentsTransformer.get_comments", lambda: (ctinst(), [SObj("Meta", {"comments": [C("x"), C("y")]})], {}))
    ctx.check(outs[0].value == [C("x"), C("y")], "K3", "get_comments returns meta.comments unchanged, in order", repo.loc("transformer", repo.func("transformer.CommentsTransformer.get_comments")), "", f"{outs[0].value!r}")

    # ---- K4 / K5 ---------------------------------------------------------------------------------------
    ctx.rule("K4", "block comments are whole lines directly above the opener; attribute comments end their attribute's line after one space; every comment is written exactly once, unmodified", 6)
    ctx.rule("K5", "without the comment pieces the output equals the comment-free output", 2)
    L = layout.Layout(e)
    W = layout.word
    cd = layout.cdict

    def with_comments():
        md = cd([("__type__", "metadata"), ("__comments__", HDict({"__type__": [C("md_block")], "akey": [C("md_pair")]})), ("akey", W("v"))])
        cls = cd([("__type__", "class"), ("__comments__", HDict({"__type__": [C("cls1"), C("cls2")], "name": [C("cname")], "status": [C("cstatus")]})), ("name", W("cn")), ("status", SStr.atom("enumword3", lower_is="off"))])
        # STATUS and GROUP stand after the nested blocks: their comments belong to the LAYER's own lines
        return cd([("__type__", "layer"), ("__comments__", HDict({"__type__": [C("layer")], "name": [C("name")], "type": [C("t1"), C("t2")], "status": [C("lstatus")], "group": [C("lgroup")]})), ("name", W("n")), ("type", SStr.atom("enumword", lower_is="point")), ("metadata", md), ("classes", [cls]), ("status", SStr.atom("enumword2", lower_is="on")), ("group", W("g"))])

    def without_comments():
        md = cd([("__type__", "metadata"), ("akey", W("v"))])
        cls = cd([("__type__", "class"), ("name", W("cn")), ("status", SStr.atom("enumword3", lower_is="off"))])
        return cd([("__type__", "layer"), ("name", W("n")), ("type", SStr.atom("enumword", lower_is="point")), ("metadata", md), ("classes", [cls]), ("status", SStr.atom("enumword2", lower_is="on")), ("group", W("g"))])

    opts = lambda: L.sym_options(end_comment=False, indent=2, spacer=" ", newlinechar="\n")
    all_outs = L.format_lines(with_comments, opts, level=0, fork=True)
    base = L.format_lines(without_comments, opts, level=0, fork=False)
    locp = repo.loc("pprint", repo.func(models.fmt_qual(repo)))
    if len(all_outs) > 1:
        ctx.finding("K4", "printing depends on properties of the comment text", locp, f"the printer takes {len(all_outs)} different paths depending on the comment text: {[a_ for a_, _, _ in all_outs][:3]}")
    outs = all_outs[:1]
    if outs[0][1] != "return" or base[0][1] != "return":
        raise AnalysisError(f"_format with comments not evaluable: {outs[0][2]}")
    lines = [pai.as_sstr(x) for x in outs[0][2]]
    texts = [x.describe() for x in lines]
    # each comment once
    names = ["layer", "name", "t1", "t2", "md_block", "md_pair", "cls1", "cls2", "cname", "cstatus", "lstatus", "lgroup"]
    counts = {n: sum(t.count(f"<COMMENT_{n}>") for t in texts) for n in names}
    ctx.check(all(v == 1 for v in counts.values()), "K4", "every comment written exactly once", locp, "", f"occurrences {counts}")
    mod = [a.describe() for a in layout.atoms_in(lines) if a.name.startswith("COMMENT") and a.ops]
    ctx.check(not mod, "K4", "comment text unmodified", locp, "", f"comment text is transformed: {mod}")

    def idx(prefix):
        for i, t in enumerate(texts):
            if t.strip().startswith(prefix):
                return i
        return -1

    i_layer = idx("LAYER")
    ctx.check(i_layer >= 1 and texts[i_layer - 1].strip() == "# <COMMENT_layer>", "K4", "LAYER comment directly above the opener", locp, "", f"lines around LAYER: {texts[max(0, i_layer - 2) : i_layer + 1]}")
    i_cls = idx("CLASS")
    flat_before = [x.strip() for t in texts[max(0, i_cls - 2) : i_cls] for x in t.split("\\n")][-2:]
    ctx.check(i_cls >= 1 and flat_before == ["# <COMMENT_cls1>", "# <COMMENT_cls2>"], "K4", "two CLASS comments, in order, directly above the nested opener", locp, "", f"lines before CLASS: {texts[max(0, i_cls - 3) : i_cls + 1]}")
    i_md = idx("METADATA")
    ctx.check(i_md >= 1 and texts[i_md - 1].strip() == "# <COMMENT_md_block>", "K4", "METADATA block comment directly above its opener", locp, "", f"lines before METADATA: {texts[max(0, i_md - 2) : i_md + 1]}")
    ctx.check(any(t == '  NAME "<n>" # <COMMENT_name>' for t in texts), "K4", "attribute comment at the end of its attribute's line", locp, "", f"{[t for t in texts if 'COMMENT_name' in t]}")
    ctx.check(any(t == "  TYPE POINT # <COMMENT_t1> # <COMMENT_t2>" for t in texts), "K4", "several comments of one attribute joined on its line, in order", locp, "", f"{[t for t in texts if 'COMMENT_t1' in t]}")
    ctx.check(any(t == '    "akey" "<v>" # <COMMENT_md_pair>' for t in texts), "K4", "METADATA pair comment at the end of the pair's line", locp, "", f"{[t for t in texts if 'md_pair' in t]}")
    ctx.check(any(t == "    STATUS OFF # <COMMENT_cstatus>" for t in texts), "K4", "comment of a keyword inside the nested CLASS stays on that line", locp, "", f"{[t for t in texts if 'STATUS' in t]}")
    ctx.check(any(t == "  STATUS ON # <COMMENT_lstatus>" for t in texts) and any(t == '  GROUP "<g>" # <COMMENT_lgroup>' for t in texts), "K4", "comments of keywords written after a nested block stay on their own lines", locp, "", f"the LAYER keywords STATUS / GROUP that follow the CLASS block are written as {[t for t in texts if 'STATUS' in t or 'GROUP' in t]}: their comments are lost or taken from the nested block")
    # K5

    def strip_comments(ls):
        out = []
        for s in ls:
            for part in SStr(s.pieces).describe().split("\\n"):
                t = part
                if "# <COMMENT" in t:
                    t = t[: t.index("# <COMMENT")].rstrip()
                if t.strip():
                    out.append(t)
        return out

    a, b = strip_comments(lines), strip_comments([pai.as_sstr(x) for x in base[0][2]])
    ctx.check(a == b, "K5", "LAYER with comments vs without", locp, f"{len(b)} lines", f"with comments removed {a} != comment-free output {b}")
    # K4 (history): the same commented dictionary printed again - nothing accumulates in its comment tables
    def snap_comments(d, acc=None):
        acc = [] if acc is None else acc
        if isinstance(d, dict):
            for k, v in d.items():
                if k == "__comments__" and isinstance(v, dict):
                    acc.append([(ck, [pai.as_sstr(x).describe() if isinstance(x, (str, SStr)) else repr(x) for x in (cv if isinstance(cv, list) else [cv])]) for ck, cv in v.items()])
                else:
                    snap_comments(v, acc)
        elif isinstance(d, list):
            for x in d:
                snap_comments(x, acc)
        return acc

    for ind in (2, 0):
        shared = with_comments()
        before = snap_comments(shared)
        o2 = lambda ind=ind: L.sym_options(end_comment=False, indent=ind, spacer=" ", newlinechar="\n")
        first = L.format_lines(lambda: shared, o2, level=0, fork=False)
        after = snap_comments(shared)
        second = L.format_lines(lambda: shared, o2, level=0, fork=False)
        if len(first) != 1 or len(second) != 1 or first[0][1] != "return":
            raise AnalysisError(f"_format with comments not evaluable at indent {ind}")
        same = second[0][1] == "return" and [pai.as_sstr(x) for x in first[0][2]] == [pai.as_sstr(x) for x in second[0][2]]
        ctx.check(after == before, "K4", f"printing leaves the comment tables as they were (indent={ind})", locp, "", f"after one dumps() the __comments__ tables hold {after} instead of {before}: what was printed is stored back into the dictionary")
        ctx.check(same, "K4", f"a second print of the same dictionary writes the same lines (indent={ind})", locp, "", f"the second print of the same commented dictionary differs from the first ({len(first[0][2])} vs {len(second[0][2]) if second[0][1] == 'return' else second[0][2]} lines): comments are written twice")
    # comments start with the source's own marker: the printer adds none
    ctx.check(all(("# <COMMENT" in t) or ("COMMENT" not in t) for t in texts), "K5", "the printer adds no marker of its own", locp, "", "")
