"""C04 - formatting is a deterministic normal form (idempotent)."""

from __future__ import annotations

import ast

from .. import models, printer, roundtrip, xform
from ..absval import SStr, Atom, SObj
from ..core import AnalysisError, Ctx, norm
from ..pyfacts import dotted, calls_in
from .c10 import is_wrapped

from ..pai import as_sstr as pai_as

META = {
    "explanation": "Necessary conditions of idempotence and determinism, decided on the vocabulary: (N1) the abstract round trip of C01 is applied twice - for every (type, keyword, value class, quote) the value read back from the printed text is printed again and the second template must be identical to the first (enum words are upper-cased once, numbers, strings, bindings, lists unchanged); (N2) the expression normal form is a fixed point: every builder result that is enclosed by its own parentheses is returned unchanged by expression(), and NOT / arithmetic forms re-wrapped once give the same string when re-read; (N3) escape_quotes, evaluated on symbolic quoted strings, is the identity without interior quotes, escapes an interior quote exactly once and is idempotent on its own result; (N4) determinism: no iteration over sets, no hash/id/random/time/environment reads on the load and print call graphs.",
    "level_text": "Idempotence is decided per cell of the finite (type x keyword x value class x quote) table and per expression builder - every document is a composition of these cells. Byte identity of whole documents under all option sets is not decided (needs the documents); these are the conditions whose violation breaks it.",
    "level_note": "Trusted: Python string and dict semantics are deterministic; insertion-ordered dicts (C17). Strings containing quote characters or backslashes are covered only by the ordering rule N3.",
    "technique": "double application of the abstract print/parse round trip + fixed-point check of expression builders (PAI) + def-use ordering rule + call-graph scan for nondeterminism sources",
}

NONDET = ("random.", "time.", "datetime.", "uuid.", "os.environ", "os.getenv", "secrets.", "os.urandom")


def run(ctx: Ctx) -> None:
    e = models.env(ctx)
    repo, S, G, facts = ctx.repo, e.S, e.G, e.facts
    ctx.trusted += ["CPython string / dict determinism"]
    ctx.not_decided += ["byte identity of whole documents under every option set"]
    RT = roundtrip.RoundTrip(e)
    loc = repo.loc("pprint", repo.func("pprint.PrettyPrinter.format_value"))
    from .c19 import special_block_rules

    special_keys = set(special_block_rules(G)) | set(repo.const("tokens", "REPEATED_KEYS"))

    ctx.rule("N1", "printing the value read back from printed text gives the same text again, for every slot x value class x quote", 1000)
    n = 0
    for t in S.types():
        if t == "symbolset":
            continue
        for k, node in sorted(S.slots(t).items()):
            if k in special_keys:
                continue
            for vc in printer.classes_for(S, t, k, node):
                if vc.expect == "RAISE":
                    continue
                for q in ('"', "'"):
                    kind, tmpl = RT.PM.value_template(t, k, vc, q)
                    if kind != "line":
                        continue  # C03 reports it
                    toks = RT.tokens_of(tmpl, q, vc)
                    construct = f"{t}.{k} | {vc.name}"
                    if toks == roundtrip.DELEGATED:
                        ctx.ok("N1", construct, loc, "verbatim expression text: fixed point decided by N2", nontrivial=False)
                        continue
                    okk, why, kinds = RT.accepted(t, k, toks)
                    if not okk:
                        continue  # C01 reports it
                    back = RT.reparse_value(k, toks, kinds)
                    vc2 = printer.VClass(vc.name, lambda q2, back=back: back, vc.expect)
                    kind2, tmpl2 = RT.PM.value_template(t, k, vc2, q)
                    n += 1
                    same = kind2 == "line" and tmpl2 == tmpl
                    ctx.check(same, "N1", construct, loc, f"quote {q}: {tmpl.describe()} twice", f"quote {q}: first pass writes {tmpl.describe()!r}, formatting the re-read value writes {tmpl2.describe() if isinstance(tmpl2, SStr) else tmpl2!r}")
    ctx.units["cells_printed_twice"] = n

    # ---- N2 ------------------------------------------------------------------------------------------
    ctx.rule("N2", "expression normal form is a fixed point: expression() returns builder results that are already enclosed by their own parentheses unchanged, and wraps the others exactly once", 8)
    X = xform.AbstractTransformer(e)

    def bind(nm):
        w = models.token("UNQUOTED_STRING", nm)  # concrete representative name
        return X.call1("attr_bind", lambda: [w])

    def opt(term):
        return X.call1("compare_op", lambda: [X.fresh_token(term)])

    builders = {
        "comparison": lambda: X.call1("comparison", lambda: [bind("a"), opt("EQUAL"), bind("b")]),
        "and_test": lambda: X.call1("and_test", lambda: [bind("a"), bind("b")]),
        "or_test": lambda: X.call1("or_test", lambda: [bind("a"), bind("b")]),
        "add": lambda: X.call1("add", lambda: [bind("a"), bind("b")]),
        "mul": lambda: X.call1("mul", lambda: [bind("a"), bind("b")]),
        "neg": lambda: X.call1("neg", lambda: [bind("a")]),
        "not_expression": lambda: X.call1("not_expression", lambda: [X.eval_callback("expression", lambda: [builders["comparison"]()])[0].value]),
        "comparison with a \"..)..\" literal": lambda: X.call1("comparison", lambda: [bind("a"), opt("EQUAL"), models.token("DOUBLE_QUOTED_STRING", '"a)"')]),
        "comparison with a '..(..' literal": lambda: X.call1("comparison", lambda: [bind("a"), opt("EQUAL"), models.token("SINGLE_QUOTED_STRING", "'(a'")]),
        "comparison with a `..)..` literal": lambda: X.call1("comparison", lambda: [bind("a"), opt("EQUAL"), models.token("ESCAPED_STRING", "`a)`")]),
        "sum of two literals `(` + `)`": lambda: X.call1("add", lambda: [models.token("ESCAPED_STRING", "`(`"), models.token("ESCAPED_STRING", "`)`")]),
        "func_call": lambda: X.call1("func_call", lambda: [models.token("UNQUOTED_STRING", "tostring"), "[a],1"]),
    }
    lx = repo.loc("transformer", repo.func("transformer.MapfileTransformer.expression"))
    for name, mk in builders.items():
        first = X.eval_callback("expression", lambda mk=mk: [mk()])
        if len(first) != 1 or first[0].kind != "return":
            raise AnalysisError(f"expression({name}) not evaluable")
        v1 = first[0].value.attrs["value"]
        # re-reading v1: its outer parentheses are an `expression` node around the same builder
        # node, so the text is stable iff expression(expression(builder)) == expression(builder)
        second = X.eval_callback("expression", lambda mk=mk: [X.eval_callback("expression", lambda: [mk()])[0].value])
        v2 = second[0].value.attrs["value"] if second and second[0].kind == "return" else None
        ctx.check(v2 == v1 and is_wrapped(v1), "N2", f"expression({name}) re-read", lx, f"{v1.describe() if isinstance(v1, SStr) else v1}", f"normal form of ({name}) is {v1!r}, but formatting its re-read gives {v2!r}")

    # ---- N3 ------------------------------------------------------------------------------------------
    ctx.rule("N3", "escape_quotes (evaluated): identity on a quoted string without interior quotes, escapes an interior quote once, and is idempotent on its own result", 6)
    eq = repo.func("quoter.Quoter.escape_quotes")
    I = e.interp(allow_fork=False)
    noq = frozenset("\"'\\")
    for q in ('"', "'"):
        a, b = Atom("a", nonempty=True, excludes=noq), Atom("b", nonempty=True, excludes=noq)
        body = Atom("s", nonempty=False, excludes=noq)

        def esc(value, q=q):
            outs = I.explore("quoter.Quoter.escape_quotes", lambda: (I.instantiate("quoter.Quoter", [q], {}), [value], {}))
            if len(outs) != 1 or outs[0].kind != "return":
                raise AnalysisError(f"escape_quotes not evaluable on {value!r}: {[(o.kind, o.exc) for o in outs]}")
            return outs[0].value

        plain = SStr([q, body, q])
        ctx.check(esc(plain) == plain, "N3", f"escape_quotes on a string without interior quotes (quote {q})", repo.loc("quoter", eq), "identity", f"escape_quotes({q}<s>{q}) = {esc(plain)!r}")
        inner = SStr([q, a, q, b, q])
        once = esc(inner)
        want = SStr([q, a, "\\" + q, b, q])
        ctx.check(once == want, "N3", f"an interior quote is escaped once (quote {q})", repo.loc("quoter", eq), want.describe(), f"escape_quotes({inner.describe()}) = {once!r}, expected {want.describe()!r}")
        twice = esc(once) if isinstance(once, (SStr, str)) else None
        ctx.check(twice == once, "N3", f"an already escaped quote gains nothing on a second pass (quote {q})", repo.loc("quoter", eq), "idempotent", f"escape_quotes applied to its own result {once!r} gives {twice!r}: escaped quotes gain a backslash on every pass")
    # ---- N5 ------------------------------------------------------------------------------------------
    ctx.rule("N5", "a line break inside a quoted value is written as it is, whatever newlinechar is and whichever line break the value holds (LF, or the CR LF a previous pass with newlinechar CR LF put between lines): formatting the formatted text again cannot grow or change it", 4)
    from .. import layout as _layout

    L = _layout.Layout(e)
    locp = repo.loc("pprint", repo.func("pprint.PrettyPrinter.pprint"))
    nonl = frozenset("\n\r\"'")
    for nl in ("\n", "\r\n"):
        for inner in ("\n", "\r\n"):
            def multi(inner=inner):
                v = SStr([Atom("l1", nonempty=True, excludes=nonl, free=True), inner, Atom("l2", nonempty=True, excludes=nonl, free=True)])
                return _layout.cdict([("__type__", "layer"), ("name", _layout.word("n")), ("data", v)])

            outs = L.pprint_text(multi, lambda nl=nl: L.sym_options(end_comment=False, indent=2, spacer=" ", newlinechar=nl), fork=False)
            if len(outs) != 1:
                raise AnalysisError("pprint forks on a multi-line value")
            if outs[0][1] != "return":
                ctx.finding("N5", f"newlinechar {nl!r}, value holding {inner!r}", locp, f"pprint raises {outs[0][2]}")
                continue
            ps = list(pai_as(outs[0][2]).pieces)
            between = [ps[i + 1] for i in range(len(ps) - 2) if isinstance(ps[i], Atom) and ps[i].name == "l1" and isinstance(ps[i + 2], Atom) and ps[i + 2].name == "l2"]
            ctx.check(between == [inner], "N5", f"newlinechar {nl!r}, value holding {inner!r}", locp, "line break inside the value unchanged", f"with newlinechar {nl!r} a value holding the line break {inner!r} is written with {between!r} in its place: each formatting pass changes the value again")

    # ---- N4 ------------------------------------------------------------------------------------------
    ctx.rule("N4", "no nondeterminism source on the load / print call graphs (set iteration, hash, id, random, time, environment)", 30)
    reach = facts.reachable(["utils.loads", "utils.dumps", "utils.open", "utils.load", "utils.dump", "utils.save", "pprint.PrettyPrinter.pprint", "transformer.MapfileToDict.transform"])
    for q in sorted(reach):
        fn = repo.func(q)
        bad = []
        for c in calls_in(fn):
            d = dotted(c.func) or ""
            if d in ("hash", "id") or d.startswith(NONDET):
                bad.append(norm(c)[:50])
        for n2 in ast.walk(fn):
            if isinstance(n2, ast.Attribute) and (dotted(n2) or "").startswith("os.environ"):
                bad.append("os.environ")
            if isinstance(n2, (ast.For, ast.comprehension)):
                it = n2.iter
                if isinstance(it, ast.Call) and dotted(it.func) in ("set", "frozenset"):
                    bad.append("iteration over " + norm(it)[:40])
                if isinstance(it, (ast.Set, ast.SetComp)):
                    bad.append("iteration over a set display")
                if isinstance(it, ast.Name) and it.id in ("SINGLETON_COMPOSITE_NAMES", "COMPOSITE_NAMES", "OBJECT_LIST_KEYS", "COMPLEX_TYPES", "SYMBOL_ATTRIBUTES", "ATTRIBUTE_NAMES"):
                    bad.append("iteration over the set " + it.id)
        from ..pyfacts import unordered_iterations

        bad += [b_ for b_ in unordered_iterations(repo, q, fn) if b_ not in bad]
        ctx.check(not bad, "N4", q, repo.loc(q.split(".")[0], fn), "deterministic", f"{q}: {bad}: the same dictionary and options could produce different text")
