"""C19 - grammar, keyword tables and schemas describe one vocabulary (exhaustive table agreement)."""

from __future__ import annotations

import ast
import functools

from .. import models
from ..absval import SStr
from ..core import AnalysisError, Ctx, fold, norm
from ..grammar import Star, seq_str

META = {
    "explanation": "Exhaustive agreement of the four vocabulary tables, decided from source text: block types of the compiled grammar vs schema files vs tokens.py tables (V1,V9), singleton/plural storage of every parent->child schema edge vs SINGLETON_COMPOSITE_NAMES / OBJECT_LIST_KEYS / the evaluated plural() (V3), REPEATED_KEYS vs repeated array-of-string keywords (V4), SYMBOL_ATTRIBUTES vs symbol.json (V5), every (type, keyword, value alternative, position first/middle/last) fed as terminal names to the LALR table with the contextual lexer's word classification and the PAI-evaluated interactive retagging of Parser.parse (V6), no block-level LALR conflict (G1), every schema default valid for its own node (V7), the printer writes every keyword-introduced block in its rule's shape (evaluated), COMPLEX_TYPES vs grammar block rules (V8), every listed alternative validates for its keyword (V9). (V10) Validator.validate, evaluated with recording stand-ins for the jsonschema validator classes and validator_for, builds a Draft4Validator for every root type with and without a version - the schema files are read by one draft everywhere.",
    "level_text": "Exhaustive enumeration of a finite product (20 types x 326 keyword slots x value alternatives x 3 positions; all LALR conflicts; all defaults): each obligation is decided on the compiled grammar / schema data / constant-folded tables of the current tree. This is the right level because C19 quantifies over a finite vocabulary - enumeration is a complete decision, not a sample.",
    "level_note": "Trusted: lark 1.3.1 LALR construction and contextual-lexer rules as re-implemented for whole words (terminal order, 'unless' re-typing), Draft-4 semantics of jsonschema for V7. Values are represented by terminal kinds, one canonical representative per schema alternative; lexer-level behaviour inside a value token is not examined.",
    "technique": "static table agreement: compiled-grammar LALR queries on terminal-name sequences + JSON-schema slot enumeration + AST constant folding + abstract interpretation of plural()/retagging",
    "design_ref": "DESIGN.md section 3 C19, section 2 E4/E5",
}

KV_BLOCKS = ("metadata", "validation", "values", "connectionoptions")


def grammar_block_types(G) -> dict[str, str]:
    """lower-case type word -> terminal name, from the alternatives of composite_type."""
    out = {}
    for r in G.by_origin.get("composite_type", []):
        if len(r.expansion) != 1 or not r.expansion[0][1]:
            raise AnalysisError(f"composite_type alternative not a single terminal: {r}")
        t = G.terms[r.expansion[0][0]]
        if t.kind != "str":
            raise AnalysisError("composite_type alternative is not a literal")
        out[t.value.lower()] = t.name
    if not out:
        raise AnalysisError("anchor vanished: rule composite_type")
    return out


def special_block_rules(G) -> dict[str, dict]:
    """Rules of the form  !name: "KW"i ... : the keyword-introduced special writers.  Found by role:
    the rules reachable from ``composite`` that are not part of an attribute's value (not reachable
    from ``attr``); helper rules whose name starts with an underscore are inlined by lark and looked
    through when deciding whether the construct always ends with END."""
    for anchor in ("composite", "attr"):
        if anchor not in G.by_origin:
            raise AnalysisError(f"anchor vanished: rule {anchor}")

    def reach(start: str) -> set:
        seen: set = set()
        todo = [start]
        while todo:
            o = todo.pop()
            if o in seen:
                continue
            seen.add(o)
            for r in G.by_origin.get(o, []):
                todo += [n for n, is_term, _ in r.expansion if not is_term]
        return seen

    # block-level constructs: reachable from a composite, but not part of an attribute's value
    items = reach("composite") - reach("attr")

    def always_ends(origin: str, depth: int = 0) -> bool:
        rules = G.by_origin.get(origin, [])
        if not rules or depth > 6:
            return False
        for r in rules:
            if not r.expansion:
                return False
            n, is_term, _ = r.expansion[-1]
            if is_term:
                if n != "_END":
                    return False
            elif n.startswith("_"):
                if not always_ends(n, depth + 1):
                    return False
            else:
                return False
        return True

    out = {}
    for origin in sorted(items):
        for r in G.by_origin.get(origin, []):
            if r.keep_all and r.expansion and r.expansion[0][1]:
                t = G.terms.get(r.expansion[0][0])
                if t is not None and t.kind == "str" and t.value.lower() == origin:
                    out.setdefault(origin, {"kw": t.name, "end": always_ends(origin)})
    return out


def value_kind_seqs(S, G, e, type_name: str, key: str, alt, special: dict) -> list[tuple[str, list]]:
    """Canonical token items (without the keyword) for one alternative; several variants allowed."""
    DQS = ("K", "DOUBLE_QUOTED_STRING")
    INT = ("K", "SIGNED_INT")
    FLT = ("K", "SIGNED_FLOAT")
    BIND = [("K", "LSQB"), ("W", "attrname"), ("K", "RSQB")]  # the name: a plain identifier, lexed in context
    c = alt.cls
    if c == "ENUM":
        out = [(f"ENUM:{w}", [("W", w.upper())]) for w in alt.words]
        if alt.nonstring:
            out.append(("ENUM:int", [INT]))
        return out
    if c == "STR":
        if alt.sub == "BIND":
            return [("STR_BIND", BIND)]
        if alt.sub == "EXPR":
            return [("STR_EXPR", [("K", "LPAR")] + BIND + [("K", "EQUAL"), INT, ("K", "RPAR")])]
        if alt.sub == "REGEX":
            return [("STR_REGEX", [("K", "REGEXP1")])]
        if alt.sub == "HEX":
            return [("STR_HEX", [("K", "DOUBLE_QUOTED_HEXCOLOR")])]
        return [(f"STR_{alt.sub}", [DQS])]
    if c == "NUM":
        return [("NUM:int", [INT]), ("NUM:float", [FLT])]
    if c == "INT":
        return [("INT", [INT])]
    if c == "BOOL":
        return [("BOOL:true", [("W", "TRUE")]), ("BOOL:false", [("W", "FALSE")])]
    if c == "LIST":
        tags = {a.tag() for a in alt.items or []}
        lo = alt.min_items or 0
        hi = alt.max_items
        if tags and all(t.startswith("OBJECT") for t in tags):
            return []  # handled as child blocks by the caller
        if tags <= {"NUM", "INT"} and hi is not None and lo == hi:
            return [(f"LIST_NUM({hi})", [INT] * hi)]
        if alt.tuple_items and hi == 2 and lo == 2:
            pos = [{a.tag() for a in p} for p in alt.tuple_items]
            if len(pos) == 1 and pos[0] <= {"NUM", "INT"}:
                return [("LIST_NUM(2)", [INT, INT])]
            if len(pos) == 2:
                seq = []
                for p in pos:
                    if p <= {"NUM", "INT"}:
                        seq.append([INT])
                    elif p == {"STR_BIND"}:
                        seq.append(BIND)
                    else:
                        raise AnalysisError(f"tuple item {p} of {type_name}.{key}")
                return [("LIST_TUPLE", seq[0] + seq[1])]
        if tags == {"STR_BIND"} and lo == hi == 2:
            return [("LIST_BIND(2)", BIND + BIND)]
        if tags == {"NUM", "STR_BIND"} or tags == {"INT", "STR_BIND"}:
            return [("LIST_MIXED:bind,num", BIND + [INT]), ("LIST_MIXED:num,bind", [INT] + BIND), ("LIST_MIXED:num,num", [INT, INT]), ("LIST_MIXED:bind,bind", BIND + BIND)]
        if tags == {"STR_PLAIN"} and lo == hi == 2:
            # the only two-string list the grammar has is a pair of hex colours (COLORRANGE)
            return [("LIST_HEX(2)", [("K", "DOUBLE_QUOTED_HEXCOLOR"), ("K", "DOUBLE_QUOTED_HEXCOLOR")])]
        if tags == {"STR_PLAIN"}:
            return [("LIST_STR", [DQS])]  # repeated key or PROJECTION; the caller wraps
        if any(t.startswith("LIST[") for t in tags):
            return [("PAIRS", [INT, INT])]  # POINTS / PATTERN bodies
        if tags <= {"NUM", "INT"}:
            n = hi or max(lo, 2)
            return [(f"LIST_NUM({n})", [INT] * n)]
        raise AnalysisError(f"list alternative {alt.tag()} of {type_name}.{key} has no canonical rendering")
    if c in ("OBJECT", "ANY"):
        return []
    raise AnalysisError(f"alternative class {c}")


def run(ctx: Ctx) -> None:
    e = models.env(ctx)
    G, S, repo = e.G, e.S, ctx.repo
    ctx.trusted += ["lark 1.3.1 grammar compilation (LALR table, contextual lexer accept sets)", "jsonschema Draft-4 validation of schema data (V7)", "CPython ast"]
    ctx.not_decided += ["lexical behaviour inside a single value token (e.g. which characters a quoted string may contain)", "that lark builds the parse the LALR table prescribes"]

    COMPOSITE_NAMES = repo.const("tokens", "COMPOSITE_NAMES")
    SINGLETON = repo.const("tokens", "SINGLETON_COMPOSITE_NAMES")
    REPEATED = tuple(repo.const("tokens", "REPEATED_KEYS"))
    OBJECT_LIST_KEYS = repo.const("tokens", "OBJECT_LIST_KEYS")
    COMPLEX_TYPES = repo.const("tokens", "COMPLEX_TYPES")
    SYMBOL_ATTRIBUTES = repo.const("parser", "SYMBOL_ATTRIBUTES")

    btypes = grammar_block_types(G)
    special = special_block_rules(G)
    ctx.units.update({"lalr_states": len(G.states), "grammar_rules": len(G.rules), "terminals": len(G.terms), "schema_files": len(S.raw), "block_types": len(btypes), "special_block_rules": sorted(special)})

    # plural() is what the tables are compared through
    ok, msg = models.check_plural(e)
    ctx.rule("V0", "MapfileTransformer.plural(x) is x+'es' when x ends in 's', else x+'s' (PAI on both shape classes)", 1)
    ctx.check(ok, "V0", "transformer.MapfileTransformer.plural", repo.loc("transformer", repo.func("transformer.MapfileTransformer.plural")), msg, msg)
    plural = models.plural_spec

    # ---- retagging oracle (PAI of Parser.parse, memoised) -----------------------------------
    retag = models.make_retag(e)
    ctx.units["retagged_token_kinds"] = sorted(retag.inspected)

    def accepts(items):
        try:
            return G.run_items(items, retag)
        except models.RetagRaised as ex:
            return False, f"Parser.parse raises {ex} in its token loop", []

    # ---- V1 / V9 ------------------------------------------------------------------------------
    ctx.rule("V1", "every block type of the grammar has a schema file <type>.json declaring that __type__, is in COMPOSITE_NAMES | SINGLETON_COMPOSITE_NAMES (printer assertion), and conversely", 20)
    names_ok = COMPOSITE_NAMES | SINGLETON
    gtypes = dict(btypes)
    if any(r.alias == "symbolset" for r in G.by_origin.get("start", [])):
        gtypes["symbolset"] = "SYMBOLSET"
    for t, term in sorted(gtypes.items()):
        fn = t + ".json"
        loc = f"mappyfile/schemas/{fn}"
        has = fn in S.raw and isinstance(S.raw[fn].get("properties"), dict)
        declared = S.type_files.get(t) == fn
        ctx.check(has and declared, "V1", f"type {t}: schema file", loc, "schema file with properties and matching __type__", f"block type {t} of the grammar has no schema file {fn} declaring __type__ {t}")
        ctx.check(t in names_ok, "V1", f"type {t}: tokens tables", "mappyfile/tokens.py", "in COMPOSITE_NAMES|SINGLETON", f"{t} is in neither COMPOSITE_NAMES nor SINGLETON_COMPOSITE_NAMES: PrettyPrinter._format asserts on it")
    for t in S.types():
        ctx.check(t in gtypes, "V1", f"schema type {t}: grammar", f"mappyfile/schemas/{S.type_files[t]}", "opened by the grammar", f"schema type {t} cannot be opened by any grammar rule")

    # ---- G8 root derivability (shared with C11) -----------------------------------------------
    ctx.rule("G8", "every block type (and the key/value blocks) is accepted as the root of a partial Mapfile: T END is a sentence of the LALR automaton, with Parser.parse's retagging applied", 20)
    root_ok = {}
    for t in sorted(gtypes):
        okk, why, _ = accepts([("W", t.upper()), ("W", "END")])
        root_ok[t] = okk
        ctx.check(okk, "G8", f"root {t}", "mappyfile/mapfile.lark", "T END accepted", f"{t.upper()} END at the root: {why}")
    for t in KV_BLOCKS:
        if t == "values":
            continue
        okk, why, _ = accepts([("W", t.upper()), ("K", "DOUBLE_QUOTED_STRING"), ("K", "DOUBLE_QUOTED_STRING"), ("W", "END")])
        ctx.check(okk, "G8", f"root {t}", "mappyfile/mapfile.lark", "accepted", f"{t.upper()} block at the root: {why}")

    # ---- V3 singleton / plural ----------------------------------------------------------------
    ctx.rule("V3", "for every parent->child object edge of the schemas: an array of T objects is stored under plural(T) which is in OBJECT_LIST_KEYS and T is not a singleton; a single T object is stored under T and T is in SINGLETON_COMPOSITE_NAMES", 28)
    list_keys_seen = set()
    for t, k, node in S.all_slots():
        loc = f"mappyfile/schemas/{S.type_files[t]}#{k}"
        for alt in S.alternatives(node):
            if alt.cls == "LIST" and alt.items and all(a.cls == "OBJECT" for a in alt.items):
                for a in alt.items:
                    child = a.obj_type
                    list_keys_seen.add(k)
                    good = bool(child) and k == plural(child) and k in OBJECT_LIST_KEYS and child not in SINGLETON
                    ctx.check(good, "V3", f"{t}.{k}: array of {child or '?'}", loc, "plural key, in OBJECT_LIST_KEYS", f"array of {child} objects under key {k!r}: expected key {plural(child) if child else '?'} in OBJECT_LIST_KEYS and {child} not a singleton")
            elif alt.cls == "OBJECT":
                child = alt.obj_type
                if child:
                    good = k == child and child in SINGLETON
                    ctx.check(good, "V3", f"{t}.{k}: object {child}", loc, "singleton under its own name", f"a single {child} object is admitted under key {k!r} but the transformer stores {child.upper()} blocks under {k if child in SINGLETON else plural(child)!r} ({child} {'is' if child in SINGLETON else 'is not'} a singleton)")
                else:
                    good = k in SINGLETON or k == "config"
                    ctx.check(good, "V3", f"{t}.{k}: untyped object", loc, "key/value block", f"untyped object under {k!r} which is not a singleton block name")
    for k in sorted(OBJECT_LIST_KEYS):
        ctx.check(k in list_keys_seen, "V3", f"OBJECT_LIST_KEYS member {k}", "mappyfile/tokens.py", "used by a schema", f"{k} is in OBJECT_LIST_KEYS but no schema stores an object array under it")

    # ---- V4 repeated keys ---------------------------------------------------------------------
    ctx.rule("V4", "REPEATED_KEYS equals the set of keywords whose schema is an array of strings of unbounded length that the grammar parses as a plain attribute (not a block)", 4)
    rep_schema = set()
    for t, k, node in S.all_slots():
        alts = S.alternatives(node)
        if k in special:
            continue
        for alt in alts:
            if alt.cls == "LIST" and alt.max_items is None and alt.items and {a.tag() for a in alt.items} == {"STR_PLAIN"}:
                rep_schema.add(k)
    for k in sorted(rep_schema | set(REPEATED)):
        ctx.check(k in rep_schema and k in REPEATED, "V4", f"repeated keyword {k}", "mappyfile/tokens.py", "in both", f"{k}: in REPEATED_KEYS={k in REPEATED}, array-of-strings keyword in schemas={k in rep_schema}")

    # ---- V5 SYMBOL_ATTRIBUTES -----------------------------------------------------------------
    ctx.rule("V5", "every symbol.json keyword that lexes as UNQUOTED_STRING right after SYMBOL is in parser.SYMBOL_ATTRIBUTES (else the interactive loop retags it as a value)", 9)
    st_sym, _ = G.state_after([btypes["symbol"]]) if "symbol" in btypes else (None, None)
    if st_sym is None:
        raise AnalysisError("SYMBOL is not a block type")
    for k in sorted(S.slots("symbol")):
        kind = G.lex_kind(k.upper(), G.accepts[st_sym])
        if kind != "UNQUOTED_STRING":
            ctx.ok("V5", f"symbol.{k}", "mappyfile/schemas/symbol.json", f"lexes as {kind}: not subject to retagging", nontrivial=False)
            continue
        ctx.check(k.upper() in SYMBOL_ATTRIBUTES, "V5", f"symbol.{k}", "mappyfile/parser.py", "listed", f"{k.upper()} is a SYMBOL keyword but not in SYMBOL_ATTRIBUTES: as first keyword after SYMBOL it is retagged UNQUOTED_STRING_VALUE")

    # ---- V6 every slot parseable in every position --------------------------------------------
    ctx.rule("V6", "for every (type, keyword, value alternative) the canonical token-kind rendering is a sentence of the LALR automaton as first, middle and last item of its block (contextual word lexing + evaluated retagging)", 600)
    filler = [("W", "NAME"), ("K", "DOUBLE_QUOTED_STRING")]
    # thorough: the neighbours of the keyword vary too - a bare-word value, a bare word spelled like a
    # keyword the token loop inspects, a number, a nested key/value block
    fillers = [filler]
    if ctx.tier == "thorough":
        fillers += [
            [("W", "NAME"), ("W", "SOMEWORD")],
            [("W", "NAME"), ("W", "SYMBOL")],
            [("W", "NAME"), ("W", "NAME")],
            [("W", "NAME"), ("K", "SIGNED_INT")],
            [("W", "METADATA"), ("K", "DOUBLE_QUOTED_STRING"), ("K", "DOUBLE_QUOTED_STRING"), ("W", "END")],
        ]
    n_seq = 0
    for t in S.types():
        if t not in gtypes:
            continue
        opener = [("W", t.upper())]
        closer = [("W", "END")]
        if not root_ok.get(t, True):
            # the type is not accepted at the root (reported by G8): examine its keywords inside a parent
            parent = None
            for pt, pk, pnode in S.all_slots():
                for a in S.alternatives(pnode):
                    kids = [a] if a.cls == "OBJECT" else (a.items or [] if a.cls == "LIST" else [])
                    if any(x.cls == "OBJECT" and x.obj_type == t for x in kids) and root_ok.get(pt):
                        parent = pt
            if parent is None:
                continue
            opener = [("W", parent.upper()), ("W", t.upper())]
            closer = [("W", "END"), ("W", "END")]
        for k, node in sorted(S.slots(t).items()):
            loc = f"mappyfile/schemas/{S.type_files[t]}#{k}"
            for alt in S.alternatives(node):
                variants: list[tuple[str, list]] = []
                if alt.cls == "OBJECT" or (alt.cls == "LIST" and alt.items and all(a.cls == "OBJECT" for a in alt.items)):
                    kids = [alt] if alt.cls == "OBJECT" else alt.items
                    for a in kids:
                        child = a.obj_type or k
                        if child in KV_BLOCKS:
                            variants.append((f"BLOCK:{child}", [("W", child.upper()), ("K", "DOUBLE_QUOTED_STRING"), ("K", "DOUBLE_QUOTED_STRING"), ("W", "END")]))
                        elif child == "config":
                            variants.append(("CONFIG", [("W", "CONFIG"), ("K", "DOUBLE_QUOTED_STRING"), ("K", "DOUBLE_QUOTED_STRING")]))
                        else:
                            variants.append((f"BLOCK:{child}", [("W", child.upper()), ("W", "END")]))
                else:
                    for tag, seq in value_kind_seqs(S, G, e, t, k, alt, special):
                        if k in special and special[k]["end"]:
                            if tag.startswith("ENUM"):
                                variants.append((tag, [("W", k.upper())] + seq + [("W", "END")]))
                            else:
                                variants.append((tag, [("W", k.upper())] + seq + [("W", "END")]))
                        else:
                            variants.append((tag, [("W", k.upper())] + seq))
                for tag, item in variants:
                    for fi, filler in enumerate(fillers):
                        for pos, items in (("first", opener + item + filler), ("middle", opener + filler + item + filler), ("last", opener + filler + item)):
                            n_seq += 1
                            okk, why, kinds = accepts(items + closer)
                            ctx.check(okk, "V6", f"{t}.{k} | {tag} | {pos}", loc, "accepted" + (f" (neighbour variant {fi})" if fi else ""), f"{' '.join(x for _, x in items)} END is rejected: {why}", nontrivial=True)
    ctx.units["lalr_sentences_checked"] = n_seq

    # ---- G1 -------------------------------------------------------------------------------------
    ctx.rule("G1", "no shift/reduce or reduce/reduce conflict on a block-level rule (a conflict there makes the parse of a keyword depend on what follows it)", 1)
    expr_roots = {"expression", "not_expression"}
    expr_nts = set()
    todo = list(expr_roots)
    while todo:
        nt = todo.pop()
        if nt in expr_nts:
            continue
        expr_nts.add(nt)
        for r in G.by_origin.get(nt, []):
            for n, is_term, _ in r.expansion:
                if not is_term and n not in ("value",):
                    todo.append(n)
    expr_nts.discard("value")
    n_block = 0
    for c in G.conflicts:
        r = c["reduce"]
        if r.origin in expr_nts:
            ctx.ok("G1", f"expression-level conflict {r} / {c['lookahead']}", "mappyfile/mapfile.lark", "inside the expression sub-grammar (decided by C10)", nontrivial=False)
            continue
        n_block += 1
        ctx.finding("G1", f"reduce {r} vs shift {c['lookahead']}", "mappyfile/mapfile.lark", f"LALR shift/reduce conflict on a block-level rule: after '{r}' the token {c['lookahead']} is always shifted (lark resolves silently), so the attribute is cut short only when it is last in its block")
    for c in G.rr_conflicts:
        ctx.finding("G1", f"reduce/reduce {c['rules']} on {c['lookahead']}", "mappyfile/mapfile.lark", "reduce/reduce conflict")
    ctx.units["lalr_conflicts"] = {"total": len(G.conflicts), "block_level": n_block, "reduce_reduce": len(G.rr_conflicts)}

    # ---- V7 defaults ----------------------------------------------------------------------------
    ctx.rule("V7", "every default declared in a schema is valid (Draft-4) for the node that declares it", 40)
    import jsonschema

    for fn, path, default, node in S.defaults_raw():
        target = S._deref({k: v for k, v in node.items() if k != "default"}) if "$ref" not in node else S.expanded(node["$ref"])
        try:
            errs = list(jsonschema.Draft4Validator(target).iter_errors(default))
        except Exception as ex:  # recursion in shared objects etc.
            raise AnalysisError(f"cannot validate default of {fn}:{'/'.join(map(str, path))}: {ex}")
        where = "/".join(str(p) for p in path if p != "properties")
        ctx.check(not errs, "V7", f"{fn[:-5]}.{where} default", f"mappyfile/schemas/{fn}", f"default {default!r} valid", f"default {default!r} is invalid for its own keyword: {errs[0].message if errs else ''}")

    # ---- V9 every alternative validates for its slot -------------------------------------------
    ctx.rule("V9", "a value that satisfies one listed alternative of a keyword together with the sibling constraints (every enum word, a string of each pattern class, numbers at the bounds, lists of each item alternative) is valid (Draft-4) for the keyword's whole schema node - no alternative is made unusable by an overlapping oneOf sibling", 350)
    import re as _re

    STR_CANDIDATES = ["abc", "some text", "[attr]", "([a] = 1)", "/abc/", "#ff0000", "#ff000080", "'#ff0000'", '"#ff0000"', "1", "a.b", "%g", "abc.map", "epsg:4326", "'abc'i", "{a,b}", "0", "file.png", "http://example.com/"]
    NUM_CANDIDATES = [0, 1, -1, 2, 5, 10, 100, 255, 1000, 0.5, 1.5, -0.5, 90, 360]

    def valid(node, v):
        try:
            return not list(jsonschema.Draft4Validator(node).iter_errors(v))
        except Exception as ex:
            raise AnalysisError(f"cannot evaluate schema node: {ex}")

    def reps(alt, depth=0):
        """Concrete values that satisfy ``alt`` on its own."""
        if alt.cls == "ENUM":
            vals = [w.lower() for w in alt.words] + list(alt.nonstring)
        elif alt.cls == "STR":
            vals = [c for c in STR_CANDIDATES if valid(alt.node, c)][:3]
        elif alt.cls in ("NUM", "INT"):
            cand = list(NUM_CANDIDATES)
            for b in ("minimum", "maximum"):
                if isinstance(alt.node.get(b), (int, float)):
                    cand.insert(0, alt.node[b])
            if alt.cls == "INT":
                cand = [c for c in cand if isinstance(c, int)]
            vals = [c for c in cand if valid(alt.node, c)][:4]
        elif alt.cls == "BOOL":
            vals = [True, False]
        elif alt.cls == "LIST" and depth < 2:
            vals = []
            if alt.tuple_items:
                per = [reps(pos_alts[0], depth + 1)[:1] for pos_alts in alt.tuple_items if pos_alts]
                if all(per):
                    vals.append([x[0] for x in per])
            else:
                sizes = sorted({max(alt.min_items or 1, 1), alt.max_items or max(alt.min_items or 1, 2)})
                for ia in alt.items or []:
                    if ia.cls == "OBJECT":
                        continue
                    for r_ in reps(ia, depth + 1)[:2]:
                        for n_ in sizes:
                            vals.append([r_] * n_)
            vals = [v for v in vals if valid(alt.node, v)]
        else:
            vals = []
        return vals

    def _relax(nd, depth=0):
        """The node with every oneOf read as anyOf: what the alternatives admit together with their sibling constraints."""
        if depth > 12 or not isinstance(nd, dict):
            return nd
        out = {}
        for kk, vv in nd.items():
            if kk in ("oneOf", "anyOf", "allOf"):
                out["anyOf" if kk == "oneOf" else kk] = [_relax(x, depth + 1) for x in vv]
            elif kk == "items":
                out[kk] = _relax(vv, depth + 1) if isinstance(vv, dict) else [_relax(x, depth + 1) for x in vv]
            else:
                out[kk] = vv
        return out

    n9 = 0
    for t in S.types():
        for k, node in sorted(S.slots(t).items()):
            loc = f"mappyfile/schemas/{S.type_files[t]}#{k}"
            for i_alt, alt in enumerate(S.alternatives(node)):
                if alt.cls in ("OBJECT", "ANY"):
                    continue
                relaxed = _relax(node)
                vals = [v for v in reps(alt) if valid(relaxed, v)]
                if not vals:
                    ctx.notes.append(f"V9: no representative found for {t}.{k} alternative {alt.tag()}") if hasattr(ctx, "notes") else None
                    continue
                bad = []
                for v in vals:
                    errs = list(jsonschema.Draft4Validator(node).iter_errors(v))
                    if errs:
                        bad.append((v, errs[0].message[:120]))
                n9 += 1
                ctx.check(not bad, "V9", f"{t}.{k} | alternative {i_alt} {alt.tag()}", loc, f"{len(vals)} representative value(s) valid", f"{k.upper()} {bad[0][0] if bad else ''!r} satisfies the listed alternative {alt.tag()} (via {'/'.join(map(str, alt.via)) or 'the node itself'}) but is rejected for the keyword: {bad[0][1] if bad else ''}")
    ctx.units["alternatives_validated"] = n9

    # ---- V10 one reading of the schemas ------------------------------------------------------------
    ctx.rule("V10", "the schema files are read by one JSON-Schema draft everywhere: Validator.validate, evaluated with recording stand-ins for the jsonschema validator classes, builds a validator of the draft map.json declares for every root type with and without a version (the drafts differ on what the files contain: a numeric exclusiveMinimum is ignored by draft 4 and a bound from draft 6 on), so a block gets the same verdict alone, nested, versioned or not", 4)
    _one_draft(ctx, e)

    # ---- V8 printer dispatch / COMPLEX_TYPES ----------------------------------------------------
    ctx.rule("V8", "every keyword-introduced block rule of the grammar is written by the printer in that rule's shape (evaluated), is not counted for the alignment column, and COMPLEX_TYPES equals the END-terminated constructs", 10)
    fmt = repo.func(models.fmt_qual(repo))
    want = set(special)
    from .. import printer as _pr

    for kw, okk, desc in _pr.dispatch_shapes(e, special, OBJECT_LIST_KEYS, REPEATED):
        ctx.check(okk, "V8", f"printer writes {kw.upper()} in the shape the grammar's rule reads", repo.loc("pprint", fmt), desc, f"{kw.upper()} is written as {desc!r}, which is not the shape of the grammar's rule for it")
    # which keys does compute_max_key_length count?  (evaluated, not read off a variable name)
    from .. import layout as _layout
    from ..absval import HDict as _HD

    cml = repo.func("pprint.PrettyPrinter.compute_max_key_length")
    I_ = e.interp(allow_fork=False)
    counted_bad = []
    for kw in sorted(want):
        val = _layout.cdict([("__type__", kw)]) if kw in ("metadata", "validation", "values", "connectionoptions") else ([_layout.word("p")] if kw == "projection" else ([(1, 2)] if kw in ("points", "pattern") else _layout.cdict([("k", _layout.word("v"))])))
        d = _layout.cdict([("__type__", "layer"), ("ab", _layout.word("x")), (kw, val)])
        outs = I_.explore("pprint.PrettyPrinter.compute_max_key_length", lambda d=d: (models.printer(I_), [d], {}))
        if len(outs) != 1 or outs[0].kind != "return":
            raise AnalysisError(f"compute_max_key_length not evaluable: {[(o.kind, o.exc) for o in outs]}")
        if outs[0].value != 2:
            counted_bad.append((kw, outs[0].value))
    ctx.check(not counted_bad, "V8", "pprint.PrettyPrinter.compute_max_key_length skips the specially written keywords", repo.loc("pprint", cml), "none of them widens the alignment column", f"specially written keywords are counted for the alignment column: {counted_bad}")
    ended = {k for k, v in special.items() if v["end"]}
    want_complex = set(gtypes) | ended
    ctx.check(set(COMPLEX_TYPES) == want_complex, "V8", "tokens.COMPLEX_TYPES", "mappyfile/tokens.py", "equals END-terminated constructs of the grammar", f"COMPLEX_TYPES differs from the grammar's END-terminated constructs: missing {sorted(want_complex - set(COMPLEX_TYPES))}, extra {sorted(set(COMPLEX_TYPES) - want_complex)}")


def _one_draft(ctx: Ctx, e) -> None:
    from ..absval import SObj, HDict
    from .. import pai

    repo = ctx.repo
    lv = repo.loc("validator", repo.func("validator.Validator.validate"))
    DRAFTS = ("Draft3Validator", "Draft4Validator", "Draft6Validator", "Draft7Validator", "Draft201909Validator", "Draft202012Validator")
    used: dict = {}

    def mk_class(name):
        def ctor(fr, so, a, k):
            return SObj("Validator", {"draft": name, "schema": a[0] if a else k.get("schema")})

        return ctor

    def validator_for(fr, so, a, k):
        # jsonschema.validators.validator_for: the class named by the schema's own $schema, else the default
        schema = a[0]
        default = a[1] if len(a) > 1 else k.get("default", pai.FuncRef(None, builtin="jsonschema.Draft202012Validator"))
        uri = schema.get("$schema") if isinstance(schema, dict) else None
        if isinstance(uri, str):
            for tag, cls in (("draft-03", "Draft3Validator"), ("draft-04", "Draft4Validator"), ("draft-06", "Draft6Validator"), ("draft-07", "Draft7Validator"), ("2019-09", "Draft201909Validator"), ("2020-12", "Draft202012Validator")):
                if tag in uri:
                    return pai.FuncRef(None, builtin="jsonschema." + cls)
        return default

    # the draft the schema files are written for: the one map.json declares
    uri0 = e.S.raw.get("map.json", {}).get("$schema", "")
    declared = next((cls for tag, cls in (("draft-03", "Draft3Validator"), ("draft-04", "Draft4Validator"), ("draft-06", "Draft6Validator"), ("draft-07", "Draft7Validator"), ("2019-09", "Draft201909Validator"), ("2020-12", "Draft202012Validator")) if tag in uri0), None)
    if declared is None:
        raise AnalysisError(f"anchor vanished: map.json no longer declares a JSON-Schema draft ($schema = {uri0!r})")
    for root in ("map", "label", "layer"):
        for ver in (None, 8.0):
            got: list = []

            def errors(I_, so, a, k, got=got):
                # the validator object, wherever the private signature puts it
                vs = [x for x in list(a) + list(k.values()) if isinstance(x, SObj) and x.pytype == "Validator"]
                got.append(vs[0].attrs.get("draft") if len(vs) == 1 else f"{len(vs)} validator objects")
                return []

            def schema_doc(I_, so, a, k, root=root):
                d = HDict()
                if root == "map":
                    d["$schema"] = uri0  # only map.json declares one
                d["properties"] = HDict()
                return d

            stubs = {"validator.Validator._get_errors": errors, "validator.Validator.get_versioned_schema": schema_doc, "validator.Validator.get_json_from_file": schema_doc, "validator.Validator.get_expanded_schema": schema_doc, "ext:referencing.Registry": lambda fr, so, a, k: SObj("Registry", {}), "ext:Registry": lambda fr, so, a, k: SObj("Registry", {}), "ext:jsonschema.validators.validator_for": validator_for, "ext:validator_for": validator_for}
            for dn in DRAFTS:
                stubs["ext:jsonschema." + dn] = mk_class(dn)
                stubs["ext:jsonschema.validators." + dn] = mk_class(dn)
            Iv = e.interp(stubs=stubs, allow_fork=False)
            outs = Iv.explore("validator.Validator.validate", lambda root=root, ver=ver: (models.new_validator(Iv), [HDict({"__type__": root})], {"version": ver} if ver is not None else {}))
            if len(outs) != 1 or outs[0].kind != "return" or len(got) != 1:
                raise AnalysisError(f"validate({root}, version={ver}) not evaluable with recording validator classes: {[(o.kind, o.exc) for o in outs]} / {got}")
            used[(root, ver)] = got[0]
            ctx.check(got[0] == declared, "V10", f"root {root}, version {ver}", lv, got[0], f"validate() of a {root.upper()} root with version={ver} reads the schema with {got[0]}, but map.json declares {declared} and the other requests use it: the schema files mean different things under the two drafts (numeric exclusiveMinimum, ...), so the same block is valid in one setting and invalid in the other")
