"""C07 - validation verdict equals the schema's verdict."""

from __future__ import annotations

import ast

from .. import models, pai, valmodel
from ..absval import SStr, SNum, SObj, SOpaque, HDict, Atom
from ..core import AnalysisError, Ctx, norm
from ..pyfacts import dotted, calls_in, bind_args

META = {
    "explanation": "(W1) convert_lowercase is evaluated by PAI on every JSON type tag (list, dict, str, bytes, number, bool, None, nested): it recurses into lists and dict values, lower-cases dict keys and strings and returns everything else unchanged, without touching its argument, and converts an object referenced from two places (no cycle) at both. (W2) schema lint: every object schema admits hidden keys (patternProperties '^__[a-z]+__$'), every $ref names a file of the schemas folder, the registry retrieves from that folder. (W3) Validator.validate is evaluated with a recording stub for _get_errors: one call per root dictionary in list order, results concatenated, a single dictionary handled alike. (W4) the schema used follows the root dictionary's __type__ on the public path mappyfile.validate. (W5) 'always returns': create_message is evaluated on every shape a jsonschema absolute_path can take against a representative dictionary (root error, keyword value, item of a list-valued keyword, whole list, singleton block, object in a list at depth 1-3, key/value block, pair and number inside POINTS): it must return, name the offending keyword (or the enclosing object's type for object-level errors) and never index a scalar. (W6) _get_errors validates the lower-cased copy and hands the *original* dictionary to the message builder.",
    "level_text": "Verdict equality with jsonschema is trusted; what is decided is that mappyfile hands jsonschema a faithful lower-cased JSON form, selects the right schema, and turns every possible error-path shape into a message without raising - the shapes are a finite classification of paths derived from the structure of the schemas (dict step / list-of-objects step / list-valued keyword step).",
    "level_note": "Trusted: jsonschema Draft-4 semantics and error paths (absolute_path is the instance path), referencing.Registry resolution. Message multiplicity for combined faults is not examined.",
    "technique": "abstract interpretation over JSON type tags and over error-path shapes + schema lint + by-name dataflow of the schema selection",
}


def run(ctx: Ctx) -> None:
    e = models.env(ctx)
    repo, S, facts = ctx.repo, e.S, e.facts
    ctx.trusted += ["jsonschema Draft-4 verdicts and absolute_path", "referencing.Registry"]
    ctx.not_decided += ["number of messages for combined faults"]
    I = e.interp(allow_fork=False)
    V = lambda: models.construct(e, "validator.Validator")

    # ---- W1 --------------------------------------------------------------------------------------------
    ctx.rule("W1", "convert_lowercase recurses into lists and dict values, lower-cases keys and strings, returns other values unchanged and builds new containers", 7)
    q = "validator.Validator.convert_lowercase"
    lq = repo.loc("validator", repo.func(q))
    s = SStr.atom("S")
    outs = I.explore(q, lambda: (V(), [s], {}))
    ctx.check(len(outs) == 1 and outs[0].value == s.lower(), "W1", "str -> lower", lq, "", f"{[o.value for o in outs]}")
    for name, mk in (("int", lambda: SNum.sym("n", None, None)), ("float", lambda: SNum.sym("x", None, None, True)), ("bool", lambda: True), ("None", lambda: None)):
        v = mk()
        outs = I.explore(q, lambda v=v: (V(), [v], {}))
        ctx.check(len(outs) == 1 and (outs[0].value is v or outs[0].value == v), "W1", f"{name} unchanged", lq, "", f"{name} becomes {[o.value for o in outs]}")
    h = {}

    def mk_nested():
        inner = HDict({"Key": SStr.atom("V"), "N": SNum.sym("n", None, None)})
        lst = [SStr.atom("A"), inner, [SStr.atom("B")]]
        d = HDict({"TYPE": SStr.atom("T"), "Items": lst, "__Pos__": HDict({"Line": SNum.sym("l", None, None)})})
        h["d"] = d
        h["snap"] = (list(d.keys()), d["Items"], list(inner.keys()))
        return V(), [d], {}

    outs = I.explore(q, mk_nested)
    o = outs[0]
    good = o.kind == "return" and isinstance(o.value, dict) and list(o.value.keys()) == ["type", "items", "__pos__"]
    if good:
        r = o.value
        good = all(k2 in r for k2 in ("type", "items", "__pos__")) and isinstance(r["items"], list) and len(r["items"]) == 3 and isinstance(r["items"][1], dict)
        good = good and r["type"] == SStr.atom("T").lower() and isinstance(r["items"], list) and r["items"][0] == SStr.atom("A").lower() and list(r["items"][1].keys()) == ["key", "n"] and r["items"][1]["key"] == SStr.atom("V").lower() and r["items"][2] == [SStr.atom("B").lower()] and list(r["__pos__"].keys()) == ["line"]
    ctx.check(good, "W1", "nested dict / list: keys and strings lowered at every depth", lq, "", f"{o.value!r}")
    d = h["d"]
    untouched = list(d.keys()) == h["snap"][0] and d["Items"] is h["snap"][1] and list(d["Items"][1].keys()) == h["snap"][2] and o.value is not d and isinstance(o.value, dict) and o.value.get("items", o.value.get("Items")) is not d["Items"]
    ctx.check(untouched, "W1", "argument untouched, new containers", lq, "", "convert_lowercase modified or returned (part of) its argument")

    # one object referenced from two places (a STYLE appended to two CLASSes, layer["extent"] = map["extent"]): no
    # cycle, and both occurrences are part of the JSON form
    def mk_shared():
        style = HDict({"Color": [SNum.sym("r", None, None)], "Name": SStr.atom("S")})
        ext = [SNum.sym("e0", None, None), SNum.sym("e1", None, None)]
        d = HDict({"Extent": ext, "Classes": [HDict({"Styles": [style]}), HDict({"Styles": [style]})], "Layer": HDict({"Extent": ext})})
        return V(), [d], {}

    outs = I.explore(q, mk_shared)
    o = outs[0]
    r = o.value if o.kind == "return" else None
    try:
        good = isinstance(r, dict) and [list(c["styles"][0].keys()) for c in r["classes"]] == [["color", "name"], ["color", "name"]] and r["classes"][1]["styles"][0]["name"] == SStr.atom("S").lower() and isinstance(r["layer"]["extent"], list) and len(r["layer"]["extent"]) == 2 and len(r["extent"]) == 2
    except (KeyError, TypeError, IndexError, AttributeError):
        good = False
    ctx.check(good, "W1", "an object referenced twice (no cycle) is converted at both places", lq, "", f"a dictionary in which one STYLE object belongs to two CLASSes and one EXTENT list to MAP and LAYER is converted to {r!r} ({o.exc or ''}): the second occurrence is not the lower-cased copy of the object, so valid input gets messages and faults in it are missed")

    # ---- W2 --------------------------------------------------------------------------------------------
    ctx.rule("W2", "every object schema of a block type admits hidden keys; every $ref names an existing schema file; the registry retrieves from the schemas folder", 40)
    for t in S.types():
        doc = S.raw[S.type_files[t]]
        pp = doc.get("patternProperties", {})
        ctx.check(any(k.startswith("^__") for k in pp), "W2", f"{t}: hidden keys admitted", f"mappyfile/schemas/{S.type_files[t]}", "", f"{S.type_files[t]} has no patternProperties for __hidden__ keys: a dictionary loaded with include_position fails validation")
    for fn, path, ref in S.refs():
        ctx.check(ref in S.raw, "W2", f"$ref {fn}{path} -> {ref}", f"mappyfile/schemas/{fn}", "", f"$ref {ref!r} in {fn} does not name a file of the schemas folder", nontrivial=False)
    gsv = repo.func("validator.Validator.get_schema_validator")
    reg = [c for c in calls_in(gsv) if dotted(c.func) == "Registry"]
    good = bool(reg) and any(k.arg == "retrieve" and norm(k.value) == "self.retrieve_from_filesystem" for c in reg for k in c.keywords)
    ctx.check(good, "W2", "registry retrieves from the schemas folder", repo.loc("validator", gsv), "", "get_schema_validator does not resolve $ref through retrieve_from_filesystem")

    # ---- W3 --------------------------------------------------------------------------------------------
    ctx.rule("W3", "a list of root dictionaries is validated one by one, in order, messages concatenated; a single dictionary alike", 2)
    calls: list = []

    def ge(I_, self_obj, args, kwargs):
        # whatever the order of _get_errors' parameters: the dictionary is the one named d
        env_ = I_.bind("validator.Validator._get_errors", repo.func("validator.Validator._get_errors"), self_obj, list(args), dict(kwargs))
        if "d" not in env_:
            raise AnalysisError("anchor moved: _get_errors has no parameter d")
        calls.append(env_["d"])
        return [("msg", env_["d"])]

    sv = SObj("Validator", {})
    I3 = e.interp(stubs={"validator.Validator._get_errors": ge, "validator.Validator.get_schema_validator": lambda *a: sv, "validator.Validator.get_versioned_schema": lambda *a: HDict()}, allow_fork=False)
    d1, d2 = HDict({"__type__": "map"}), HDict({"__type__": "map", "name": "b"})
    calls.clear()
    outs = I3.explore("validator.Validator.validate", lambda: (V(), [[d1, d2]], {}))
    ctx.check(len(outs) == 1 and outs[0].kind == "return" and len(calls) == 2 and calls[0] is d1 and calls[1] is d2 and outs[0].value == [("msg", d1), ("msg", d2)], "W3", "list of roots", repo.loc("validator", repo.func("validator.Validator.validate")), "", f"validate([d1, d2]) called _get_errors {len(calls)} time(s) and returned {outs[0].value!r}")
    calls.clear()
    outs = I3.explore("validator.Validator.validate", lambda: (V(), [d1], {}))
    ctx.check(len(calls) == 1 and calls[0] is d1 and outs[0].value == [("msg", d1)], "W3", "single root", repo.loc("validator", repo.func("validator.Validator.validate")), "", f"{outs[0].value!r}")

    # ---- W4 --------------------------------------------------------------------------------------------
    ctx.rule("W4", "on the public path mappyfile.validate the schema is the one of the root dictionary's __type__ (for each root of a list)", 3)
    used: list = []

    def gsv_stub(I_, self_obj, args, kwargs):
        used.append(("plain", args[0] if args else kwargs.get("schema_name")))
        return sv

    def gvs_stub(I_, self_obj, args, kwargs):
        nm = args[1] if len(args) > 1 else kwargs.get("schema_name", "map")
        used.append(("versioned", nm))
        return HDict()

    I4 = e.interp(stubs={"validator.Validator._get_errors": lambda *a: [], "validator.Validator.get_schema_validator": gsv_stub, "validator.Validator.get_versioned_schema": gvs_stub, "ext:jsonschema.Draft4Validator": lambda fr, s_, a, k: sv}, allow_fork=False)
    for label, mkarg, want in (("LAYER root", lambda: HDict({"__type__": "layer"}), ["layer"]), ("MAP root", lambda: HDict({"__type__": "map"}), ["map"]), ("list of CLASS and STYLE roots", lambda: [HDict({"__type__": "class"}), HDict({"__type__": "style"})], ["class", "style"])):
        for ver in (None, 7.6):
            used.clear()
            outs = I4.explore("utils.validate", lambda mkarg=mkarg, ver=ver: (None, [mkarg()] + ([ver] if ver else []), {}))
            names = [n for _, n in used]
            ctx.check(outs[0].kind == "return" and names == want, "W4", f"{label}, version {ver}", repo.loc("utils", repo.func("utils.validate")), f"schemas {names}", f"validate() of a {label} uses schema(s) {names}, expected {want}" + (f" (raises {outs[0].exc})" if outs[0].kind != "return" else ""))

    # ---- W5 --------------------------------------------------------------------------------------------
    ctx.rule("W5", "create_message returns for every error-path shape and names the offending keyword / enclosing object", 14)
    lcm = repo.loc("validator", repo.func("validator.Validator.create_message"))
    for path, what, key, holder_path, ptag in valmodel.SHAPES:
        o, root = valmodel.create_message(e, path)
        if o.kind != "return":
            ctx.finding("W5", f"path shape {path}", lcm, f"create_message raises {o.exc}{o.value} for an error on a {what} (absolute_path {path}): validate() raises instead of reporting")
            continue
        msg = o.value.get("message")
        want = f"ERROR: Invalid value in {key}"
        ctx.check(msg == want and o.value.get("error") == SStr.atom("errmsg", free=True), "W5", f"path shape {path}", lcm, f"{msg}", f"error on a {what} (absolute_path {path}) is reported as {msg!r}, expected {want!r}")
    # add_comments writes the comment into the dictionary that holds the keyword
    o, root = valmodel.create_message(e, ["layers", 0, "type"], add_comments=True)
    lyr = root["layers"][0]
    ctx.check(o.kind == "return" and "__comments__" in lyr and "type" in lyr["__comments__"], "W5", "add_comments stores the message next to the keyword", lcm, "", "the validation comment is not stored in the enclosing object's __comments__")

    # ---- W7 every fault gets its message ---------------------------------------------------------------
    ctx.rule("W7", "get_error_messages builds a message for every error location: each faulty object of a list, each faulty keyword, in the order jsonschema reports them (errors on several items of one list-valued keyword may share a message)", 1)
    seen_paths: list = []

    def cm(I_, self_obj, args, kwargs):
        seen_paths.append(list(args[1]))
        return HDict({"message": "m", "path": tuple(args[1])})

    I7 = e.interp(stubs={"validator.Validator.create_message": cm}, allow_fork=False)
    paths = [["layers", 0], ["layers", 1], ["name"], ["layers", 0, "classes", 0], ["layers", 0, "classes", 1], ["size", 0], ["size", 1], ["layers", 1, "name"], []]
    errs = [SObj("ValidationError", {"absolute_path": list(p_), "message": SStr.atom("e")}) for p_ in paths]
    outs = I7.explore("validator.Validator.get_error_messages", lambda: (V(), [HDict({"__type__": "map"}), list(errs), False], {}))
    got_paths = [tuple(p_) for p_ in seen_paths]
    required = [tuple(p_) for p_ in paths if p_[:1] != ["size"]]
    missing = [p_ for p_ in required if p_ not in got_paths]
    size_ok = any(p_[:1] == ("size",) for p_ in got_paths)
    in_order = [p_ for p_ in got_paths if p_ in required] == required
    n_ret = len(outs[0].value) if outs and outs[0].kind == "return" and isinstance(outs[0].value, list) else -1
    ctx.check(not missing and size_ok and in_order and n_ret == len(got_paths), "W7", "one message per error location", repo.loc("validator", repo.func("validator.Validator.get_error_messages")), f"{len(got_paths)} messages for {len(paths)} errors", f"errors at {missing} get no message (messages built for {got_paths}); returned {n_ret}")

    # ---- W6 --------------------------------------------------------------------------------------------
    ctx.rule("W6", "_get_errors validates convert_lowercase(d) (through a JSON round trip) and builds messages against the original dictionary", 1)
    rec = {}

    def conv(I_, self_obj, args, kwargs):
        rec["conv_arg"] = args[0]
        out = HDict({"lowered": True})
        rec["lowered"] = out
        return out

    def gem(I_, self_obj, args, kwargs):
        rec["gem_d"] = args[0]
        rec["gem_errors"] = args[1]
        return ["m"]

    def dumps(fr, s_, a, k):
        rec["dumped"] = a[0]
        return "<json>"

    def loads(fr, s_, a, k):
        rec["loaded_from"] = a[0]
        return SObj("jsn", {})

    vobj = SObj("Draft4Validator", {}, methods=("iter_errors",))

    def meth(fr, recv, name, args, kwargs, node):
        if recv is vobj and name == "iter_errors":
            rec["validated"] = args[0]
            return [SObj("err", {})]
        return NotImplemented

    I6 = e.interp(stubs={"validator.Validator.convert_lowercase": conv, "validator.Validator.get_error_messages": gem, "ext:json.dumps": dumps, "ext:json.loads": loads, "hook:method": meth}, allow_fork=False)
    dd = HDict({"__type__": "map"})
    outs = I6.explore("validator.Validator._get_errors", lambda: (V(), [], {"d": dd, "validator": vobj, "add_comments": False}))  # by name: the order of the private parameters is free
    good = outs[0].kind == "return" and rec.get("conv_arg") is dd and rec.get("dumped") is rec.get("lowered") and rec.get("loaded_from") == "<json>" and isinstance(rec.get("validated"), SObj) and rec["validated"].pytype == "jsn" and rec.get("gem_d") is dd and outs[0].value == ["m"]
    ctx.check(good, "W6", "_get_errors dataflow", repo.loc("validator", repo.func("validator.Validator._get_errors")), "", f"_get_errors: lower-cases {rec.get('conv_arg') is dd}, validates the JSON form {rec.get('validated')!r}, messages against the original {rec.get('gem_d') is dd}; outcome {outs[0].kind} {outs[0].exc or ''}")
    ctx.units["pai_paths"] = I.paths_run
