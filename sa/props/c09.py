"""C09 - version-aware validation follows minVersion / maxVersion."""

from __future__ import annotations

import ast
from fractions import Fraction

from .. import models, pai, schema as smod
from .. import absval as av
from ..absval import SStr, SNum, SObj, HDict, SOpaque
from ..core import AnalysisError, Ctx, norm
from ..pyfacts import dotted, calls_in, bind_args, guards_at

META = {
    "explanation": "(R1) is_valid_for_version is evaluated by PAI with symbolic version / minVersion / maxVersion related only by order (v = bound - e, bound, bound + e with e > 0; bounds present or absent): accepted exactly when min <= v <= max. (R2) Validator.get_versioned_schema / get_versioned_properties are partially evaluated on the repository's own schema files (source-tree data, $ref shared per file as jsonref does) for every root type and every version cut point (each distinct bound, just below and just above it) and the pruned tree is compared node by node with a reference pruning written from C09's statement - every annotated keyword, object and value alternative reachable as a block of Mapfile text must be present exactly inside its range, everything unannotated untouched. (R3) call histories on one Validator object: get_expanded_schema is evaluated for sequences of (name, version) requests with jsonref.load stubbed to hand out a fresh object per call - two requests share an object iff they have the same name and version; the pruned object is the one cached for that version; validate() uses the versioned schema iff a version is given. R2 also asks one Validator for several root types at one version (map then layer, map then class, layer / style / map): each later tree equals the reference pruning behind every $ref (the model dictionaries carry jsonref's __reference__ through a hook).",
    "level_text": "The version dimension is finite (the distinct bounds in the schema files) and the schema tree is repository data, so the product entry x cut point x root type is enumerated completely; the range test itself is decided over orderings, i.e. for all numeric values. Cache behaviour over call histories is decided on the abstract heap (object identity), for every interleaving of requests with <= 3 distinct keys.",
    "level_note": "Trusted: jsonref resolves equal $ref URIs to one shared object within a load and shares nothing between loads; jsonschema validates against the pruned dict. The partial evaluation interprets repository code on repository data only; no Mapfile is involved.",
    "technique": "abstract interpretation over order relations + partial evaluation of the pruning on the schema files compared with a reference pruning + abstract-heap evaluation of cache histories",
}

EPS = Fraction(1, 10**6)


def _cutpoints(S: smod.Schemas) -> list[float]:
    vals = set()
    for fn, path, md in S.annotations_raw():
        for k in ("minVersion", "maxVersion"):
            if k in md:
                vals.add(float(md[k]))
    out = set()
    for v in vals:
        out |= {round(v - 0.05, 4), v, round(v + 0.05, 4)}
    return sorted(x for x in out if x > 0)


UNREACHABLE_OBJECT_ALTS: set = set()  # filled in run(): (key, type) object alternatives no Mapfile text can produce


def reference_prune(node, version: float, seen: set, key=None) -> None:
    """Reference from C09's text: inside every dict, drop annotated dict-valued entries that are out
    of range and annotated members of list-valued entries; recurse through dicts and through the
    members of lists (object schemas may sit inside oneOf / anyOf / items)."""
    if id(node) in seen:
        return
    seen.add(id(node))
    if isinstance(node, dict):
        for k in list(node.keys()):
            v = node[k]
            if isinstance(v, dict):
                if not _in_range(v, version):
                    del node[k]
                    continue
                reference_prune(v, version, seen, k if k not in ("oneOf", "anyOf", "allOf", "items", "properties") else key)
            elif isinstance(v, list):
                node[k] = [x for x in v if not (isinstance(x, dict) and not _in_range(x, version))]
                for x in node[k]:
                    if isinstance(x, dict) and k in ("oneOf", "anyOf"):
                        t = x.get("properties", {}).get("__type__", {}).get("enum", [None])[0] if isinstance(x.get("properties"), dict) else None
                        if t is not None and (key, t) in UNREACHABLE_OBJECT_ALTS:
                            continue  # C19 V3: an object of this type is never stored under this key
                    reference_prune(x, version, seen, key)
    elif isinstance(node, list):
        for x in node:
            reference_prune(x, version, seen)


def _in_range(d: dict, version: float) -> bool:
    md = d.get("metadata")
    if isinstance(md, dict):
        return md.get("minVersion", 0.0) <= version <= md.get("maxVersion", 1000.0)
    return True


def diff_trees(a, b, path=(), seen=None, out=None, limit=40):
    seen = seen if seen is not None else set()
    out = out if out is not None else []
    if len(out) >= limit:
        return out
    key = (id(a), id(b))
    if key in seen:
        return out
    seen.add(key)
    if isinstance(a, dict) and isinstance(b, dict):
        for k in a.keys() | b.keys():
            if k not in a:
                out.append((path + (k,), "missing in the code's result (pruned although in range / unannotated)"))
            elif k not in b:
                out.append((path + (k,), "kept by the code but out of range for this version"))
            else:
                diff_trees(a[k], b[k], path + (k,), seen, out, limit)
    elif isinstance(a, list) and isinstance(b, list):
        if len(a) != len(b):
            out.append((path, f"list has {len(a)} members in the code's result, {len(b)} in the reference"))
        else:
            for i, (x, y) in enumerate(zip(a, b)):
                diff_trees(x, y, path + (i,), seen, out, limit)
    elif isinstance(a, (dict, list)) != isinstance(b, (dict, list)):
        out.append((path, "type differs"))
    elif a != b:
        out.append((path, f"value {a!r} != {b!r}"))
    return out


def run(ctx: Ctx) -> None:
    e = models.env(ctx)
    repo, facts, S = ctx.repo, e.facts, e.S
    ctx.trusted += ["jsonref: one shared object per referenced file within a load, nothing shared between loads", "jsonschema validates against the dict it is given"]
    ctx.not_decided += ["that jsonschema's verdict on the pruned schema is 'the' verdict (trusted)"]

    # ---- R1 range test over orderings -------------------------------------------------------------
    ctx.rule("R1", "is_valid_for_version accepts exactly when minVersion <= version <= maxVersion (bounds optional), decided over order relations", 11)
    I = e.interp(allow_fork=False)
    fnq = "validator.Validator.is_valid_for_version"
    cases = []
    for has_min in (False, True):
        for has_max in (False, True):
            rels = [("inside", None)]
            if has_min:
                rels += [("below min", "min-"), ("at min", "min="), ("just above min", "min+")]
            if has_max:
                rels += [("just below max", "max-"), ("at max", "max="), ("above max", "max+")]
            for name, rel in rels:
                cases.append((has_min, has_max, name, rel))
    for has_min, has_max, name, rel in cases:
        def make(has_min=has_min, has_max=has_max, rel=rel):
            # representatives of the order relations (the code touches the three numbers only through
            # comparisons, so one representative per ordering decides the class)
            lo, hi, eps = 5.0, 7.0, 0.05
            v = {None: 6.0, "min-": lo - eps, "min=": lo, "min+": lo + eps, "max-": hi - eps, "max=": hi, "max+": hi + eps}[rel]
            md = HDict()
            if has_min:
                md["minVersion"] = lo
            if has_max:
                md["maxVersion"] = hi
            d = HDict()
            d["type"] = "string"
            d["metadata"] = md
            return models.construct(e, "validator.Validator"), [d, v], {}

        # explore() clears BOUNDS before make_args, so build inside make
        outs = I.explore(fnq, make)
        want = rel not in ("min-", "max+")
        got = [o.value for o in outs if o.kind == "return"]
        ctx.check(len(outs) == 1 and got == [want], "R1", f"min {'set' if has_min else 'absent'}, max {'set' if has_max else 'absent'}, version {name}", repo.loc("validator", repo.func(fnq)), f"-> {want}", f"is_valid_for_version returns {got or [o.exc for o in outs]} for a version {name} (expected {want})")
    # absent bounds are unbounded: very old / very new versions
    for has_min, has_max, v, want in ((False, True, 0.1, True), (True, False, 999.0, True), (False, False, 0.1, True), (False, False, 999.0, True), (True, False, 0.1, False), (False, True, 999.0, False)):
        def make2(has_min=has_min, has_max=has_max, v=v):
            md = HDict()
            if has_min:
                md["minVersion"] = 5.0
            if has_max:
                md["maxVersion"] = 7.0
            d = HDict()
            d["metadata"] = md
            return models.construct(e, "validator.Validator"), [d, v], {}

        outs = I.explore(fnq, make2)
        got = [o.value for o in outs if o.kind == "return"]
        ctx.check(got == [want], "R1", f"min {'set' if has_min else 'absent'}, max {'set' if has_max else 'absent'}, extreme version {v}", repo.loc("validator", repo.func(fnq)), f"-> {want}", f"is_valid_for_version returns {got} for version {v} (expected {want}): an absent bound must not restrict")
    # an entry without metadata is always valid
    outs = I.explore(fnq, lambda: (models.construct(e, "validator.Validator"), [HDict({"type": "string"}), SNum.sym("v", 0, None, True)], {}))
    ctx.check(len(outs) == 1 and outs[0].value is True, "R1", "unannotated entry", repo.loc("validator", repo.func(fnq)), "always valid", f"an unannotated entry yields {[o.value for o in outs]}")

    # ---- R0 annotations must be visible to the pruning ------------------------------------------------
    ctx.rule("R0", "no minVersion / maxVersion annotation sits next to a $ref (jsonref replaces the whole object by its referent, dropping the siblings, so such an annotation is never seen by the version filter)", 90)
    for fn, path, md in S.annotations_raw():
        node = S.raw[fn]
        for p in path:
            node = node[p]
        where = "/".join(str(x) for x in path)
        ctx.check("$ref" not in node, "R0", f"{fn[:-5]}:{where}", f"mappyfile/schemas/{fn}", f"annotation {md}", f"{fn} {where}: the annotation {md} is a sibling of \"$ref\": {node.get('$ref')!r}; the expanded schema loses it and the entry is accepted at every version")

    # ---- R2 pruning on the schema files -------------------------------------------------------------
    ctx.rule("R2", "for every root type and version cut point the schema pruned by get_versioned_schema equals the reference pruning (annotated keywords, objects and alternatives present exactly inside their range, at every depth; unannotated entries untouched)", 100)
    singles = repo.const("tokens", "SINGLETON_COMPOSITE_NAMES")
    UNREACHABLE_OBJECT_ALTS.clear()
    for t, k, node in S.all_slots():
        for a in S.alternatives(node):
            if a.cls == "OBJECT" and a.obj_type and a.obj_type not in singles:
                UNREACHABLE_OBJECT_ALTS.add((k, a.obj_type))
    ctx.units["object_alternatives_no_text_can_produce"] = sorted(map(str, UNREACHABLE_OBJECT_ALTS))
    cuts = _cutpoints(S)
    ann = S.annotations_raw()
    ctx.units.update({"annotated_entries": len(ann), "version_cut_points": cuts})
    roots = ["map"] if ctx.tier == "quick" else [t for t in S.types()]
    if ctx.tier == "quick":
        roots = ["map", "layer", "class", "style", "label", "symbol"]
    n_cmp = 0
    for root in roots:
        for v in cuts:
            fresh = smod.Schemas()

            def expanded_stub(I_, self_obj, args, kwargs, fresh=fresh):
                name = args[0]
                return fresh.expanded_type(name) if name in fresh.type_files else fresh.expanded(name + ".json")

            I2 = e.interp(stubs={"validator.Validator.get_expanded_schema": expanded_stub}, allow_fork=False, max_depth=80, max_steps=5_000_000)
            outs = I2.explore("validator.Validator.get_versioned_schema", lambda: (models.construct(e, "validator.Validator"), [v, root], {}))
            if len(outs) != 1 or outs[0].kind != "return":
                ctx.finding("R2", f"root {root} version {v}", "mappyfile/validator.py", f"get_versioned_schema fails: {[(o.kind, o.exc, o.value) for o in outs]}")
                continue
            code_tree = outs[0].value
            ref = smod.Schemas()
            ref_tree = ref.expanded_type(root)
            if "properties" in ref_tree:
                reference_prune(ref_tree["properties"], v, set())
            diffs = diff_trees(code_tree, ref_tree)
            n_cmp += 1
            if not diffs:
                ctx.ok("R2", f"root {root} version {v}", f"mappyfile/schemas/{root}.json", "pruned tree equals the reference")
            for path, why in diffs[:12]:
                p = "/".join(str(x) for x in path)
                generic = "/".join("*" if isinstance(x, int) else str(x) for x in path)
                ctx.finding("R2", f"root {root} | {generic} | {'kept' if 'kept' in why else 'dropped' if 'missing' in why else 'differs'}", f"mappyfile/schemas/{root}.json", f"version {v}: {p}: {why}")
    # one Validator asked for several root types at one version (validate([map, layer], version=v), or
    # get_versioned_schema twice): each root has its own expanded tree (loaded and cached per name and version),
    # and the later ones must come out pruned like the first - at every depth, behind every $ref
    hist_cuts = [c for c in cuts if c in (6.0, 7.6, 8.0)] or cuts[:2]
    for seq in (("map", "layer"), ("map", "class"), ("layer", "style", "map")):
        for v in hist_cuts if ctx.tier == "thorough" else hist_cuts[-1:]:
            fresh_by: dict = {}

            def expanded_hist(I_, self_obj, args, kwargs, fresh_by=fresh_by):
                name = args[0]
                fr_ = fresh_by.setdefault(name, smod.Schemas())
                return fr_.expanded_type(name) if name in fr_.type_files else fr_.expanded(name + ".json")

            def proxy_attr(fr, obj, name, fresh_by=fresh_by):
                # jsonref: the object standing where a "$ref" stood knows the reference it came from
                if name == "__reference__":
                    for fr_ in fresh_by.values():
                        for fn_, doc_ in fr_._expanded.items():
                            if doc_ is obj:
                                return {"$ref": fn_}
                return NotImplemented

            Ih = e.interp(stubs={"validator.Validator.get_expanded_schema": expanded_hist, "hook:dict_attr": proxy_attr}, allow_fork=False, max_depth=80, max_steps=8_000_000)
            inst_h = models.construct(e, "validator.Validator")
            for root in seq:
                outs = Ih.explore("validator.Validator.get_versioned_schema", lambda root=root: (inst_h, [v, root], {}))
                if len(outs) != 1 or outs[0].kind != "return":
                    ctx.finding("R2", f"one Validator, roots {seq}, version {v}", "mappyfile/validator.py", f"get_versioned_schema({v}, {root!r}) fails: {[(o.kind, o.exc) for o in outs]}")
                    break
                ref = smod.Schemas()
                ref_tree = ref.expanded_type(root)
                if "properties" in ref_tree:
                    reference_prune(ref_tree["properties"], v, set())
                diffs = diff_trees(outs[0].value, ref_tree)
                n_cmp += 1
                if not diffs:
                    ctx.ok("R2", f"one Validator, roots {seq}: {root} at version {v}", f"mappyfile/schemas/{root}.json", "pruned tree equals the reference")
                for path, why in diffs[:6]:
                    generic = "/".join("*" if isinstance(x, int) else str(x) for x in path)
                    ctx.finding("R2", f"one Validator, roots {seq}: {root} | {generic}", f"mappyfile/schemas/{root}.json", f"version {v}, after the same Validator served {seq[: seq.index(root)]}: {'/'.join(str(x) for x in path)}: {why}")
    ctx.units["pruned_trees_compared"] = n_cmp

    # ---- R3 cache histories ----------------------------------------------------------------------------
    ctx.rule("R3", "on one Validator object two schema requests share an expanded-schema object iff they have the same (name, version); pruning mutates the object cached for that version only; validate() prunes iff a version is given", 7)
    counter = {"n": 0}

    def jsonref_load(fr, self_obj, args, kwargs):
        counter["n"] += 1
        d = HDict()
        d["_load"] = counter["n"]
        d["properties"] = HDict()
        return d

    def open_stub(fr, self_obj, args, kwargs):
        return SObj("file", {"name": args[0]})

    base_stubs = {
        "ext:jsonref.load": jsonref_load,
        "ext:open": open_stub,
        "validator.Validator.get_schema_file": lambda I_, s, a, k: "<schemas>/" + (a[0] if isinstance(a[0], str) else "x") + ".json",
        "validator.Validator.get_schemas_folder": lambda I_, s, a, k: "<schemas>",
        "validator.Validator.get_schema_path": lambda I_, s, a, k: "file:///<schemas>/",
    }
    histories = [
        [("map", None), ("map", 7.6), ("map", 8.0), ("map", 7.6), ("map", None)],
        [("map", 7.6), ("layer", 7.6), ("map", None), ("layer", None), ("map", 7.6)],
        [("map", 8.0), ("map", 8), ("map", None)],
        [("map", 7.6), ("map", 7.0), ("map", 7), ("map", 7.65), ("map", 8.2), ("map", 8.0)],
    ]
    I3 = e.interp(stubs=base_stubs, defaults=False, allow_fork=False)
    for h in histories:
        inst = I3.instantiate("validator.Validator", [], {})
        objs = []
        for name, ver in h:
            outs = I3.explore("validator.Validator.get_expanded_schema", lambda name=name, ver=ver: (inst, [name] + ([ver] if ver is not None else []), {}))
            if len(outs) != 1 or outs[0].kind != "return":
                raise AnalysisError(f"get_expanded_schema not evaluable: {[(o.kind, o.exc, o.value) for o in outs]}")
            objs.append(outs[0].value)
        bad = []
        for i in range(len(h)):
            for j in range(i + 1, len(h)):
                same_key = h[i][0] == h[j][0] and ((h[i][1] is None) == (h[j][1] is None)) and (h[i][1] is None or float(h[i][1]) == float(h[j][1]))
                same_obj = objs[i] is objs[j]
                if same_obj and not same_key:
                    bad.append(f"requests {h[i]} and {h[j]} share one schema object")
        ctx.check(not bad, "R3", f"history {h}", repo.loc("validator", repo.func("validator.Validator.get_expanded_schema")), "distinct keys never share an object", "; ".join(bad) + ": pruning for one version changes the answer for the other")
    # the object pruned is the per-version one
    rec = {}

    def gvp(I_, self_obj, args, kwargs):
        rec["props"] = args[0]
        rec["version"] = args[1] if len(args) > 1 else kwargs.get("version")
        return args[0]

    def ges(I_, self_obj, args, kwargs):
        rec["ges_args"] = (args, kwargs)
        d = HDict()
        d["properties"] = HDict()
        rec["schema"] = d
        return d

    I4 = e.interp(stubs={"validator.Validator.get_versioned_properties": gvp, "validator.Validator.get_expanded_schema": ges}, allow_fork=False)
    rec.clear()
    I4.explore("validator.Validator.get_versioned_schema", lambda: (models.construct(e, "validator.Validator"), [7.6, "layer"], {}))
    a, k = rec.get("ges_args", ([], {}))
    passed_version = (len(a) > 1 and a[1] == 7.6) or k.get("version") == 7.6
    passed_name = (a and a[0] == "layer") or k.get("schema_name") == "layer"
    ctx.check(passed_version and passed_name and rec.get("props") is rec.get("schema", {}).get("properties") and rec.get("version") == 7.6, "R3", "get_versioned_schema prunes the object cached for (name, version)", repo.loc("validator", repo.func("validator.Validator.get_versioned_schema")), "", f"get_versioned_schema requests the expanded schema with {rec.get('ges_args')} and prunes {'another object' if rec.get('props') is not rec.get('schema', {}).get('properties') else 'it'} for version {rec.get('version')}")
    rec.clear()
    I4.explore("validator.Validator.get_versioned_schema", lambda: (models.construct(e, "validator.Validator"), [None, "map"], {}))
    ctx.check("props" not in rec, "R3", "no pruning without a version", repo.loc("validator", repo.func("validator.Validator.get_versioned_schema")), "", "the version-less schema is pruned")
    # validate(): versioned validator iff version given
    vfn = repo.func("validator.Validator.validate")
    # evaluated with recorders: which schema source is asked, and with what, for version None / 7.6
    for ver in (None, 7.6):
        asked: dict = {"versioned": [], "plain": []}

        def gvs(I_, self_obj, args, kwargs):
            asked["versioned"].append(I_.bind("validator.Validator.get_versioned_schema", repo.func("validator.Validator.get_versioned_schema"), self_obj, list(args), dict(kwargs)))
            return HDict()

        def gsv(I_, self_obj, args, kwargs):
            asked["plain"].append(list(args))
            return SObj("Validator", {})

        Iv = e.interp(stubs={"validator.Validator.get_versioned_schema": gvs, "validator.Validator.get_schema_validator": gsv, "validator.Validator._get_errors": lambda *a: [], "ext:jsonschema.Draft4Validator": lambda fr, so, a, k: SObj("Validator", {})}, allow_fork=False)
        outs = Iv.explore("validator.Validator.validate", lambda ver=ver: (models.construct(e, "validator.Validator"), [HDict({"__type__": "layer"})], {"version": ver} if ver is not None else {}))
        if len(outs) != 1 or outs[0].kind != "return":
            raise AnalysisError(f"validate(version={ver}) not evaluable: {[(o.kind, o.exc) for o in outs]}")
        if ver is None:
            good = not asked["versioned"] and len(asked["plain"]) == 1
        else:
            good = not asked["plain"] and len(asked["versioned"]) == 1 and asked["versioned"][0].get("version") == ver and asked["versioned"][0].get("schema_name") == "layer"
        ctx.check(good, "R3", f"validate(version={ver}) selects the {'versioned' if ver else 'plain'} schema", repo.loc("validator", vfn), "", f"validate(version={ver}) asks for versioned schemas {asked['versioned']} and plain validators {asked['plain']}")
    uv = repo.func("utils.validate")
    cs = [c for c in facts.calls["utils.validate"] if c.target == "validator.Validator.validate"]
    okv = False
    for c in cs:
        b = bind_args(c.node, vfn, skip_self=True)
        okv = isinstance(b.get("version"), ast.Name) and b["version"].id == "version"
    ctx.check(okv, "R3", "mappyfile.validate forwards version", repo.loc("utils", uv), "", "utils.validate does not pass its version on")
