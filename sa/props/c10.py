"""C10 - expression rewriting preserves structure."""

from __future__ import annotations

from .. import models, xform
from ..absval import SStr, Atom, SObj, CC
from ..core import AnalysisError, Ctx

META = {
    "explanation": "Grammar side: the operator ladder (levels, operator terminals and left recursion per level) is read off the rule shapes of the compiled grammar and compared with the reference precedence of C10's text; every shift/reduce conflict inside the expression sub-grammar must be resolved (lark always shifts) in the direction the reference demands (G5). Python side: PAI evaluates every expression-level callback on opaque operand texts and requires the result template to contain each operand exactly once, unmodified and in source order, with only spaces, the operator spelling (AND / OR / NOT for && || !) and at most one outermost balanced pair of parentheses added (M3); function calls, parameter lists, bindings, list expressions, regexes and runtime variables keep their elements verbatim (M4); expression() is evaluated on children of every form - ATOM, WRAPPED by a builder, OPEN, and OPEN forms that begin and end with parentheses of different groups - and must return a string enclosed by its own matching pair (form lattice, M5).",
    "level_text": "The property is structural: which operator binds tighter is a finite statement about the grammar's rule ladder and its LALR conflicts; what the builders do to their operands is decided for all operand texts at once by abstract evaluation. Nothing value-dependent remains.",
    "level_note": "Trusted: the reference precedence as written in C10; lark resolves shift/reduce conflicts as shift. Operand texts are opaque (any balanced text); quote characters inside string operands are not analysed.",
    "technique": "grammar ladder / LALR-conflict direction analysis + abstract interpretation of the string builders with a parenthesis form lattice",
}

REF = {}
for _w in ("or", "||"):
    REF[_w] = 0
for _w in ("and", "&&"):
    REF[_w] = 1
for _w in ("not", "!"):
    REF[_w] = 2
for _w in ("=", "==", "!=", "<", "<=", ">", ">=", "~", "~*", "=*", "in", "eq", "ne", "lt", "le", "gt", "ge", "like"):
    REF[_w] = 3
for _w in ("+", "-"):
    REF[_w] = 4
for _w in ("*", "/", "%", "^"):
    REF[_w] = 5
LEVEL_NAME = {0: "OR", 1: "AND", 2: "NOT", 3: "comparison", 4: "additive", 5: "multiplicative", 6: "unary"}


def ladder(G) -> tuple[list[dict], dict]:
    """Follow expression -> or_test -> ... : per level the operator terminals and recursion side."""
    exp = [r for r in G.by_origin.get("expression", [])]
    if not exp:
        raise AnalysisError("anchor vanished: rule expression")
    nts = [n for n, is_term, _ in exp[0].expansion if not is_term]
    if len(nts) != 1:
        raise AnalysisError("expression rule shape not recognised")
    cur = nts[0]
    levels = []
    seen = set()
    while cur and cur not in seen:
        seen.add(cur)
        rules = G.by_origin.get(cur, [])
        ops = set()
        nxt = None
        left = right = False
        unary_ops = set()
        for r in rules:
            names = [(n, t) for n, t, _ in r.expansion]
            nonterms = [n for n, t in names if not t]
            terms = [n for n, t in names if t]
            if len(nonterms) == 1 and not terms and nonterms[0] != cur:
                nxt = nonterms[0] if not G._is_inline(nonterms[0]) or True else nxt
            elif len(nonterms) == 2:
                # binary: R OP NEXT (operator may be a nonterminal like compare_op)
                a, b = nonterms[0], nonterms[-1]
                if a == cur:
                    left = True
                    if b != cur:
                        nxt = nxt or b
                if b == cur and a != cur:
                    right = True
                ops |= set(terms)
            elif len(nonterms) == 3:
                a, o, b = nonterms
                if a == cur:
                    left = True
                if b == cur and a != cur:
                    right = True
                for rr in G.by_origin.get(o, []):
                    ops |= {n for n, t, _ in rr.expansion if t}
                if b != cur:
                    nxt = nxt or b
            elif len(nonterms) == 1 and terms and nonterms[0] == cur:
                unary_ops |= set(terms)
        # helper alternatives produced by (x OP)? are separate rules: R: NEXT | R OP NEXT  - handled above
        levels.append({"rule": cur, "ops": ops, "left": left, "right": right, "unary": unary_ops})
        if nxt is None or nxt in ("value", "func_call") or cur == "atom":
            break
        cur = nxt
    return levels, {}


def op_spelling(G, term: str) -> str:
    t = G.terms[term]
    return t.value.lower()


def is_wrapped(s) -> bool:
    """The string is enclosed by one pair of parentheses that match each other (opaque atoms are
    balanced units)."""
    if isinstance(s, str):
        s = SStr.lit(s)
    pieces = s.pieces
    if not pieces or not isinstance(pieces[0], str) or not isinstance(pieces[-1], str):
        return False
    if not pieces[0].startswith("(") or not pieces[-1].endswith(")"):
        return False
    depth = 0
    n = len(pieces)
    quote = None  # brackets inside "..", '..' or `..` literals do not count
    for i, p in enumerate(pieces):
        if not isinstance(p, str):
            continue
        for j, ch in enumerate(p):
            if quote:
                if ch == quote:
                    quote = None
                continue
            if ch in "\"'`":
                quote = ch
                continue
            if ch == "(":
                depth += 1
            elif ch == ")":
                depth -= 1
                last = i == n - 1 and j == len(p) - 1
                if depth == 0 and not last:
                    return False
                if depth < 0:
                    return False
    return depth == 0


def canon(v):
    """Layout-insensitive form of a builder result: runs of spaces collapsed, no space just inside a
    parenthesis (C10 fixes operands, operator spellings, order and grouping - not spacing)."""
    import re as _re

    if isinstance(v, str):
        v = SStr.lit(v)
    if not isinstance(v, SStr):
        return v
    out = []
    for p in v.pieces:
        if isinstance(p, str):
            p = _re.sub(r"[ \t]+", " ", p)
            p = p.replace("( ", "(").replace(" )", ")")
        out.append(p)
    s2 = SStr(out)
    # "(" at the end of one literal piece followed by an atom etc. is already handled piecewise
    return s2


def same(a, b) -> bool:
    return canon(a) == canon(b)


def pai_desc(v):
    return v.describe() if isinstance(v, SStr) else v


def run(ctx: Ctx) -> None:
    e = models.env(ctx)
    repo, G = ctx.repo, e.G
    ctx.trusted += ["reference precedence: OR < AND < NOT < comparisons < + - < * / % ^ < unary minus", "lark resolves shift/reduce conflicts by shifting"]

    # ---- G5 ladder -------------------------------------------------------------------------------
    ctx.rule("G5", "operator ladder of the grammar agrees with the reference precedence; binary levels are left-recursive; every expression-level shift/reduce conflict is resolved towards the tighter operator", 30)
    levels, _ = ladder(G)
    ctx.units["ladder"] = [{"rule": l["rule"], "ops": sorted(op_spelling(G, o) for o in l["ops"]), "left_recursive": l["left"]} for l in levels]
    level_of = {}
    for i, l in enumerate(levels):
        for o in l["ops"]:
            level_of[o] = i
    if len(level_of) < 20:
        raise AnalysisError(f"operator ladder not recognised: {ctx.units['ladder']}")
    ops = sorted(level_of)

    def disagreements(pool):
        d = {a: [] for a in pool}
        for a in pool:
            sa2 = op_spelling(G, a)
            for b in pool:
                sb = op_spelling(G, b)
                if sa2 not in REF or sb not in REF:
                    continue
                if (REF[sa2] < REF[sb] and not level_of[a] < level_of[b]) or (REF[sa2] > REF[sb] and not level_of[a] > level_of[b]):
                    d[a].append(sb)
        return d

    # blame the fewest operators: repeatedly remove the operator with most disagreements
    pool = list(ops)
    blamed = {}
    while True:
        d = disagreements(pool)
        worst = max(pool, key=lambda a: len(d[a]), default=None)
        if worst is None or not d[worst]:
            break
        blamed[worst] = d[worst]
        pool.remove(worst)
    for a in ops:
        sa_ = op_spelling(G, a)
        if sa_ not in REF:
            ctx.finding("G5", f"operator {sa_}", "mappyfile/mapfile.lark", f"operator {sa_!r} is not in the reference precedence table")
            continue
        bad = blamed.get(a, [])
        ctx.check(not bad, "G5", f"operator {sa_} level", "mappyfile/mapfile.lark", f"{LEVEL_NAME[REF[sa_]]} operator at grammar level {levels[level_of[a]]['rule']}", f"'{sa_}' is a {LEVEL_NAME[REF[sa_]]} operator in the reference but sits at the grammar level of rule {levels[level_of[a]]['rule']}: relative to {sorted(set(bad))[:6]} the normalised string regroups operands (e.g. 1 + [a] {sa_} 2)")
    for l in levels:
        if l["ops"]:
            ctx.check(l["left"] and not l["right"], "G5", f"level {l['rule']} associativity", "mappyfile/mapfile.lark", "left-recursive", f"level {l['rule']} is not (only) left-recursive: a - b - c would group to the right")
    # NOT: operand is a comparison
    ne = G.by_origin.get("not_expression", [])
    ok_not = bool(ne) and all(any(n == "comparison" for n, t, _ in r.expansion if not t) for r in ne)
    ctx.check(ok_not, "G5", "NOT applies to a comparison", "mappyfile/mapfile.lark", "", "not_expression does not take a comparison operand: NOT binds at the wrong level")
    rank_of_origin = {}
    for i, l in enumerate(levels):
        if l["ops"]:
            ranks = {REF.get(op_spelling(G, o)) for o in l["ops"]} - {None}
            rank_of_origin[l["rule"]] = min(ranks) if ranks else None
    rank_of_origin["not_expression"] = 2
    n_conf = 0
    for c in G.conflicts:
        r = c["reduce"]
        if r.origin not in rank_of_origin and r.origin not in ("unary_expr", "atom", "neg"):
            continue  # block-level conflict: C19's
        la = c["lookahead"]
        if la not in G.terms:
            continue
        sp = op_spelling(G, la)
        n_conf += 1
        ro = rank_of_origin.get(r.origin, 6)
        rp = REF.get(sp)
        good = rp is not None and ro is not None and rp >= ro
        ctx.check(good, "G5", f"conflict reduce {r} / shift {sp}", "mappyfile/mapfile.lark", f"shift keeps {sp} (rank {rp}) inside the {r.origin} construct (rank {ro})", f"shift/reduce conflict: lark shifts '{sp}' although it binds looser than the pending {r.origin}: operands are regrouped")
    ctx.units["expression_conflicts"] = n_conf

    # ---- builders (PAI) --------------------------------------------------------------------------
    X = xform.AbstractTransformer(e)
    loc = lambda name: repo.loc("transformer", repo.func(f"transformer.MapfileTransformer.{name}"))
    OPER = frozenset()

    OPX = frozenset("()[]{}\"'` \t\nABCDEFGHIJKLMNOPQRSTUVWXYZ")

    mode = {"concrete": False}

    def operand(name):
        # opaque operand text: any bracket-free, quote-free, space-free lower-case text
        if mode["concrete"]:
            return models.token("OPERAND", name.lower() * 2)
        return models.token("OPERAND", SStr.atom(name, free=True, excludes=OPX))

    def OA(name):
        if mode["concrete"]:
            return name.lower() * 2
        return Atom(name, free=True, excludes=OPX)

    def optoken(term):
        return X.fresh_token(term)

    def run_cb(label, mk):
        outs = X.eval_callback(label, mk)
        if len(outs) != 1:
            ctx.finding("M3", f"builder {label} depends on the text of its operands", loc(label), f"{label} takes {len(outs)} different paths for opaque operands: {[o.assumptions for o in outs][:3]}")
        o = outs[0]
        if o.kind != "return":
            return None, o
        v = o.value
        return (v.attrs["value"] if isinstance(v, SObj) else v), o

    ctx.rule("M3", "each operator builder returns its operands once each, unmodified, in source order, joined only by spaces, the operator spelling and at most one outer balanced pair of parentheses", 25)
    # operands are opaque texts when the builders can be evaluated on them; builders that scan or
    # pattern-match their operands (regular expressions ...) are evaluated on concrete representatives
    try:
        for lab_ in ("and_test", "or_test", "add", "comparison", "not_expression", "neg", "func_params", "attr_bind", "list", "expression"):
            X.eval_callback(lab_, lambda: [operand("X"), operand("Y"), operand("Z")][: {"not_expression": 1, "neg": 1, "attr_bind": 1, "expression": 1, "comparison": 3, "func_params": 3}.get(lab_, 2)])
    except AnalysisError as ex:
        mode["concrete"] = True
        ctx.notes.append(f"builders are evaluated on concrete representative operands (symbolic evaluation not possible: {ex})")
    binary = {"and_test": " AND ", "or_test": " OR ", "add": " + ", "sub": " - ", "mul": " * ", "div": " / ", "power": " ^ "}
    wrapped_builders = {"and_test", "or_test", "comparison"}
    for lab, opx in binary.items():
        if not repo.has_func(f"transformer.MapfileTransformer.{lab}"):
            raise AnalysisError(f"anchor vanished: builder {lab}")
        v, o = run_cb(lab, lambda: [operand("X"), operand("Y")])
        core = SStr([OA("X"), opx, OA("Y")])
        want = SStr(["( ", core, " )"]) if lab in wrapped_builders else core
        ctx.check(same(v, want), "M3", f"builder {lab}", loc(lab), f"{want.describe()}", f"{lab}(X, Y) builds {v!r}, expected {want.describe()!r}: operands reordered, altered, duplicated or wrong operator spelling")
    # comparison with every operator terminal
    cmp_ops = sorted({n for r in G.by_origin.get("compare_op", []) for n, t, _ in r.expansion if t})
    for term in cmp_ops:
        holder = {}

        def mk(term=term):
            op = optoken(term)
            holder["op"] = op
            cres = X.call1("compare_op", lambda: [op])
            return [operand("X"), cres, operand("Y")]

        v, o = run_cb("comparison", mk)
        optext = holder["op"].attrs["value"]
        want = SStr(["( ", OA("X"), " ", optext, " ", OA("Y"), " )"])
        ctx.check(same(v, want), "M3", f"comparison with {op_spelling(G, term)}", loc("comparison"), want.describe(), f"comparison builds {v!r} for operator {op_spelling(G, term)}: expected {want.describe()!r} (operator spelling unchanged)")
    v, o = run_cb("not_expression", lambda: [operand("X")])
    ctx.check(same(v, SStr(["NOT ", OA("X")])), "M3", "builder not_expression", loc("not_expression"), "NOT X", f"not_expression(X) builds {v!r}")
    v, o = run_cb("neg", lambda: [operand("X")])
    ctx.check(same(v, SStr(["-", OA("X")])), "M3", "builder neg", loc("neg"), "-X", f"neg(X) builds {v!r}")
    # the builders return the token they were given first (position kept) - shared with C08

    # structured operands: what a builder receives in practice are results of other builders; a builder
    # that inspects its operands' text must still keep each operand whole, in order, once
    ctx.rule("M3b", "logical builders keep structured operands (bindings, bracketed comparisons, bracketed OR / AND groups, NOT forms, quoted literals containing brackets) whole and in order: result is ( L OP R )", 40)
    IDENT = frozenset("()[]{}\"'` \t\n=<>!~%+-*/^,ABCDEFGHIJKLMNOPQRSTUVWXYZ")

    def sbind(nm):
        # concrete representative names: the forms below are plain strings, so builders that use
        # regular expressions or scan characters can be evaluated exactly
        w = models.token("UNQUOTED_STRING", nm)
        return X.call1("attr_bind", lambda: [w])

    def scmp(a_, b_):
        return X.call1("comparison", lambda: [sbind(a_), X.eval_callback("compare_op", lambda: [optoken("EQUAL")])[0].value, sbind(b_)])

    def wrapped(res):
        return X.call1("expression", lambda: [res])

    def lit(text):
        return models.token("DOUBLE_QUOTED_STRING", text)

    operand_makers = {
        "binding": lambda n_: sbind(n_),
        "comparison": lambda n_: scmp(n_ + "x", n_ + "y"),
        "bracketed OR group": lambda n_: wrapped(X.call1("or_test", lambda: [scmp(n_ + "p", n_ + "q"), scmp(n_ + "r", n_ + "s")])),
        "bracketed AND group": lambda n_: wrapped(X.call1("and_test", lambda: [scmp(n_ + "p", n_ + "q"), scmp(n_ + "r", n_ + "s")])),
        "bracketed OR group containing an AND": lambda n_: wrapped(X.call1("or_test", lambda: [X.eval_callback("and_test", lambda: [scmp(n_ + "p", n_ + "q"), scmp(n_ + "r", n_ + "s")])[0].value, scmp(n_ + "t", n_ + "u")])),
        "NOT form": lambda n_: X.call1("not_expression", lambda: [scmp(n_ + "x", n_ + "y")]),
        "comparison with a literal containing )": lambda n_: X.call1("comparison", lambda: [sbind(n_), X.eval_callback("compare_op", lambda: [optoken("EQUAL")])[0].value, lit("`a)`")]),
    }
    for lab, opx in (("and_test", " AND "), ("or_test", " OR ")):
        for ln_, lm in operand_makers.items():
            for rn_, rm in operand_makers.items():
                if ctx.tier == "quick" and ln_ != rn_ and "group" not in ln_ and "group" not in rn_:
                    continue
                holder = {}

                def mk(lm=lm, rm=rm):
                    l_, r_ = lm("l"), rm("r")
                    holder["l"], holder["r"] = l_.attrs["value"], r_.attrs["value"]
                    return [l_, r_]

                outs = X.eval_callback(lab, mk)
                if len(outs) != 1 or outs[0].kind != "return":
                    ctx.finding("M3b", f"{lab}: {ln_} {opx.strip()} {rn_}", loc(lab), f"builder forks or fails on structured operands: {[(o.kind, o.exc, o.assumptions) for o in outs][:2]}")
                    continue
                v = outs[0].value.attrs["value"]
                want = SStr(["( ", holder["l"], opx, holder["r"], " )"])
                ctx.check(same(v, want), "M3b", f"{lab}: {ln_} {opx.strip()} {rn_}", loc(lab), "( L OP R )", f"{lab}(L, R) with L a {ln_} and R a {rn_} builds {pai_desc(v)!r} instead of {want.describe()!r}: operands are regrouped or altered")

    # arithmetic operands that begin with a number literal: the builders hand on the token of their first
    # operand, so a compound operand still carries the *type* (and lexed text) of its leftmost leaf
    ctx.rule("M3c", "an arithmetic operand whose leftmost leaf is a number literal is kept whole when a further operator or a comparison consumes it", 8)

    def numtok(kind, text):
        t_ = models.token(kind, text)
        return X.call1("float" if kind == "SIGNED_FLOAT" else "int", lambda: [t_])

    def val_of(r_):
        return r_.attrs["value"] if isinstance(r_, SObj) else r_

    for kind, text in (("SIGNED_FLOAT", "0.5"), ("SIGNED_INT", "7")):
        prod = lambda: X.call1("mul", lambda: [numtok(kind, text), sbind("a")])
        pv = str(pai_desc(val_of(prod())))
        cases = {
            f"comparison ({text} * [a]) = 1": (lambda: X.call1("comparison", lambda: [prod(), X.eval_callback("compare_op", lambda: [optoken("EQUAL")])[0].value, numtok("SIGNED_INT", "1")]), lambda: ["(", pv, "=", "1", ")"]),
            f"comparison [w] = ({text} * [a])": (lambda: X.call1("comparison", lambda: [sbind("w"), X.eval_callback("compare_op", lambda: [optoken("EQUAL")])[0].value, prod()]), lambda: ["(", "[w]", "=", pv, ")"]),
            f"sum ({text} * [a]) + [b]": (lambda: X.call1("add", lambda: [prod(), sbind("b")]), lambda: [pv, "+", "[b]"]),
            f"negation of {text}, compared": (lambda: X.call1("comparison", lambda: [X.call1("neg", lambda: [numtok(kind, text)]), X.eval_callback("compare_op", lambda: [optoken("EQUAL")])[0].value, sbind("a")]), lambda: ["(", "-" + str(pai_desc(val_of(numtok(kind, text)))), "=", "[a]", ")"]),
        }
        for cname, (mk_, want_) in cases.items():
            try:
                got = str(pai_desc(val_of(mk_())))
            except xform.CallbackFailed as ex:
                ctx.finding("M3c", cname, loc("comparison"), f"builder fails: {ex}")
                continue
            w_ = want_()
            ctx.check(got.replace(" ", "") == "".join(w_).replace(" ", ""), "M3c", cname, loc("comparison"), got, f"{cname} is normalised to {got!r}, expected {' '.join(w_)!r}: everything after the leading number literal of the compound operand is dropped or altered")

    ctx.rule("M4", "function calls, parameter lists, bindings, list expressions, regexes and runtime variables keep their elements verbatim with their delimiters", 7)
    v, o = run_cb("func_params", lambda: [operand("X"), operand("Y"), operand("Z")])
    ctx.check(same(v, SStr([OA("X"), ",", OA("Y"), ",", OA("Z")])), "M4", "func_params", loc("func_params"), "X,Y,Z", f"func_params builds {v!r}")
    # structured parameters: a parameter may itself be a bracketed expression, a binding or a quoted literal
    # holding brackets; each is kept whole (its own brackets included), in order, separated by commas only
    param_makers = {
        "bracketed sum": lambda: wrapped(X.call1("add", lambda: [sbind("pa"), numtok("SIGNED_INT", "1")])),
        "bracketed comparison": lambda: wrapped(scmp("px", "py")),
        "binding": lambda: sbind("pb"),
        "literal in brackets-like quotes": lambda: lit('"(x)"'),
        "number": lambda: numtok("SIGNED_INT", "2"),
    }
    for pn1, pm1 in param_makers.items():
        for pn2, pm2 in param_makers.items():
            if ctx.tier == "quick" and pn1 != pn2 and "bracketed" not in pn1 and "bracketed" not in pn2:
                continue
            hold = {}

            def mkp(pm1=pm1, pm2=pm2):
                p1, p2 = pm1(), pm2()
                hold["t"] = [str(pai_desc(val_of(p1))), str(pai_desc(val_of(p2)))]
                return [p1, p2]

            try:
                outs_ = X.eval_callback("func_params", mkp)
            except xform.CallbackFailed as ex:
                ctx.finding("M4", f"func_params({pn1}, {pn2})", loc("func_params"), f"builder fails: {ex}")
                continue
            if len(outs_) != 1 or outs_[0].kind != "return":
                ctx.finding("M4", f"func_params({pn1}, {pn2})", loc("func_params"), f"func_params forks or fails on structured parameters: {[(o_.kind, o_.exc) for o_ in outs_][:2]}")
                continue
            got_ = str(pai_desc(val_of(outs_[0].value)))
            want_ = ",".join(hold["t"])
            ctx.check(got_ == want_, "M4", f"func_params({pn1}, {pn2})", loc("func_params"), want_, f"func_params with a {pn1} and a {pn2} builds {got_!r} instead of {want_!r}: a parameter is not kept verbatim (the grammar takes a bracketed parameter only with its brackets, so the normalised string no longer re-parses)")
    v, o = run_cb("func_call", lambda: [operand("F"),(("pp") if mode["concrete"] else SStr.atom("P", free=True, excludes=OPX))])
    ctx.check(same(v, SStr(["(", OA("F"), "(", OA("P"), "))"])), "M4", "func_call", loc("func_call"), "(F(P))", f"func_call builds {v!r}")
    v, o = run_cb("attr_bind", lambda: [operand("W")])
    ctx.check(same(v, SStr(["[", OA("W"), "]"])), "M4", "attr_bind", loc("attr_bind"), "[W]", f"attr_bind builds {v!r}")
    for lab in ("regexp", "runtime_var"):
        v, o = run_cb(lab, lambda: [operand("R")])
        ctx.check(same(v, SStr([OA("R")])), "M4", lab, loc(lab), "verbatim", f"{lab} builds {v!r}")
    # list: elements are raw tokens (strings keep quotes, numbers their text)
    v, o = run_cb("list", lambda: [operand("A"), operand("B")])
    ctx.check(same(v, SStr(["{", OA("A"), ",", OA("B"), "}"])), "M4", "list", loc("list"), "{A,B}", f"list builds {v!r}")
    # a list element whose callback rewrote .value (binding, signed number ...) : str(token) is the source text
    holder = {}

    def mk_list_bind():
        w = models.token("UNQUOTED_STRING", "ww" if mode["concrete"] else SStr.atom("W", free=True, excludes=OPX))
        b = X.call1("attr_bind", lambda: [w])
        holder["b"] = b
        return [b, operand("B")]

    v, o = run_cb("list", mk_list_bind)
    want = SStr(["{[", OA("W"), "],", OA("B"), "}"])
    ctx.check(same(v, want), "M4", "list with a binding element", loc("list"), want.describe(), f"a list expression {{[W],B}} is rebuilt as {v!r}: the element loses its delimiters (the callback uses the token's source text, not its rewritten value)")

    # ---- form lattice ----------------------------------------------------------------------------
    ctx.rule("M5", "expression() returns a string enclosed by its own matching pair of parentheses for every form of its child (atom, wrapped, open, open with leading and trailing parentheses of different groups)", 6)

    def tokv(res):
        return res.attrs["value"]

    def bind(name):
        w = models.token("UNQUOTED_STRING", name)
        return X.call1("attr_bind", lambda: [w])

    def expr_of(child_maker):
        return X.call1("expression", lambda: [child_maker()])

    forms = {
        "ATOM binding [a]": lambda: bind("a"),
        "WRAPPED comparison ( [a] = [b] )": lambda: X.call1("comparison", lambda: [bind("a"), X.eval_callback("compare_op", lambda: [optoken("EQUAL")])[0].value, bind("b")]),
        "OPEN sum [a] + [b]": lambda: X.call1("add", lambda: [bind("a"), bind("b")]),
        "OPEN (..) - (..)  of two parenthesised operands": lambda: X.call1("sub", lambda: [expr_of(lambda: bind("a")), expr_of(lambda: bind("b"))]),
        "OPEN (..) / (..)": lambda: X.call1("div", lambda: [expr_of(lambda: bind("a")), expr_of(lambda: bind("b"))]),
        "WRAPPED nested expression (([a]))": lambda: expr_of(lambda: bind("a")),
        "comparison whose literal contains a bracket, double quotes": lambda: X.call1("comparison", lambda: [bind("a"), X.eval_callback("compare_op", lambda: [optoken("EQUAL")])[0].value, models.token("DOUBLE_QUOTED_STRING", '"a)"')]),
        "comparison whose literal contains a bracket, single quotes": lambda: X.call1("comparison", lambda: [bind("a"), X.eval_callback("compare_op", lambda: [optoken("EQUAL")])[0].value, models.token("SINGLE_QUOTED_STRING", "'(a'")]),
        "comparison whose literal contains a bracket, back quotes": lambda: X.call1("comparison", lambda: [bind("a"), X.eval_callback("compare_op", lambda: [optoken("EQUAL")])[0].value, models.token("ESCAPED_STRING", "`a)`")]),
        "function call (f(p))": lambda: X.call1("func_call", lambda: [models.token("UNQUOTED_STRING", "tostring"), "[a],1"]),
        "OPEN sum with a back-quoted ( literal, minus a bracketed sum": lambda: X.call1("sub", lambda: [expr_of(lambda: X.eval_callback("add", lambda: [bind("a"), models.token("ESCAPED_STRING", "`(`")])[0].value), expr_of(lambda: X.eval_callback("add", lambda: [bind("b"), models.token("SIGNED_INT", "1")])[0].value)]),
        "OPEN sum of bracketed sums with ` (` and `)` literals": lambda: X.call1("add", lambda: [expr_of(lambda: X.eval_callback("add", lambda: [bind("n"), models.token("ESCAPED_STRING", "` (`")])[0].value), expr_of(lambda: X.eval_callback("add", lambda: [bind("c"), models.token("ESCAPED_STRING", "`)`")])[0].value)]),
        "OPEN sum with a double-quoted ) literal first": lambda: X.call1("add", lambda: [expr_of(lambda: X.eval_callback("add", lambda: [models.token("DOUBLE_QUOTED_STRING", '")"'), bind("a")])[0].value), expr_of(lambda: bind("b"))]),
        "OPEN sum with a single-quoted ( literal last": lambda: X.call1("add", lambda: [expr_of(lambda: bind("a")), expr_of(lambda: X.eval_callback("add", lambda: [bind("b"), models.token("SINGLE_QUOTED_STRING", "'('")])[0].value)]),
    }
    for name, mk in forms.items():
        outs = X.eval_callback("expression", lambda mk=mk: [mk()])
        for o in outs:
            if o.kind != "return":
                ctx.finding("M5", f"expression of {name}", loc("expression"), f"raises {o.exc}")
                continue
            v = tokv(o.value)
            ctx.check(is_wrapped(v), "M5", f"expression of {name}", loc("expression"), f"returns {v.describe() if isinstance(v, SStr) else v!r}", f"expression() returns {v.describe() if isinstance(v, SStr) else v!r} for a child of form {name}: the explicit outer parentheses of the source are lost because the child happens to begin with '(' and end with ')' (assumptions {o.assumptions})")
    ctx.units.update({"pai_paths": X.I.paths_run, "comparison_operators": [op_spelling(G, t) for t in cmp_ops]})
