"""C15 - INCLUDE expansion equals textual substitution, bounded at 5 levels."""

from __future__ import annotations

import ast

from .. import models, pai
from ..absval import SStr, Atom, CC
from ..core import AnalysisError, Ctx, fold, norm
from ..pyfacts import dotted, calls_in, guards_at, terminates, bind_args, walk_guarded

META = {
    "explanation": "Structural rules on Parser.load_includes and its callers: the depth counter's only sources are the default 0 and '_nested_includes + 1' at the single recursive call, a raise guarded by '_nested_includes == 5' precedes the file open and the recursive call on every path (I1); the recursive call passes the root file name unchanged and relative names are joined to dirname(fn); fn flows from open()/load() (I2); every exception handler on the path re-raises (I3); the substitution loop is index-stable and the text is re-joined with the separator it was split on (I4); expansion happens only under expand_includes and INCLUDE is a repeated key otherwise (I5); PAI evaluates _get_include_filename on the line templates INCLUDE <name> / \"<name>\" / '<name>' with and without a trailing # comment (I6).",
    "level_text": "Necessary structural conditions decided for all inputs: bounded recursion depth (<= 5 expansions, so cyclic includes terminate with ValueError), root-relative path resolution, error propagation and index stability of the line substitution. Equality with textual substitution for every cut point is not decided (needs files).",
    "level_note": "Trusted: os.path functions, str.split/join inverse on the same separator. A line-oriented scan is assumed (INCLUDE on its own line, as the property states).",
    "technique": "AST dataflow / dominance rules on the recursion counter and path arguments + abstract interpretation of the file-name extraction",
}

LIMIT = 5


def split_join_pairing(fn: ast.FunctionDef):
    """(line-list variable, separator description, ok, message, node): how load_includes cuts its
    text into lines and puts it together again.  The pre-pass is the identity on text without
    INCLUDE lines only if it joins with exactly the separator it split on."""
    lines_var = None
    split_sep = None
    split_node = None
    for n in ast.walk(fn):
        if isinstance(n, ast.Assign) and isinstance(n.value, ast.Call) and isinstance(n.value.func, ast.Attribute) and n.value.func.attr in ("split", "splitlines", "rsplit") and isinstance(n.targets[0], ast.Name):
            c = n.value
            if isinstance(c.func.value, ast.Name) and c.func.value.id == fn.args.args[1].arg:
                lines_var = n.targets[0].id
                split_node = c
                if c.func.attr == "splitlines":
                    keep = (c.args and fold(c.args[0])) or any(k.arg == "keepends" and fold(k.value) for k in c.keywords)
                    split_sep = "" if keep else ANY_BOUNDARY
                else:
                    split_sep = fold(c.args[0]) if c.args else None
                    if len(c.args) > 1 or c.keywords:
                        split_sep = ("limited", split_sep)
    if lines_var is None:
        raise AnalysisError("anchor vanished: the split of the text into lines in load_includes")
    rets = [n for n in ast.walk(fn) if isinstance(n, ast.Return) and n.value is not None]
    if not rets:
        raise AnalysisError("anchor vanished: return of load_includes")
    if split_sep == ANY_BOUNDARY:
        return lines_var, "every line boundary", False, f"the text is cut with {norm(split_node)}, which also splits at \\r, \\x0b, \\x0c, \\x1c-\\x1e, \\x85, \\u2028 and \\u2029 and drops the separator, but is returned as {[norm(r.value) for r in rets]}: those characters inside a quoted value come back as a different character", split_node
    join_ok = all(isinstance(r.value, ast.Call) and isinstance(r.value.func, ast.Attribute) and r.value.func.attr == "join" and isinstance(r.value.func.value, ast.Constant) and r.value.func.value.value == split_sep and r.value.args and isinstance(r.value.args[0], ast.Name) and r.value.args[0].id == lines_var for r in rets)
    return lines_var, split_sep, join_ok, f"text is split on {split_sep!r} but returned as {[norm(r.value) for r in rets]}", (split_node if join_ok else rets[0])


ANY_BOUNDARY = object()


def run(ctx: Ctx) -> None:
    e = models.env(ctx)
    repo, facts = ctx.repo, e.facts
    fn = repo.func("parser.Parser.load_includes")
    loc = lambda n: repo.loc("parser", n)
    params = [a.arg for a in fn.args.args]
    ctx.trusted += ["os.path.isabs/abspath/join/dirname", "str.split('\\n') / '\\n'.join are inverse"]
    ctx.not_decided += ["equality with textual substitution for every cut point of every include tree"]

    # ---- I1 bounded recursion ---------------------------------------------------------------
    ctx.rule("I1", f"depth counter: default 0, incremented by exactly 1 at the only recursive call, and a raise guarded by 'counter == {LIMIT}' precedes the file read and the recursion; no external caller passes the counter", 5)
    depth = None
    for a, d in zip(fn.args.args[len(fn.args.args) - len(fn.args.defaults) :], fn.args.defaults):
        if a.arg.startswith("_nested") or "nest" in a.arg:
            depth = a.arg
            ctx.check(isinstance(d, ast.Constant) and d.value == 0, "I1", "counter default", loc(fn), "default 0", f"default of {a.arg} is {norm(d)}, not 0")
    if depth is None:
        raise AnalysisError("anchor vanished: depth counter parameter of load_includes")
    rec_calls = [cs for cs in facts.calls["parser.Parser.load_includes"] if cs.target == "parser.Parser.load_includes"]
    ctx.check(len(rec_calls) == 1, "I1", "single recursive call", loc(fn), "", f"{len(rec_calls)} recursive calls of load_includes")
    for cs in rec_calls:
        b = bind_args(cs.node, fn, skip_self=True)
        a = b.get(depth)
        good = isinstance(a, ast.BinOp) and isinstance(a.op, ast.Add) and ((isinstance(a.left, ast.Name) and a.left.id == depth and isinstance(a.right, ast.Constant) and a.right.value == 1) or (isinstance(a.right, ast.Name) and a.right.id == depth and isinstance(a.left, ast.Constant) and a.left.value == 1))
        ctx.check(good, "I1", "recursive call increments the counter", loc(cs.node), f"{depth} + 1", f"recursive call passes {norm(a) if a is not None else 'nothing'} for {depth}: the depth bound does not hold")
    # stores to the counter
    stores = [n for n in ast.walk(fn) if isinstance(n, ast.Name) and n.id == depth and isinstance(n.ctx, ast.Store)]
    ctx.check(not stores, "I1", "counter never reassigned", loc(fn), "", f"{depth} is reassigned inside load_includes")
    # the guard
    guard_raises = []
    for st, gs in walk_guarded(fn):
        if isinstance(st, ast.Raise):
            for g in gs:
                t = g.test
                if g.positive and isinstance(t, ast.Compare) and len(t.ops) == 1 and isinstance(t.left, ast.Name) and t.left.id == depth and isinstance(t.comparators[0], ast.Constant):
                    guard_raises.append((st, t))
    okg = False
    for st, t in guard_raises:
        c = t.comparators[0].value
        if (isinstance(t.ops[0], ast.Eq) and c == LIMIT) or (isinstance(t.ops[0], ast.GtE) and c == LIMIT) or (isinstance(t.ops[0], ast.Gt) and c == LIMIT - 1):
            okg = True
    ctx.check(okg, "I1", f"raise guarded by {depth} == {LIMIT}", loc(guard_raises[0][0]) if guard_raises else loc(fn), "", f"no raise guarded by {depth} reaching {LIMIT} (found {[norm(t) for _, t in guard_raises]}): nesting is not bounded at the documented 5 levels")
    # the guarded raise precedes open_file and the recursive call: they must be dominated by "not (depth == 5)"
    for what, pred in (("file read", lambda c: isinstance(c.func, ast.Attribute) and c.func.attr == "open_file"), ("recursive call", lambda c: any(c is r.node for r in rec_calls))):
        sites = [c for c in calls_in(fn) if pred(c)]
        if not sites:
            raise AnalysisError(f"anchor vanished: {what} in load_includes")
        for c in sites:
            gs = guards_at(fn, c)
            dom = any((not g.positive) and isinstance(g.test, ast.Compare) and isinstance(g.test.left, ast.Name) and g.test.left.id == depth for g in gs)
            ctx.check(dom, "I1", f"{what} dominated by the depth test", loc(c), "", f"the {what} can be reached without passing the depth test")
    # nothing but (text, fn, depth) may travel between nesting levels: a container shared across the
    # recursion (a cache of expanded files ...) lets text expanded at one depth be reused at another,
    # which bypasses the depth test for the nested includes of that text
    for cs in rec_calls:
        b = bind_args(cs.node, fn, skip_self=True)
        extra = {k: v for k, v in b.items() if v is not None and k not in (params[1] if len(params) > 1 else "text", "fn", depth)}
        ctx.check(not extra, "I1", "recursive call passes only text, fn and the depth counter", loc(cs.node), "", f"the recursive call also passes {sorted(extra)}: state shared between nesting levels (e.g. a cache of expanded includes) lets text expanded at a shallow depth be spliced in deeper without re-checking the depth of its own includes")
    # the text spliced in for an INCLUDE line is the result of the recursive call made for that line
    splice_ok = True
    splice_desc = []
    for n in ast.walk(fn):
        if isinstance(n, ast.Assign) and len(n.targets) == 1 and isinstance(n.targets[0], ast.Subscript) and isinstance(n.targets[0].value, ast.Name) and n.targets[0].value.id == "includes":
            direct = any(n.value is r.node for r in rec_calls)
            splice_desc.append(norm(n.value)[:60])
            splice_ok = splice_ok and direct
    ctx.check(splice_ok and bool(splice_desc), "I1", "replacement text is the recursive expansion of that very line", loc(fn), "", f"the replacement stored for an INCLUDE line is {splice_desc}, not the result of the recursive call for that line (at depth + 1)")
    for cs in facts.callers_of("parser.Parser.load_includes"):
        if cs.caller == "parser.Parser.load_includes":
            continue
        b = bind_args(cs.node, fn, skip_self=True)
        ctx.check(b.get(depth) is None, "I1", f"caller {cs.caller} does not pass the counter", repo.loc(cs.caller.split(".")[0], cs.node), "", f"{cs.caller} passes {depth}")

    # ---- I2 root-relative paths ----------------------------------------------------------------
    ctx.rule("I2", "relative include names resolve against dirname(root file name): the recursive call passes fn unchanged, the join uses os.path.dirname(fn), fn defaults to cwd only when absent, parse_file/load forward the file name", 5)
    for cs in rec_calls:
        b = bind_args(cs.node, fn, skip_self=True)
        a = b.get("fn")
        ctx.check(isinstance(a, ast.Name) and a.id == "fn", "I2", "recursive call passes fn", loc(cs.node), "", f"recursive call passes {norm(a) if a is not None else 'no fn'}: nested relative includes would resolve against the wrong directory")
    joins = [c for c in calls_in(fn) if dotted(c.func) == "os.path.join"]
    goodj = any(c.args and isinstance(c.args[0], ast.Call) and dotted(c.args[0].func) == "os.path.dirname" and c.args[0].args and isinstance(c.args[0].args[0], ast.Name) and c.args[0].args[0].id == "fn" for c in joins)
    ctx.check(goodj, "I2", "join with dirname(fn)", loc(joins[0]) if joins else loc(fn), "", "relative include paths are not joined to os.path.dirname(fn)")
    for c in joins:
        gs = guards_at(fn, c)
        isabs = any((not g.positive) and isinstance(g.test, ast.Call) and dotted(g.test.func) == "os.path.isabs" for g in gs) or any(g.positive and isinstance(g.test, ast.UnaryOp) and isinstance(g.test.operand, ast.Call) and dotted(g.test.operand.func) == "os.path.isabs" for g in gs)
        ctx.check(isabs, "I2", "join only for relative names", loc(c), "", "absolute include paths are re-joined")
    fn_stores = [(st, gs) for st, gs in walk_guarded(fn) if isinstance(st, ast.Assign) and any(isinstance(t, ast.Name) and t.id == "fn" for t in st.targets)]
    for st, gs in fn_stores:
        cond = any(g.positive and isinstance(g.test, ast.Compare) and isinstance(g.test.left, ast.Name) and g.test.left.id == "fn" and isinstance(g.test.ops[0], ast.Is) for g in gs)
        ctx.check(cond and "getcwd" in norm(st.value), "I2", "fn default is the working directory, only when fn is None", loc(st), "", f"fn is overwritten: {norm(st)}")
    pf = repo.func("parser.Parser.parse_file")
    for q, argname in (("parser.Parser.parse_file", "fn"), ("parser.Parser.load", "fn")):
        f2 = repo.func(q)
        cs2 = [c for c in facts.calls[q] if c.target == "parser.Parser.parse"]
        good = False
        for c in cs2:
            b = bind_args(c.node, repo.func("parser.Parser.parse"), skip_self=True)
            good = isinstance(b.get("fn"), ast.Name) and b["fn"].id == argname
        ctx.check(good, "I2", f"{q} forwards the file name", repo.loc("parser", f2), "", f"{q} does not pass the file name to parse(): relative includes resolve against the working directory")
    pr = repo.func("parser.Parser.parse")
    cs3 = [c for c in facts.calls["parser.Parser.parse"] if c.target == "parser.Parser.load_includes"]
    for c in cs3:
        b = bind_args(c.node, fn, skip_self=True)
        ctx.check(isinstance(b.get("fn"), ast.Name) and b["fn"].id == "fn", "I2", "parse forwards fn to load_includes", loc(c.node), "", "parse() does not forward fn")

    # ---- I3 errors propagate -------------------------------------------------------------------
    ctx.rule("I3", "every exception handler on the include path re-raises (missing file -> IOError, bad encoding -> UnicodeDecodeError)", 2)
    for q in ("parser.Parser.load_includes", "parser.Parser.open_file"):
        f2 = repo.func(q)
        for n in ast.walk(f2):
            if isinstance(n, ast.ExceptHandler):
                ctx.check(terminates(n.body) and isinstance(n.body[-1], ast.Raise), "I3", f"{q}: except {norm(n.type) if n.type else ''}", repo.loc("parser", n), "re-raises", "handler swallows the exception: a missing or undecodable include is silently skipped")

    # ---- I4 index-stable substitution ----------------------------------------------------------
    ctx.rule("I4", "the replacement loop pops and inserts at the same index with nothing else mutating the line list; text is split and joined on the same separator", 2)
    lines_var, split_sep, join_ok, why, where = split_join_pairing(fn)
    ctx.check(join_ok, "I4", "split / join separator", loc(where), f"separator {split_sep!r}", why)
    muts = []
    for n in ast.walk(fn):
        if isinstance(n, ast.Call) and isinstance(n.func, ast.Attribute) and isinstance(n.func.value, ast.Name) and n.func.value.id == lines_var and n.func.attr in ("pop", "insert", "append", "remove", "extend", "clear", "sort", "reverse"):
            muts.append(n)
        if isinstance(n, (ast.Assign, ast.Delete)):
            for t in (n.targets if isinstance(n, (ast.Assign, ast.Delete)) else []):
                if isinstance(t, ast.Subscript) and isinstance(t.value, ast.Name) and t.value.id == lines_var:
                    muts.append(n)
    kinds = [m.func.attr if isinstance(m, ast.Call) else "subscript-store" for m in muts]
    if kinds == ["pop", "insert"]:
        p, i = muts
        same = norm(p.args[0]) == norm(i.args[0]) and len(i.args) == 2
        ctx.check(same, "I4", "pop(idx) + insert(idx, text)", loc(p), "same index", f"pop({norm(p.args[0])}) but insert({norm(i.args[0])}, ...): later replacements shift")
    elif kinds == ["subscript-store"]:
        ctx.ok("I4", "in-place replacement lines[idx] = text", loc(muts[0]), "index-stable")
    else:
        ctx.finding("I4", "mutations of the line list", loc(fn), f"line list is mutated by {kinds}: replacement is not index-stable")

    # ---- I5 opt-out ----------------------------------------------------------------------------
    ctx.rule("I5", "load_includes is called only under self.expand_includes; INCLUDE is a repeated key so unexpanded directives are kept and written back", 2)
    for c in cs3:
        gs = guards_at(pr, c.node)
        ctx.check(any(g.positive and dotted(g.test) == "self.expand_includes" for g in gs), "I5", "expansion guarded by expand_includes", loc(c.node), "", "includes are expanded even with expand_includes=False")
    ctx.check("include" in repo.const("tokens", "REPEATED_KEYS"), "I5", "include in REPEATED_KEYS", "mappyfile/tokens.py", "", "INCLUDE is not a repeated key: several INCLUDE lines would overwrite each other when not expanded")

    # ---- I6 file-name extraction (PAI) ---------------------------------------------------------
    ctx.rule("I6", "_get_include_filename returns the bare file name for INCLUDE <f>, \"<f>\", '<f>' with or without a trailing # comment", 6)
    I = e.interp(allow_fork=False)
    body = lambda: Atom("f", first=CC.of("abcdefghijklmnopqrstuvwxyz/._0123456789"), last=CC.of("abcdefghijklmnopqrstuvwxyz0123456789"), excludes=frozenset(" \t\n\r\x0b\x0c#'\""))
    cm = lambda: Atom("c", nonempty=False, excludes=frozenset("\n"))
    n_ok = 0
    for q in ("", '"', "'"):
        for comment in (False, True):
            def make(q=q, comment=comment):
                pieces = ["INCLUDE ", q, body(), q] + ([" # "] if comment else [])
                line = SStr(pieces)
                if comment:
                    # the comment text may contain anything but a newline; model it as words without '#'
                    line = SStr(pieces + [Atom("c", excludes=frozenset(" \t\n\r\x0b\x0c#"))])
                inst = pai.Inst("parser.Parser")
                return inst, [line], {}
            try:
                outs = I.explore("parser.Parser._get_include_filename", make)
            except AnalysisError:
                raise
            want = SStr([body()])
            good = len(outs) == 1 and outs[0].kind == "return" and outs[0].value == want
            ctx.check(good, "I6", f"quote={q or 'none'} comment={comment}", repo.loc("parser", repo.func("parser.Parser._get_include_filename")), f"returns {outs[0].value!r}" if outs else "", f"returns {[(o.kind, o.value, o.exc) for o in outs]}, expected the bare name")
    ctx.units.update({"functions": ["parser.Parser.load_includes", "parser.Parser._get_include_filename", "parser.Parser.open_file", "parser.Parser.parse_file", "parser.Parser.load", "parser.Parser.parse"], "pai_paths": I.paths_run})
