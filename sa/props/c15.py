"""C15 - INCLUDE expansion equals textual substitution, bounded at 5 levels."""

from __future__ import annotations

import ast

from .. import models, pai
from ..absval import SStr, Atom, CC
from ..core import AnalysisError, Ctx, fold, norm
from ..pyfacts import dotted, calls_in, guards_at, terminates, bind_args, walk_guarded

META = {
    "explanation": "Parser.load_includes is evaluated by PAI on a virtual file system (open_file replaced by a recorder over a table of texts whose lines are opaque atoms, os.path functions by the real POSIX path functions with the working directory /cwd): each INCLUDE line is replaced in place by its file's expansion, relative names resolve against the directory of the ROOT file at every depth, absolute names are used as given, the working directory stands in when no file name is known or the root is named without a directory part (main.map, ./main.map, maps/main.map) (I2); a chain of exactly 5 nested files expands, a sixth level raises ValueError before its file is read, and a file reached again one level deeper is bounded by its own depth (I1, together with the structural counter rules: default 0, +1 at the single recursive call, no outside caller passes the counter; what else travels between nesting levels and how the expansion is stored is judged by the evaluated scenarios only); every exception handler on the path re-raises (I3); the line list is replaced index-stably and the text is re-joined with exactly the separator it was cut with (I4); expansion happens only under expand_includes and INCLUDE is a repeated key otherwise (I5); the helper that reads the file name off an INCLUDE line (found by role) is evaluated on INCLUDE <name> / \"<name>\" / '<name>' with and without a trailing # comment (I6).",
    "level_text": "Necessary structural conditions decided for all inputs: bounded recursion depth (<= 5 expansions, so cyclic includes terminate with ValueError), root-relative path resolution, error propagation and index stability of the line substitution. Equality with textual substitution for every cut point is not decided (needs files).",
    "level_note": "Trusted: os.path functions, str.split/join inverse on the same separator. A line-oriented scan is assumed (INCLUDE on its own line, as the property states).",
    "technique": "AST dataflow / dominance rules on the recursion counter and path arguments + abstract interpretation of the file-name extraction",
}

LIMIT = 5


def split_join_pairing(fn: ast.FunctionDef):
    """(line-list variable, separator description, ok, message, node): how load_includes cuts its
    text into lines and puts it together again.  The pre-pass is the identity on text without
    INCLUDE lines only if it joins with exactly the separator it split on."""
    lines_var = None
    split_sep = None
    split_node = None
    for n in ast.walk(fn):
        if isinstance(n, ast.Assign) and isinstance(n.value, ast.Call) and isinstance(n.value.func, ast.Attribute) and n.value.func.attr in ("split", "splitlines", "rsplit") and isinstance(n.targets[0], ast.Name):
            c = n.value
            if isinstance(c.func.value, ast.Name) and c.func.value.id == fn.args.args[1].arg:
                lines_var = n.targets[0].id
                split_node = c
                if c.func.attr == "splitlines":
                    keep = (c.args and fold(c.args[0])) or any(k.arg == "keepends" and fold(k.value) for k in c.keywords)
                    split_sep = "" if keep else ANY_BOUNDARY
                else:
                    split_sep = fold(c.args[0]) if c.args else None
                    if len(c.args) > 1 or c.keywords:
                        split_sep = ("limited", split_sep)
    if lines_var is None:
        raise AnalysisError("anchor vanished: the split of the text into lines in load_includes")
    rets = [n for n in ast.walk(fn) if isinstance(n, ast.Return) and n.value is not None]
    if not rets:
        raise AnalysisError("anchor vanished: return of load_includes")
    if split_sep == ANY_BOUNDARY:
        return lines_var, "every line boundary", False, f"the text is cut with {norm(split_node)}, which also splits at \\r, \\x0b, \\x0c, \\x1c-\\x1e, \\x85, \\u2028 and \\u2029 and drops the separator, but is returned as {[norm(r.value) for r in rets]}: those characters inside a quoted value come back as a different character", split_node
    join_ok = all(isinstance(r.value, ast.Call) and isinstance(r.value.func, ast.Attribute) and r.value.func.attr == "join" and isinstance(r.value.func.value, ast.Constant) and r.value.func.value.value == split_sep and r.value.args and isinstance(r.value.args[0], ast.Name) and r.value.args[0].id == lines_var for r in rets)
    return lines_var, split_sep, join_ok, f"text is split on {split_sep!r} but returned as {[norm(r.value) for r in rets]}", (split_node if join_ok else rets[0])


ANY_BOUNDARY = object()


class _Scenarios:
    """load_includes evaluated by PAI on a virtual file system: ``files`` maps path terms to texts; the
    lines of every text are opaque atoms (any line that is not an INCLUDE directive) or literal
    INCLUDE lines; os.path functions build terms (ABS / JOIN / DIR), isabs looks at the leading '/'."""

    def __init__(self, e):
        self.files: dict = {}
        self.opened: list = []

        def key(p):
            return p if isinstance(p, str) else p.describe()

        def open_file(I_, self_obj, args, kwargs):
            k = key(args[0])
            self.opened.append(k)
            if k not in self.files:
                raise pai.PyExc("IOError", (k,))
            return self.files[k]

        def term(name):
            def f(fr, so, args, kw):
                if any(a is None for a in args):
                    raise pai.PyExc("TypeError", ("expected str, bytes or os.PathLike object, not NoneType",))
                return name + "(" + ",".join(key(a) for a in args) + ")"

            return f

        def isabs(fr, so, args, kw):
            if args[0] is None:
                raise pai.PyExc("TypeError", ("expected str, bytes or os.PathLike object, not NoneType",))
            return key(args[0]).startswith("/")

        import posixpath

        def real(name, f):
            # the os.path function itself (POSIX flavour, working directory /cwd) on concrete path strings:
            # dirname("main.map") is "" and abspath() normalises, exactly as for the running library
            def g(fr, so, args, kw):
                if any(a is None for a in args):
                    raise pai.PyExc("TypeError", ("expected str, bytes or os.PathLike object, not NoneType",))
                vals = [a if isinstance(a, str) else (a.concrete() if isinstance(a, SStr) and a.is_concrete() else None) for a in args]
                if any(v is None for v in vals):
                    raise AnalysisError(f"os.path.{name} of a symbolic path")
                return f(*vals)

            return g

        stubs = {
            "parser.Parser.open_file": open_file,
            "ext:os.path.isabs": real("isabs", posixpath.isabs),
            "ext:os.path.abspath": real("abspath", lambda p_: posixpath.normpath(posixpath.join("/cwd", p_))),
            "ext:os.path.join": real("join", posixpath.join),
            "ext:os.path.dirname": real("dirname", posixpath.dirname),
            "ext:os.path.normpath": real("normpath", posixpath.normpath),
            "ext:os.path.basename": real("basename", posixpath.basename),
            "ext:os.getcwd": lambda *a: "/cwd",
            "ext:os.sep": "/",
        }
        self.I = e.interp(stubs=stubs, allow_fork=False, max_depth=60)

    @staticmethod
    def text(*parts) -> SStr:
        out: list = []
        for i, p_ in enumerate(parts):
            if i:
                out.append("\n")
            if p_.lower().lstrip().startswith("include"):
                out.append(p_)
            else:
                out.append(Atom(p_, nonempty=True, first=CC.of("ABCDEFGHJKLMNOPQRSTUVWXYZ"), excludes=frozenset("\n\r")))
        return SStr(out)

    def run(self, text: SStr, fn):
        self.opened = []
        outs = self.I.explore("parser.Parser.load_includes", lambda: (models.new_parser(self.I), [text], {"fn": fn} if fn is not None else {}))
        if len(outs) != 1:
            raise AnalysisError(f"load_includes forks on the scenario: {[o.assumptions for o in outs]}")
        return outs[0], list(self.opened)


def vpath(name: str, base: str | None) -> str:
    """Where a relative include name must be looked for: the directory of the root file (the working
    directory /cwd when the root has no name, or no directory part), normalised."""
    import posixpath

    d = posixpath.dirname(base) if base is not None else "/cwd"
    return posixpath.normpath(posixpath.join("/cwd", posixpath.join(d, name)))


def _limit_value(repo, node: ast.expr):
    """The integer a comparator stands for: a literal, or a module-level constant of parser.py."""
    try:
        v = fold(node, lambda n: repo._const_lookup(repo.module("parser"), n))
    except Exception:
        return None
    return v if isinstance(v, int) and not isinstance(v, bool) else None


def run(ctx: Ctx) -> None:
    e = models.env(ctx)
    repo, facts = ctx.repo, e.facts
    fn = repo.func("parser.Parser.load_includes")
    loc = lambda n: repo.loc("parser", n)
    params = [a.arg for a in fn.args.args]
    ctx.trusted += ["os.path.isabs/abspath/join/dirname", "str.split('\\n') / '\\n'.join are inverse"]
    ctx.not_decided += ["equality with textual substitution for every cut point of every include tree"]

    # ---- I4 (first part, decided before anything is evaluated: a splitting function the evaluator does not
    # model must not hide it) ---------------------------------------------------------------------------
    ctx.rule("I4", "the replacement loop pops and inserts at the same index with nothing else mutating the line list; text is split and joined on the same separator", 2)
    lines_var, split_sep, join_ok, why, where = split_join_pairing(fn)
    ctx.check(join_ok, "I4", "split / join separator", loc(where), f"separator {split_sep!r}", why)

    # ---- I1 bounded recursion ---------------------------------------------------------------
    ctx.rule("I1", f"depth counter: default 0, incremented by exactly 1 at the only recursive call, and a raise guarded by 'counter == {LIMIT}' precedes the file read and the recursion; no external caller passes the counter", 5)
    depth = None
    # the depth counter, found by role: the parameter the recursive call passes as <itself> + 1 (or the one named for nesting)
    for cs0 in facts.calls["parser.Parser.load_includes"]:
        if cs0.target != "parser.Parser.load_includes":
            continue
        for pn, a0 in bind_args(cs0.node, fn, skip_self=True).items():
            if isinstance(a0, ast.BinOp) and isinstance(a0.op, ast.Add) and any(isinstance(x, ast.Name) and x.id == pn for x in (a0.left, a0.right)):
                depth = pn
    for a, d in zip(fn.args.args[len(fn.args.args) - len(fn.args.defaults) :], fn.args.defaults):
        if depth is None and (a.arg.startswith("_nested") or "nest" in a.arg or "depth" in a.arg):
            depth = a.arg
        if a.arg == depth:
            ctx.check(isinstance(d, ast.Constant) and d.value == 0, "I1", "counter default", loc(fn), "default 0", f"default of {a.arg} is {norm(d)}, not 0")
    if depth is None:
        raise AnalysisError("anchor vanished: depth counter parameter of load_includes")
    rec_calls = [cs for cs in facts.calls["parser.Parser.load_includes"] if cs.target == "parser.Parser.load_includes"]
    ctx.check(len(rec_calls) == 1, "I1", "single recursive call", loc(fn), "", f"{len(rec_calls)} recursive calls of load_includes")
    for cs in rec_calls:
        b = bind_args(cs.node, fn, skip_self=True)
        a = b.get(depth)
        good = isinstance(a, ast.BinOp) and isinstance(a.op, ast.Add) and ((isinstance(a.left, ast.Name) and a.left.id == depth and isinstance(a.right, ast.Constant) and a.right.value == 1) or (isinstance(a.right, ast.Name) and a.right.id == depth and isinstance(a.left, ast.Constant) and a.left.value == 1))
        ctx.check(good, "I1", "recursive call increments the counter", loc(cs.node), f"{depth} + 1", f"recursive call passes {norm(a) if a is not None else 'nothing'} for {depth}: the depth bound does not hold")
    # stores to the counter
    stores = [n for n in ast.walk(fn) if isinstance(n, ast.Name) and n.id == depth and isinstance(n.ctx, ast.Store)]
    ctx.check(not stores, "I1", "counter never reassigned", loc(fn), "", f"{depth} is reassigned inside load_includes")
    # the guard
    guard_raises = []
    for st, gs in walk_guarded(fn):
        if isinstance(st, ast.Raise):
            for g in gs:
                t = g.test
                if g.positive and isinstance(t, ast.Compare) and len(t.ops) == 1 and isinstance(t.left, ast.Name) and t.left.id == depth and _limit_value(repo, t.comparators[0]) is not None:
                    guard_raises.append((st, t))
    okg = False
    for st, t in guard_raises:
        c = _limit_value(repo, t.comparators[0])
        if (isinstance(t.ops[0], ast.Eq) and c == LIMIT) or (isinstance(t.ops[0], ast.GtE) and c == LIMIT) or (isinstance(t.ops[0], ast.Gt) and c == LIMIT - 1):
            okg = True
    ctx.check(okg, "I1", f"raise guarded by {depth} == {LIMIT}", loc(guard_raises[0][0]) if guard_raises else loc(fn), "", f"no raise guarded by {depth} reaching {LIMIT} (found {[norm(t) for _, t in guard_raises]}): nesting is not bounded at the documented 5 levels")
    # the guarded raise precedes open_file and the recursive call: they must be dominated by "not (depth == 5)"
    for what, pred in (("file read", lambda c: isinstance(c.func, ast.Attribute) and c.func.attr == "open_file"), ("recursive call", lambda c: any(c is r.node for r in rec_calls))):
        sites = [c for c in calls_in(fn) if pred(c)]
        if not sites:
            raise AnalysisError(f"anchor vanished: {what} in load_includes")
        for c in sites:
            gs = guards_at(fn, c)
            dom = any((not g.positive) and isinstance(g.test, ast.Compare) and isinstance(g.test.left, ast.Name) and g.test.left.id == depth for g in gs)
            ctx.check(dom, "I1", f"{what} dominated by the depth test", loc(c), "", f"the {what} can be reached without passing the depth test")
    # (what else travels between nesting levels - a root directory, a cache - is not judged by its shape: the
    # evaluated scenarios below decide whether depth and root-relative resolution still hold)
    # (whether the text spliced in for an INCLUDE line is the expansion made for that very line is decided by
    # the evaluated scenarios - order / splice in I2, the file re-reached one level deeper below - not by the
    # form of the statement that stores it)
    # evaluated depth bound: a chain of exactly LIMIT nested files expands, one more raises ValueError
    S1 = _Scenarios(e)
    chain = lambda n: {vpath(f"f{k}.map", "/r/main.map"): (S1.text(f"F{k}a", f"INCLUDE f{k + 1}.map", f"F{k}b") if k < n else S1.text(f"F{k}")) for k in range(1, n + 1)}
    S1.files = chain(LIMIT)
    o, opened = S1.run(S1.text("R0", "INCLUDE f1.map", "R1"), "/r/main.map")
    ctx.check(o.kind == "return" and len(opened) == LIMIT, "I1", f"{LIMIT} levels of nesting are expanded", loc(fn), f"{len(opened)} files opened", f"a chain of {LIMIT} nested includes gives {o.exc or o.value!r} after opening {len(opened)} files")
    S1.files = chain(LIMIT + 1)
    o, opened = S1.run(S1.text("R0", "INCLUDE f1.map", "R1"), "/r/main.map")
    ctx.check(o.kind == "raise" and o.exc == "ValueError" and len(opened) == LIMIT, "I1", f"level {LIMIT + 1} is refused with ValueError before its file is read", loc(fn), "", f"a chain of {LIMIT + 1} nested includes gives {o.exc or 'a result'} after opening {len(opened)} files (expected ValueError after {LIMIT})")
    # the same bound when the root text has no file name (loads / a nameless stream)
    chain_cwd = lambda n: {vpath(f"f{k}.map", None): (S1.text(f"F{k}a", f"INCLUDE f{k + 1}.map", f"F{k}b") if k < n else S1.text(f"F{k}")) for k in range(1, n + 1)}
    S1.files = chain_cwd(LIMIT + 1)
    o, opened = S1.run(S1.text("R0", "INCLUDE f1.map", "R1"), None)
    ctx.check(o.kind == "raise" and o.exc == "ValueError" and len(opened) == LIMIT, "I1", f"level {LIMIT + 1} is refused also when the root has no file name", loc(fn), "", f"without a root file name a chain of {LIMIT + 1} nested includes gives {o.exc or 'a result'} after opening {len(opened)} files (expected ValueError after {LIMIT}): open() and loads() disagree on the same tree")
    # a file reached at two different depths is checked at each: via X directly its chain fits, via Y it does not
    S1.files = {vpath(f"x{k}.map", "/r/main.map"): (S1.text(f"X{k}", f"INCLUDE x{k + 1}.map") if k < LIMIT - 1 else S1.text(f"X{k}")) for k in range(0, LIMIT)}
    S1.files[vpath("y.map", "/r/main.map")] = S1.text("Y", "INCLUDE x0.map")
    o, opened = S1.run(S1.text("INCLUDE x0.map", "INCLUDE y.map"), "/r/main.map")
    ctx.check(o.kind == "raise" and o.exc == "ValueError", "I1", "a file reached again one level deeper is bounded by its own depth", loc(fn), "", f"x0 (whose chain just fits below the root) included again through y gives {o.exc or 'a result'}: text expanded at a shallow depth is reused deeper without counting its own includes")
    for cs in facts.callers_of("parser.Parser.load_includes"):
        if cs.caller == "parser.Parser.load_includes":
            continue
        b = bind_args(cs.node, fn, skip_self=True)
        ctx.check(b.get(depth) is None, "I1", f"caller {cs.caller} does not pass the counter", repo.loc(cs.caller.split(".")[0], cs.node), "", f"{cs.caller} passes {depth}")

    # ---- I2 root-relative paths ----------------------------------------------------------------
    ctx.rule("I2", "evaluated on a virtual file system: each INCLUDE line is replaced in place by its file's text, relative names resolve against the directory of the root file at every depth, absolute names are used as given, the working directory stands in for a missing file name; parse_file / load / parse forward the file name", 5)
    # evaluated on a virtual file system: open_file and os.path are replaced by recorders / term
    # builders, the lines of every file are opaque (any text that is not an INCLUDE line)
    S_ = _Scenarios(e)
    root = "/r/main.map"
    rel = lambda name, base=root: vpath(name, base)
    # (1) order and splice at depth 1, both quote styles, indentation, trailing comment
    S_.files = {rel("a.map"): S_.text("A0", "A1"), rel("b.map"): S_.text("B0")}
    o, opened = S_.run(S_.text("L0", 'INCLUDE "a.map"', "L1", "  include 'b.map' # c", "L2"), root)
    want = S_.text("L0", "A0", "A1", "L1", "B0", "L2")
    ctx.check(o.kind == "return" and o.value == want, "I2", "each INCLUDE line is replaced, in place, by the text of its file", loc(fn), want.describe(), f"expansion of L0 / INCLUDE a / L1 / include b / L2 gives {(o.value if o.kind == 'return' else o.exc)!r}, expected {want.describe()!r}")
    ctx.check(opened == [rel("a.map"), rel("b.map")], "I2", "relative names are joined to the directory of the file given", loc(fn), str(opened), f"files opened: {opened}, expected {[rel('a.map'), rel('b.map')]}")
    # (2) nested: names inside an included file resolve against the ROOT file's directory; absolute names as they are
    S_.files = {rel("sub/a.map"): S_.text("A0", 'INCLUDE "b.map"', "A1"), rel("b.map"): S_.text("B0", "INCLUDE /abs/c.map"), "/abs/c.map": S_.text("C0")}
    o, opened = S_.run(S_.text('INCLUDE "sub/a.map"', "L1"), root)
    want = S_.text("A0", "B0", "C0", "A1", "L1")
    ctx.check(o.kind == "return" and o.value == want and opened == [rel("sub/a.map"), rel("b.map"), "/abs/c.map"], "I2", "nested includes resolve against the root file's directory; absolute names are used as given", loc(fn), str(opened), f"nested expansion opens {opened} and gives {(o.value if o.kind == 'return' else o.exc)!r}; expected {[rel('sub/a.map'), rel('b.map'), '/abs/c.map']} and {want.describe()!r}")
    # (2b) an INCLUDE keyword without a file name is left for the parser to report: nothing is opened, nothing else raised
    S_.files = {}
    o, opened = S_.run(S_.text("L0", "INCLUDE", "L1"), root)
    ctx.check(o.kind == "return" and o.value == S_.text("L0", "INCLUDE", "L1") and not opened, "I2", "an INCLUDE line without a file name is left as it is", loc(fn), "", f"expansion of L0 / INCLUDE / L1 gives {(o.value if o.kind == 'return' else o.exc)!r} and opens {opened}: the parse error the parser would give is replaced by another failure")
    # (3) no file name given: the working directory
    S_.files = {vpath("a.map", None): S_.text("A0")}
    o, opened = S_.run(S_.text("INCLUDE a.map"), None)
    ctx.check(o.kind == "return" and opened == [vpath("a.map", None)], "I2", "without a file name relative includes resolve against the working directory", loc(fn), str(opened), f"with fn=None the files opened are {opened} ({o.exc or ''})")
    # (4) the root named without a directory part (opened from its own folder): its directory is the working
    # directory at every depth - a name inside a file of a sub-folder is still relative to the root
    for rootname in ("main.map", "./main.map", "maps/main.map"):
        S_.files = {vpath("sub/a.map", rootname): S_.text("A0", 'INCLUDE "b.map"', "A1"), vpath("b.map", rootname): S_.text("B0", 'INCLUDE "sub/deep/c.map"'), vpath("sub/deep/c.map", rootname): S_.text("C0", "INCLUDE d.map"), vpath("d.map", rootname): S_.text("D0")}
        o, opened = S_.run(S_.text('INCLUDE "sub/a.map"', "L1"), rootname)
        wanted = [vpath("sub/a.map", rootname), vpath("b.map", rootname), vpath("sub/deep/c.map", rootname), vpath("d.map", rootname)]
        ctx.check(o.kind == "return" and opened == wanted, "I2", f"root given as {rootname!r}: nested relative names resolve against the root's directory at every depth", loc(fn), str(opened), f"with the root named {rootname!r} (working directory /cwd) the nested includes are looked for in {opened} ({o.exc or ''}); expected {wanted}")
    pf = repo.func("parser.Parser.parse_file")
    for q, argname in (("parser.Parser.parse_file", "fn"), ("parser.Parser.load", "fn")):
        f2 = repo.func(q)
        cs2 = [c for c in facts.calls[q] if c.target == "parser.Parser.parse"]
        good = False
        for c in cs2:
            b = bind_args(c.node, repo.func("parser.Parser.parse"), skip_self=True)
            good = isinstance(b.get("fn"), ast.Name) and b["fn"].id == argname
        ctx.check(good, "I2", f"{q} forwards the file name", repo.loc("parser", f2), "", f"{q} does not pass the file name to parse(): relative includes resolve against the working directory")
    pr = repo.func("parser.Parser.parse")
    cs3 = [c for c in facts.calls["parser.Parser.parse"] if c.target == "parser.Parser.load_includes"]
    for c in cs3:
        b = bind_args(c.node, fn, skip_self=True)
        ctx.check(isinstance(b.get("fn"), ast.Name) and b["fn"].id == "fn", "I2", "parse forwards fn to load_includes", loc(c.node), "", "parse() does not forward fn")

    # ---- I3 errors propagate -------------------------------------------------------------------
    ctx.rule("I3", "every exception handler on the include path re-raises (missing file -> IOError, bad encoding -> UnicodeDecodeError)", 2)
    for q in ("parser.Parser.load_includes", "parser.Parser.open_file"):
        f2 = repo.func(q)
        for n in ast.walk(f2):
            if isinstance(n, ast.ExceptHandler):
                ctx.check(terminates(n.body) and isinstance(n.body[-1], ast.Raise), "I3", f"{q}: except {norm(n.type) if n.type else ''}", repo.loc("parser", n), "re-raises", "handler swallows the exception: a missing or undecodable include is silently skipped")

    # ---- I4 index-stable substitution ----------------------------------------------------------
    muts = []
    for n in ast.walk(fn):
        if isinstance(n, ast.Call) and isinstance(n.func, ast.Attribute) and isinstance(n.func.value, ast.Name) and n.func.value.id == lines_var and n.func.attr in ("pop", "insert", "append", "remove", "extend", "clear", "sort", "reverse"):
            muts.append(n)
        if isinstance(n, (ast.Assign, ast.Delete)):
            for t in (n.targets if isinstance(n, (ast.Assign, ast.Delete)) else []):
                if isinstance(t, ast.Subscript) and isinstance(t.value, ast.Name) and t.value.id == lines_var:
                    muts.append(n)
    kinds = [m.func.attr if isinstance(m, ast.Call) else "subscript-store" for m in muts]
    if kinds == ["pop", "insert"]:
        p, i = muts
        same = norm(p.args[0]) == norm(i.args[0]) and len(i.args) == 2
        ctx.check(same, "I4", "pop(idx) + insert(idx, text)", loc(p), "same index", f"pop({norm(p.args[0])}) but insert({norm(i.args[0])}, ...): later replacements shift")
    elif kinds == ["subscript-store"]:
        ctx.ok("I4", "in-place replacement lines[idx] = text", loc(muts[0]), "index-stable")
    else:
        ctx.finding("I4", "mutations of the line list", loc(fn), f"line list is mutated by {kinds}: replacement is not index-stable")

    # ---- I5 opt-out ----------------------------------------------------------------------------
    ctx.rule("I5", "load_includes is called only under self.expand_includes; INCLUDE is a repeated key so unexpanded directives are kept and written back", 2)
    for c in cs3:
        gs = guards_at(pr, c.node)
        ctx.check(any(g.positive and dotted(g.test) == "self.expand_includes" for g in gs), "I5", "expansion guarded by expand_includes", loc(c.node), "", "includes are expanded even with expand_includes=False")
    ctx.check("include" in repo.const("tokens", "REPEATED_KEYS"), "I5", "include in REPEATED_KEYS", "mappyfile/tokens.py", "", "INCLUDE is not a repeated key: several INCLUDE lines would overwrite each other when not expanded")

    # ---- I6 file-name extraction (PAI) ---------------------------------------------------------
    gif_q, gif_m = models.include_filename_func(e)
    ctx.rule("I6", "the helper load_includes hands an INCLUDE line to returns the bare file name for INCLUDE <f>, \"<f>\", '<f>' with or without a trailing # comment", 6)
    I = e.interp(allow_fork=False)
    body = lambda: Atom("f", first=CC.of("abcdefghijklmnopqrstuvwxyz/._0123456789"), last=CC.of("abcdefghijklmnopqrstuvwxyz0123456789"), excludes=frozenset(" \t\n\r\x0b\x0c#'\""))
    cm = lambda: Atom("c", nonempty=False, excludes=frozenset("\n"))
    n_ok = 0
    for q in ("", '"', "'"):
        for comment in (False, True):
            def make(q=q, comment=comment):
                pieces = ["INCLUDE ", q, body(), q] + ([" # "] if comment else [])
                line = SStr(pieces)
                if comment:
                    # the comment text may contain anything but a newline; model it as words without '#'
                    line = SStr(pieces + [Atom("c", excludes=frozenset(" \t\n\r\x0b\x0c#"))])
                inst = models.construct(e, "parser.Parser") if gif_m else None
                return inst, [line], {}
            try:
                outs = I.explore(gif_q, make)
            except AnalysisError:
                raise
            want = SStr([body()])
            good = len(outs) == 1 and outs[0].kind == "return" and outs[0].value == want
            ctx.check(good, "I6", f"quote={q or 'none'} comment={comment}", repo.loc("parser", repo.func(gif_q)), f"returns {outs[0].value!r}" if outs else "", f"returns {[(o.kind, o.value, o.exc) for o in outs]}, expected the bare name")
    # a comment glued to the name, a comment instead of a name, a bare INCLUDE keyword
    extra_shapes = [
        ("comment directly after a quoted name", lambda: SStr(["INCLUDE '", body(), "'#", Atom("c", excludes=frozenset(" \t\n\r\x0b\x0c#"))]), lambda v: v == SStr([body()])),
        ("comment directly after a bare name", lambda: SStr(["INCLUDE ", body(), "# ", Atom("c", excludes=frozenset(" \t\n\r\x0b\x0c#"))]), lambda v: v == SStr([body()])),
        ("only a comment after INCLUDE", lambda: SStr(["INCLUDE # ", Atom("c", excludes=frozenset(" \t\n\r\x0b\x0c#"))]), lambda v: v is None),
        ("bare INCLUDE", lambda: SStr(["INCLUDE"]), lambda v: v is None),
    ]
    for name, mk, okv in extra_shapes:
        outs = I.explore(gif_q, lambda mk=mk: (models.construct(e, "parser.Parser") if gif_m else None, [mk()], {}))
        good = len(outs) == 1 and outs[0].kind == "return" and okv(outs[0].value)
        ctx.check(good, "I6", name, repo.loc("parser", repo.func(gif_q)), f"returns {outs[0].value!r}" if outs else "", f"for an INCLUDE line with {name} the helper gives {[(o.kind, o.value, o.exc) for o in outs]}" + (" (expected: no file name, so that the parser reports the line)" if "INCLUDE" in name else " (expected the bare name)"))
    ctx.units.update({"functions": ["parser.Parser.load_includes", gif_q, "parser.Parser.open_file", "parser.Parser.parse_file", "parser.Parser.load", "parser.Parser.parse"], "pai_paths": I.paths_run})
