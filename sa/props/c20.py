"""C20 - file, stream and command-line front ends agree with the string API."""

from __future__ import annotations

import ast

from .. import models, pai
from .. import absval as av
from ..absval import SStr, SObj, SNum, SBool, HDict
from ..core import AnalysisError, Ctx, norm, fold
from ..pyfacts import dotted, calls_in, bind_args, guards_at

META = {
    "explanation": "Call-structure and by-name dataflow rules: open/load/loads build Parser and MapfileToDict with identical option flows and all reach Parser.parse (L1); dump/save/dumps all go through _pprint with every option bound to the parameter of the same name (L2); every open()/codecs.open() of the package passes encoding='utf-8' (L3); 'format' is save(open(IN, expand_includes=expand, include_comments=comments), OUT, indent.., newlinechar..) by name (L4); 'schema' writes json.dumps of Validator().get_versioned_schema(version) (L5); PAI evaluates the body of 'validate' (click, mappyfile.open and mappyfile.validate stubbed) on every scenario of up to two files x {unparseable, 0, 1, 2 messages}: exit status 0 iff all files parsed and validated, else the number of problems; the exit expression is then evaluated with an unbounded symbolic counter and must stay within [1, 255] (P11).",
    "level_text": "The front ends are thin; their agreement with the string API is a matter of which functions they call with which arguments, which is decided exactly from the call structure. Exit-status arithmetic is decided by abstract evaluation over the scenario space and an interval argument for the unbounded counter.",
    "level_note": "Trusted: codec fidelity of Python's utf-8 codec, click's argument handling, real process exit semantics (status modulo 256). Byte-level file contents are not examined.",
    "technique": "resolved call-graph / argument-binding rules + abstract interpretation of the CLI command body with interval bounds",
}

OPTS = ["indent", "spacer", "quote", "newlinechar", "end_comment", "align_values", "separate_complex_types"]


def check_option_plumbing(ctx: Ctx, e, RID: str = "L2") -> None:
    repo, facts = ctx.repo, e.facts
    # ---- L2 --------------------------------------------------------------------------------------
    ctx.rule(RID, "dump, save and dumps pass each of the seven options to the _pprint parameter of the same name; _pprint forwards name=name to PrettyPrinter; the constructor stores each option in the field the methods read", 5)
    pp = repo.func("utils._pprint")
    for q in ("utils.dump", "utils.save", "utils.dumps"):
        cs = [c for c in facts.calls[q] if c.target == "utils._pprint"]
        if len(cs) != 1:
            ctx.finding(RID, f"{q} -> _pprint", repo.loc("utils", repo.func(q)), f"{q} does not call _pprint exactly once")
            continue
        b = bind_args(cs[0].node, pp)
        bad = [(o, norm(b[o]) if b.get(o) is not None else None) for o in OPTS + ["d"] if not (isinstance(b.get(o), ast.Name) and b[o].id == o)]
        ctx.check(not bad, RID, f"{q} -> _pprint option binding", repo.loc("utils", cs[0].node), "all by name", f"{q} binds {bad}: an option is swapped, dropped or replaced")
    cs = [c for c in facts.calls["utils._pprint"] if c.target == "pprint.PrettyPrinter.__init__"]
    if len(cs) != 1:
        raise AnalysisError("anchor vanished: PrettyPrinter construction in _pprint")
    b = bind_args(cs[0].node, repo.func("pprint.PrettyPrinter.__init__"), skip_self=True)
    bad = [(o, norm(b[o]) if b.get(o) is not None else None) for o in OPTS if not (isinstance(b.get(o), ast.Name) and b[o].id == o)]
    ctx.check(not bad, RID, "_pprint -> PrettyPrinter option binding", repo.loc("utils", cs[0].node), "all by name", f"_pprint binds {bad}")
    # constructor stores (PAI with symbolic options)
    I = e.interp(allow_fork=False)

    def mk_opts():
        return {
            "indent": SNum.sym("indent", 0, None),
            "spacer": SStr.atom("spacer", excludes=frozenset()),
            "quote": '"',
            "newlinechar": SStr.atom("nl"),
            "end_comment": SBool("end_comment"),
            "align_values": SBool("align_values"),
            "separate_complex_types": SBool("separate_complex_types"),
        }

    opts = mk_opts()
    inst = I.instantiate("pprint.PrettyPrinter", [], opts)
    want = {
        "indent": lambda v: v == opts["indent"],
        "spacer": lambda v: isinstance(v, SStr) and len(v.pieces) == 1 and isinstance(v.pieces[0], av.Rep) and v.pieces[0].count == opts["indent"] and SStr(v.pieces[0].base) == opts["spacer"],
        "newlinechar": lambda v: v == opts["newlinechar"],
        "end_comment": lambda v: v is opts["end_comment"],
        "align_values": lambda v: v is opts["align_values"],
        "separate_complex_types": lambda v: v is opts["separate_complex_types"],
    }
    bad = [k for k, t in want.items() if k not in inst.attrs or not t(inst.attrs[k])]
    q = inst.attrs.get("quoter")
    if not (isinstance(q, pai.Inst) and q.attrs.get("quote") == '"' and q.attrs.get("altquote") == "'"):
        bad.append("quote")
    ctx.check(not bad, RID, "PrettyPrinter.__init__ stores every option", repo.loc("pprint", repo.func("pprint.PrettyPrinter.__init__")), "fields = options (spacer = spacer*indent)", f"constructor does not store option(s) {bad} in the field of that name")
    # dump writes, save saves
    d = repo.func("utils.dump")
    w = [c for c in calls_in(d) if isinstance(c.func, ast.Attribute) and c.func.attr == "write" and dotted(c.func.value) == "fp"]
    ctx.check(len(w) == 1 and isinstance(w[0].args[0], ast.Name), RID, "dump writes the _pprint result to fp", repo.loc("utils", d), "", "dump does not write the formatted string to fp")
    sv = [c for c in facts.calls["utils.save"] if c.target == "utils._save"]
    ctx.check(len(sv) == 1, RID, "save -> _save", repo.loc("utils", repo.func("utils.save")), "", "save does not write through _save")



def run(ctx: Ctx) -> None:
    e = models.env(ctx)
    repo, facts = ctx.repo, e.facts
    ctx.trusted += ["utf-8 codec fidelity", "click option parsing", "process exit status is the sys.exit argument modulo 256"]
    ctx.not_decided += ["byte-level identity of files", "real subprocess behaviour"]

    # ---- L1 --------------------------------------------------------------------------------------
    ctx.rule("L1", "open, load and loads construct Parser(expand_includes=, include_comments=, **kwargs) and MapfileToDict(include_position=, include_comments=, **kwargs) from their same-named parameters, reach Parser.parse and return m.transform(ast)", 9)
    entry = {"utils.open": ("parser.Parser.parse_file", "fn"), "utils.load": ("parser.Parser.load", "fp"), "utils.loads": ("parser.Parser.parse", "s")}
    for q, (pm, src) in entry.items():
        fn = repo.func(q)
        loc = repo.loc("utils", fn)
        ctor = {cs.target: cs for cs in facts.calls[q] if cs.target and cs.target.endswith("__init__")}
        for cls, names in (("parser.Parser.__init__", ["expand_includes", "include_comments"]), ("transformer.MapfileToDict.__init__", ["include_position", "include_comments"])):
            cs = ctor.get(cls)
            if cs is None:
                ctx.finding("L1", f"{q}: constructs {cls.split('.')[1]}", loc, f"{q} does not construct {cls}")
                continue
            b = bind_args(cs.node, repo.func(cls), skip_self=True)
            good = all(isinstance(b.get(n), ast.Name) and b[n].id == n for n in names) and "**" in b
            ctx.check(good, "L1", f"{q}: {cls.split('.')[1]} options", repo.loc("utils", cs.node), "by-name flows", f"{q} builds {cls.split('.')[1]} with {[(n, norm(b[n]) if b.get(n) is not None else None) for n in names]}: options are swapped, dropped or constant")
        pc = [cs for cs in facts.calls[q] if cs.target == pm]
        good = bool(pc) and pc[0].node.args and isinstance(pc[0].node.args[0], ast.Name) and pc[0].node.args[0].id == src
        ctx.check(good, "L1", f"{q}: parses its input via {pm.split('.')[-1]}", loc, "", f"{q} does not hand {src} to {pm}")
        rets = [n for n in ast.walk(fn) if isinstance(n, ast.Return)]
        tr = [cs for cs in facts.calls[q] if cs.target == "transformer.MapfileToDict.transform"]
        ctx.check(len(tr) == 1 and len(rets) == 1, "L1", f"{q}: returns the transform result", loc, "", f"{q}: {len(tr)} transform calls, {len(rets)} returns")
    for q, fwd in (("parser.Parser.parse_file", "parser.Parser.parse"), ("parser.Parser.load", "parser.Parser.parse")):
        ctx.check(any(cs.target == fwd for cs in facts.calls[q]), "L1", f"{q} -> parse", repo.loc("parser", repo.func(q)), "", f"{q} does not go through Parser.parse")

    check_option_plumbing(ctx, e, "L2")

    # ---- L6 --------------------------------------------------------------------------------------
    ctx.rule("L6", "the include pre-pass every loader runs by default puts the text back together with exactly the separator it cut it with, so characters of a quoted value (including unusual line breaks) reach the parser unchanged", 1)
    from .c15 import split_join_pairing

    li = repo.func("parser.Parser.load_includes")
    _, sep, okj, why, where = split_join_pairing(li)
    ctx.check(okj, "L6", "load_includes: split / join", repo.loc("parser", where), f"separator {sep!r}", why)

    # ---- L3 --------------------------------------------------------------------------------------
    ctx.rule("L3", "every open()/codecs.open() call in the package passes encoding='utf-8'", 5)
    for qual, fn in repo.all_functions():
        mod = qual.split(".")[0]
        for c in calls_in(fn):
            d = dotted(c.func)
            if d in ("open", "codecs.open", "io.open"):
                enc = next((k.value for k in c.keywords if k.arg == "encoding"), None)
                if enc is None and d == "codecs.open" and len(c.args) >= 3:
                    enc = c.args[2]
                good = isinstance(enc, ast.Constant) and str(enc.value).lower().replace("_", "-") in ("utf-8", "utf8")
                ctx.check(good, "L3", f"{qual}: {norm(c)[:60]}", repo.loc(mod, c), "utf-8", f"file opened without encoding='utf-8' ({norm(enc) if enc is not None else 'platform default'}): non-ASCII values change on save/open")

    # ---- L4 --------------------------------------------------------------------------------------
    ctx.rule("L4", "'format' = save(open(IN, expand_includes=expand, include_comments=comments), OUT, indent=, spacer=, quote=, newlinechar=) with options bound by name", 3)
    ff = repo.func("cli.format")
    oc = [c for c in facts.calls["cli.format"] if c.target == "utils.open"]
    sc = [c for c in facts.calls["cli.format"] if c.target == "utils.save"]
    if len(oc) != 1 or len(sc) != 1:
        ctx.finding("L4", "format: open + save", repo.loc("cli", ff), f"format calls open {len(oc)}x and save {len(sc)}x")
    else:
        b = bind_args(oc[0].node, repo.func("utils.open"))
        good = isinstance(b.get("fn"), ast.Name) and b["fn"].id == "input_mapfile" and isinstance(b.get("expand_includes"), ast.Name) and b["expand_includes"].id == "expand" and isinstance(b.get("include_comments"), ast.Name) and b["include_comments"].id == "comments"
        ctx.check(good, "L4", "format: open arguments", repo.loc("cli", oc[0].node), "", f"open called with {[(k, norm(v)) for k, v in b.items() if v is not None]}")
        b = bind_args(sc[0].node, repo.func("utils.save"))
        names = {"d": "d", "output_file": "output_mapfile", "indent": "indent", "spacer": "spacer", "quote": "quote", "newlinechar": "newlinechar"}
        bad = [(k, norm(b[k]) if b.get(k) is not None else None) for k, v in names.items() if not (isinstance(b.get(k), ast.Name) and b[k].id == v)]
        ctx.check(not bad, "L4", "format: save arguments", repo.loc("cli", sc[0].node), "", f"save called with {bad}")
        # d is the result of open
        asg = [n for n in ast.walk(ff) if isinstance(n, ast.Assign) and n.value is oc[0].node]
        ctx.check(len(asg) == 1 and isinstance(asg[0].targets[0], ast.Name) and asg[0].targets[0].id == "d", "L4", "format: saves what it opened", repo.loc("cli", ff), "", "the dictionary saved is not the one opened")

    # ---- L5 --------------------------------------------------------------------------------------
    ctx.rule("L5", "'schema' writes json.dumps(Validator().get_versioned_schema(version)) to the output file", 1)
    sf = repo.func("cli.schema")
    gv = [c for c in facts.calls["cli.schema"] if c.target == "validator.Validator.get_versioned_schema"]
    good = len(gv) == 1 and gv[0].node.args and isinstance(gv[0].node.args[0], ast.Name) and gv[0].node.args[0].id == "version"
    jd = [c for c in calls_in(sf) if dotted(c.func) == "json.dumps"]
    asg = [n.targets[0].id for n in ast.walk(sf) if isinstance(n, ast.Assign) and gv and n.value is gv[0].node and isinstance(n.targets[0], ast.Name)]
    good = good and len(jd) == 1 and jd[0].args and isinstance(jd[0].args[0], ast.Name) and jd[0].args[0].id in asg
    ctx.check(good, "L5", "schema command", repo.loc("cli", sf), "", "schema does not dump get_versioned_schema(version)")

    # ---- P11 -------------------------------------------------------------------------------------
    ctx.rule("P11", "validate exits 0 iff every matched file parsed and validated, else with the number of problems, which stays within 1..255 for any count", 20)
    _exit_status(ctx, e)


def _exit_status(ctx: Ctx, e) -> None:
    repo = ctx.repo
    vf = repo.func("cli.validate")
    loc = repo.loc("cli", vf)
    scenarios = []
    per_file = ["fail", 0, 1, 2]
    for a in per_file:
        scenarios.append([a])
    for a in per_file:
        for b in per_file:
            scenarios.append([a, b])
    n_eval = 0
    for sc in scenarios:
        files = [f"f{i}.map" for i in range(len(sc))]
        echo: list = []

        def open_stub(fr, self_obj, args, kwargs, sc=sc, files=files):
            fn = args[0]
            i = files.index(fn if isinstance(fn, str) else fn.concrete())
            if sc[i] == "fail":
                raise pai.PyExc("UnexpectedToken", ())
            d = HDict()
            d["__file__"] = i
            return d

        def validate_stub(fr, self_obj, args, kwargs, sc=sc):
            i = args[0]["__file__"]
            out = []
            for k in range(sc[i]):
                m = HDict()
                m.update({"error": f"e{k}", "message": f"m{k}", "line": 1, "column": 1})
                out.append(m)
            return out

        def ext_click(fr, self_obj, args, kwargs):
            echo.append(args[0] if args else "")
            return None

        def sys_exit(fr, self_obj, args, kwargs):
            raise pai.PyExc("SystemExit", tuple(args))

        stubs = {
            "cli.get_mapfiles": lambda I, s, a, k, files=files: list(files),
            "utils.open": lambda I, s, a, k: open_stub(None, s, a, k),
            "utils.validate": lambda I, s, a, k: validate_stub(None, s, a, k),
            "ext:click.echo": ext_click,
            "ext:click.format_filename": lambda fr, s, a, k: a[0],
            "ext:sys.exit": sys_exit,
            "global:cli.logger": SObj("Logger", {}),
        }
        I = e.interp(stubs=stubs, allow_fork=False)
        try:
            outs = I.explore("cli.validate", lambda: (None, [None, tuple(files), True, 8.2], {}))
        except AnalysisError:
            raise
        n_eval += 1
        o = outs[0]
        problems = sum((1 if s == "fail" else s) for s in sc)
        if o.kind == "raise" and o.exc == "SystemExit":
            status = o.value[0] if o.value else 0
        elif o.kind == "return":
            status = 0
        else:
            ctx.finding("P11", f"scenario {sc}", loc, f"raises {o.exc}")
            continue
        if status is None:
            status = 0
        good = (status == 0) == (problems == 0) and (problems == 0 or status == problems or (isinstance(status, int) and 1 <= status <= 255 and problems > 255))
        lines_expected = sum(s for s in sc if s != "fail")
        ctx.check(good, "P11", f"files={['unparseable' if s == 'fail' else f'{s} message(s)' for s in sc]}", loc, f"exit status {status}", f"exit status {status!r} for {problems} problem(s) ({'an unparseable file is not counted' if any(s == 'fail' for s in sc) and status != problems else 'wrong count'})")
    # unbounded counter: evaluate the sys.exit argument with counter in [1, inf)
    exits = [c for c in calls_in(vf) if dotted(c.func) == "sys.exit"]
    if not exits:
        raise AnalysisError("anchor vanished: sys.exit in cli.validate")
    counters = {n.target.id for n in ast.walk(vf) if isinstance(n, ast.AugAssign) and isinstance(n.target, ast.Name)}
    assigns: dict = {}
    for n in ast.walk(vf):
        if isinstance(n, ast.Assign) and len(n.targets) == 1 and isinstance(n.targets[0], ast.Name):
            assigns.setdefault(n.targets[0].id, []).append(n.value)

    class Inline(ast.NodeTransformer):
        def visit_Name(self, node):
            if node.id not in counters and len(assigns.get(node.id, [])) == 1 and isinstance(node.ctx, ast.Load):
                import copy as _copy

                return self.visit(_copy.deepcopy(assigns[node.id][0]))
            return node

    import copy as _copy

    for c in exits:
        if not c.args:
            continue
        arg = c.args[0]
        for _ in range(5):
            arg = ast.fix_missing_locations(Inline().visit(_copy.deepcopy(arg)))
        c = ast.Call(func=c.func, args=[arg], keywords=[], lineno=c.lineno, col_offset=0)
        names = {n.id for n in ast.walk(c.args[0]) if isinstance(n, ast.Name)}
        if not names & counters:
            continue
        I = e.interp(allow_fork=False)
        av.BOUNDS.clear()
        env = {n: SNum.sym(n, 1, None) for n in names & counters}
        fr = pai.Frame(I, "cli.validate", vf, env)
        try:
            v = fr.eval(c.args[0])
        except AnalysisError:
            raise
        if isinstance(v, SNum):
            lo, hi = v.bounds()
        elif isinstance(v, bool):
            lo = hi = int(v)
        elif isinstance(v, int):
            lo = hi = v
        else:
            lo = hi = None
        good = lo is not None and hi is not None and lo >= 1 and hi <= 255
        ctx.check(good, "P11", "exit argument for an unbounded count", repo.loc("cli", c), f"sys.exit({norm(c.args[0])}) in [{lo}, {hi}]", f"sys.exit({norm(c.args[0])}) ranges over [{lo}, {'inf' if hi is None else hi}] when the count is >= 1: 256 problems wrap to exit status 0")
    ctx.units["cli_scenarios_evaluated"] = n_eval
