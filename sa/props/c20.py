"""C20 - file, stream and command-line front ends agree with the string API."""

from __future__ import annotations

import ast

from .. import models, pai
from .. import absval as av
from ..absval import SStr, SObj, SNum, SBool, HDict
from ..core import AnalysisError, Ctx, norm, fold
from ..pyfacts import dotted, calls_in, bind_args, guards_at

META = {
    "explanation": "Evaluated by-name flows: open/load/loads are run with Parser and MapfileToDict replaced by recorders and every option an opaque marker - each marker must arrive under the constructor parameter of the same name, the input must reach the parser, the tree the transformer, and the transformer's result must be returned (L1); dumps/dump/save are run with PrettyPrinter replaced by a recorder - the seven option markers arrive by name, the dictionary reaches pprint(), its text is returned / written to fp / written to the named file opened with encoding utf-8; the real constructor is evaluated with symbolic options and stores each in the field the methods read (L2); every open()/codecs.open() of the package passes encoding='utf-8' (L3); 'format' is evaluated with recorder stand-ins for open and save in two flag settings: open receives IN and the --expand / --comments values, save receives the object open returned, OUT, the indent given and spacer / quote / newlinechar with their escape sequences decoded - recorded arguments are bound to the API signatures, whether passed by name, position or ** (L4); 'schema' writes json.dumps of Validator().get_versioned_schema(version) (L5); the include pre-pass joins with the separator it split on (L6); PAI evaluates the body of 'validate' (click, mappyfile.open and mappyfile.validate stubbed) on every scenario of up to two files x {unparseable, 0, 1, 2 messages}: exit status 0 iff all files parsed and validated, else the number of problems; the exit expression is then evaluated with an unbounded symbolic counter and must stay within [1, 255] (P11).",
    "level_text": "The front ends are thin; their agreement with the string API is a matter of which functions they call with which arguments, which is decided exactly from the call structure. Exit-status arithmetic is decided by abstract evaluation over the scenario space and an interval argument for the unbounded counter.",
    "level_note": "Trusted: codec fidelity of Python's utf-8 codec, click's argument handling, real process exit semantics (status modulo 256). Byte-level file contents are not examined.",
    "technique": "resolved call-graph / argument-binding rules + abstract interpretation of the CLI command body with interval bounds",
}

OPTS = ["indent", "spacer", "quote", "newlinechar", "end_comment", "align_values", "separate_complex_types"]


def check_option_plumbing(ctx: Ctx, e, RID: str = "L2") -> None:
    repo, facts = ctx.repo, e.facts
    # ---- L2 --------------------------------------------------------------------------------------
    ctx.rule(RID, "each of the seven options given to dumps / dump / save arrives at the PrettyPrinter constructor parameter of the same name (evaluated with a recorder printer); the dictionary reaches pprint() and its text is returned / written; the constructor stores each option in the field the methods read", 5)
    # evaluated with PrettyPrinter replaced by a recorder and every option an opaque marker: whatever
    # helpers stand between the public function and the printer, each marker must arrive under the
    # constructor parameter of the same name, the dictionary must reach pprint(), and the text pprint()
    # returns must be what is returned / written
    from ..absval import SOpaque, SObj as _SObj

    TEXT = SStr.atom("formatted-text")
    for q in ("utils.dumps", "utils.dump", "utils.save"):
        fn = repo.func(q)
        loc = repo.loc("utils", fn)
        marks = {o: SOpaque("object", o) for o in OPTS}
        dmark = SOpaque("object", "the-dictionary")
        rec: dict = {"init": [], "pprint": [], "open": [], "write": []}

        def init_stub(I_, self_obj, args, kwargs):
            rec["init"].append(I_.bind("pprint.PrettyPrinter.__init__", repo.func("pprint.PrettyPrinter.__init__"), self_obj, list(args), dict(kwargs)))
            return None

        def pprint_stub(I_, self_obj, args, kwargs):
            rec["pprint"].append(list(args))
            return TEXT

        def open_stub(fr, self_obj, args, kwargs):
            rec["open"].append((list(args), dict(kwargs)))
            return _SObj("file", {"opened": True}, methods=("write", "close", "flush", "__enter__", "__exit__"))

        def method_hook(fr, recv, name, args, kwargs, node):
            if isinstance(recv, _SObj) and recv.pytype == "file":
                if name == "write":
                    rec["write"].append((recv, list(args)))
                    return None
                if name in ("close", "flush", "__enter__", "__exit__"):
                    return recv if name == "__enter__" else None
            return NotImplemented

        I2 = e.interp(stubs={"pprint.PrettyPrinter.__init__": init_stub, "pprint.PrettyPrinter.pprint": pprint_stub, "ext:codecs.open": open_stub, "ext:open": open_stub, "ext:io.open": open_stub, "hook:method": method_hook}, allow_fork=False)
        fp = _SObj("file", {"given": True}, methods=("write", "close", "flush"))
        target = SStr.atom("output-file-name")
        pos = [dmark] + ([fp] if q == "utils.dump" else [target] if q == "utils.save" else [])
        outs = I2.explore(q, lambda: (None, list(pos), dict(marks)))
        if len(outs) != 1 or outs[0].kind != "return":
            raise AnalysisError(f"{q} not evaluable with a recorder printer: {[(o.kind, o.exc) for o in outs]}")
        if len(rec["init"]) != 1:
            ctx.finding(RID, f"{q} -> PrettyPrinter", loc, f"{q} constructs PrettyPrinter {len(rec['init'])} time(s)")
            continue
        env1 = rec["init"][0]
        bad = [(o, env1.get(o)) for o in OPTS if env1.get(o) is not marks[o]]
        ctx.check(not bad, RID, f"{q} -> PrettyPrinter option binding", loc, "all seven options by name", f"{q}: the printer is constructed with {bad}: an option is swapped, dropped or replaced on the way")
        ctx.check(rec["pprint"] == [[dmark]], RID, f"{q} prints its dictionary argument", loc, "", f"{q}: pprint() is called with {rec['pprint']}")
        if q == "utils.dumps":
            ctx.check(outs[0].value == TEXT, RID, "dumps returns the formatted text", loc, "", f"dumps returns {outs[0].value!r}")
        elif q == "utils.dump":
            ctx.check(len(rec["write"]) == 1 and rec["write"][0][0] is fp and rec["write"][0][1] == [TEXT] and not rec["open"], RID, "dump writes the formatted text to fp", loc, "", f"dump: writes {[(w[0] is fp, w[1]) for w in rec['write']]}, opens {rec['open']}")
        else:
            opened = rec["open"]
            okw = len(opened) == 1 and opened[0][0][:1] == [target] and (opened[0][0][1:2] == ["w"] or opened[0][1].get("mode") == "w") and opened[0][1].get("encoding") == "utf-8"
            ctx.check(okw and len(rec["write"]) == 1 and rec["write"][0][1] == [TEXT], RID, "save writes the formatted text to the file it was given, as UTF-8", loc, "", f"save: opens {opened}, writes {[w[1] for w in rec['write']]}")
    # constructor stores (PAI with symbolic options)
    I = e.interp(allow_fork=False)

    def mk_opts():
        return {
            "indent": SNum.sym("indent", 0, None),
            "spacer": SStr.atom("spacer", excludes=frozenset()),
            "quote": '"',
            "newlinechar": SStr.atom("nl"),
            "end_comment": SBool("end_comment"),
            "align_values": SBool("align_values"),
            "separate_complex_types": SBool("separate_complex_types"),
        }

    opts = mk_opts()
    inst = I.instantiate("pprint.PrettyPrinter", [], opts)
    want = {
        "indent": lambda v: v == opts["indent"],
        "spacer": lambda v: isinstance(v, SStr) and len(v.pieces) == 1 and isinstance(v.pieces[0], av.Rep) and v.pieces[0].count == opts["indent"] and SStr(v.pieces[0].base) == opts["spacer"],
        "newlinechar": lambda v: v == opts["newlinechar"],
        "end_comment": lambda v: v is opts["end_comment"],
        "align_values": lambda v: v is opts["align_values"],
        "separate_complex_types": lambda v: v is opts["separate_complex_types"],
    }
    bad = [k for k, t in want.items() if k not in inst.attrs or not t(inst.attrs[k])]
    q = inst.attrs.get("quoter")
    if not (isinstance(q, pai.Inst) and q.attrs.get("quote") == '"' and q.attrs.get("altquote") == "'"):
        bad.append("quote")
    ctx.check(not bad, RID, "PrettyPrinter.__init__ stores every option", repo.loc("pprint", repo.func("pprint.PrettyPrinter.__init__")), "fields = options (spacer = spacer*indent)", f"constructor does not store option(s) {bad} in the field of that name")



def run(ctx: Ctx) -> None:
    e = models.env(ctx)
    repo, facts = ctx.repo, e.facts
    ctx.trusted += ["utf-8 codec fidelity", "click option parsing", "process exit status is the sys.exit argument modulo 256"]
    ctx.not_decided += ["byte-level identity of files", "real subprocess behaviour"]

    # ---- L1 --------------------------------------------------------------------------------------
    ctx.rule("L1", "open, load and loads construct Parser(expand_includes=, include_comments=, **kwargs) and MapfileToDict(include_position=, include_comments=, **kwargs) from their same-named parameters, reach Parser.parse and return m.transform(ast)", 9)
    entry = {"utils.open": ("parser.Parser.parse_file", "fn"), "utils.load": ("parser.Parser.load", "fp"), "utils.loads": ("parser.Parser.parse", "s")}
    # evaluated with the two worker classes replaced by recorders and every option an opaque marker:
    # whatever helpers stand in between, the markers must arrive under the parameters of the same name
    from ..absval import SOpaque, SObj
    from .. import pai as _pai

    for q, (pm, src) in entry.items():
        fn = repo.func(q)
        loc = repo.loc("utils", fn)
        marks = {n: SOpaque("object", n) for n in ("input", "expand_includes", "include_position", "include_comments", "custom_option")}
        rec: dict = {"parser": [], "todict": [], "parse": [], "transform": []}
        tree = SObj("Tree", {"data": "start", "children": []})
        result = SOpaque("object", "transform-result")

        def ctor(kind, qual):
            def stub(I_, self_obj, args, kwargs, kind=kind, qual=qual):
                rec[kind].append(I_.bind(qual, repo.func(qual), self_obj, list(args), dict(kwargs)))
                return None

            return stub

        def parse_stub(I_, self_obj, args, kwargs):
            rec["parse"].append((list(args), dict(kwargs)))
            return tree

        def transform_stub(I_, self_obj, args, kwargs):
            rec["transform"].append((list(args), dict(kwargs)))
            return result

        stubs = {"parser.Parser.__init__": ctor("parser", "parser.Parser.__init__"), "transformer.MapfileToDict.__init__": ctor("todict", "transformer.MapfileToDict.__init__"), "transformer.MapfileToDict.transform": transform_stub}
        for m_ in ("parse_file", "load", "parse"):
            stubs[f"parser.Parser.{m_}"] = parse_stub
        I1 = e.interp(stubs=stubs, allow_fork=False)
        kw = {"expand_includes": marks["expand_includes"], "include_position": marks["include_position"], "include_comments": marks["include_comments"], "custom_option": marks["custom_option"]}
        outs = I1.explore(q, lambda: (None, [marks["input"]], dict(kw)))
        if len(outs) != 1 or outs[0].kind != "return":
            raise AnalysisError(f"{q} not evaluable with recorder workers: {[(o.kind, o.exc) for o in outs]}")
        for kind, cls, names in (("parser", "Parser", ["expand_includes", "include_comments"]), ("todict", "MapfileToDict", ["include_position", "include_comments"])):
            envs = rec[kind]
            if len(envs) != 1:
                ctx.finding("L1", f"{q}: constructs {cls}", loc, f"{q} constructs {cls} {len(envs)} time(s)")
                continue
            env1 = envs[0]
            extra = env1.get("kwargs")
            good = all(env1.get(n) is marks[n] for n in names) and isinstance(extra, dict) and extra.get("custom_option") is marks["custom_option"]
            ctx.check(good, "L1", f"{q}: {cls} options", loc, "by-name flows", f"{q} builds {cls} with {[(n, env1.get(n)) for n in names]} and extra options {dict(extra) if isinstance(extra, dict) else extra}: options are swapped, dropped or constant")
        good = len(rec["parse"]) == 1 and rec["parse"][0][0][:1] == [marks["input"]]
        ctx.check(good, "L1", f"{q}: parses its input via the Parser", loc, "", f"{q} does not hand {src} to the parser (calls: {rec['parse']})")
        good = len(rec["transform"]) == 1 and rec["transform"][0][0][:1] == [tree] and outs[0].value is result
        ctx.check(good, "L1", f"{q}: returns the transform result", loc, "", f"{q}: transform calls {rec['transform']}, returns {outs[0].value!r}")
    for q, fwd in (("parser.Parser.parse_file", "parser.Parser.parse"), ("parser.Parser.load", "parser.Parser.parse")):
        ctx.check(any(cs.target == fwd for cs in facts.calls[q]), "L1", f"{q} -> parse", repo.loc("parser", repo.func(q)), "", f"{q} does not go through Parser.parse")

    check_option_plumbing(ctx, e, "L2")

    # ---- L7 --------------------------------------------------------------------------------------
    ctx.rule("L7", "open / load / loads declare the same default for every option they share, and so do dumps / dump / save: called alike they behave alike", 2)
    for group in (("utils.open", "utils.load", "utils.loads"), ("utils.dumps", "utils.dump", "utils.save")):
        table: dict = {}
        for q in group:
            f_ = repo.func(q)
            pos = f_.args.args
            for a_, d_ in list(zip(pos[len(pos) - len(f_.args.defaults) :], f_.args.defaults)) + [(a_, d_) for a_, d_ in zip(f_.args.kwonlyargs, f_.args.kw_defaults) if d_ is not None]:
                try:
                    val = fold(d_)
                except Exception:
                    val = norm(d_)
                table.setdefault(a_.arg, {})[q] = val
        diff = {k: v for k, v in table.items() if len(v) > 1 and len({repr(x) for x in v.values()}) > 1}
        ctx.check(not diff, "L7", " / ".join(g.split(".")[1] for g in group) + " defaults", repo.loc("utils", repo.func(group[0])), f"{sorted(k for k, v in table.items() if len(v) > 1)} agree", f"the sibling functions disagree on the default of {diff}: the same call gives different results through the file, stream and string front end")

    # ---- L9 --------------------------------------------------------------------------------------
    ctx.rule("L9", "Parser.open_file hands back what it read from the file in this very call, on every path (no text kept from an earlier call), so open() sees what save / dump / any other writer last put there", 1)
    of = repo.func("parser.Parser.open_file")
    reads = [c for c in calls_in(of) if isinstance(c.func, ast.Attribute) and c.func.attr == "read"]
    read_names = set()
    for n in ast.walk(of):
        if isinstance(n, ast.Assign) and any(n.value is r for r in reads):
            read_names |= {t.id for t in n.targets if isinstance(t, ast.Name)}
    multi = {nm for nm in read_names if sum(1 for n in ast.walk(of) if isinstance(n, (ast.Assign, ast.AugAssign)) and any(isinstance(t, ast.Name) and t.id == nm for t in (n.targets if isinstance(n, ast.Assign) else [n.target]))) > 1}
    rets = [n for n in ast.walk(of) if isinstance(n, ast.Return)]
    bad_rets = [norm(r) for r in rets if not (r.value is not None and (any(r.value is c for c in reads) or (isinstance(r.value, ast.Name) and r.value.id in read_names - multi)))]
    ctx.check(bool(rets) and bool(reads) and not bad_rets, "L9", "open_file: every return is this call's read", repo.loc("parser", of), f"{len(rets)} return(s), {len(reads)} read(s)", f"open_file has the return(s) {bad_rets} that do not hand back the text read in this call: a file rewritten since an earlier call is opened with its old content")

    # ---- L6 --------------------------------------------------------------------------------------
    ctx.rule("L6", "the include pre-pass every loader runs by default puts the text back together with exactly the separator it cut it with, so characters of a quoted value (including unusual line breaks) reach the parser unchanged", 1)
    from .c15 import split_join_pairing

    li = repo.func("parser.Parser.load_includes")
    _, sep, okj, why, where = split_join_pairing(li)
    ctx.check(okj, "L6", "load_includes: split / join", repo.loc("parser", where), f"separator {sep!r}", why)

    # ---- L3 --------------------------------------------------------------------------------------
    ctx.rule("L3", "every open()/codecs.open() call in the package passes encoding='utf-8'", 3)
    for qual, fn in repo.all_functions():
        mod = qual.split(".")[0]
        for c in calls_in(fn):
            d = dotted(c.func)
            if d in ("open", "codecs.open", "io.open"):
                enc = next((k.value for k in c.keywords if k.arg == "encoding"), None)
                if enc is None and d == "codecs.open" and len(c.args) >= 3:
                    enc = c.args[2]
                good = isinstance(enc, ast.Constant) and str(enc.value).lower().replace("_", "-") in ("utf-8", "utf8")
                ctx.check(good, "L3", f"{qual}: {norm(c)[:60]}", repo.loc(mod, c), "utf-8", f"file opened without encoding='utf-8' ({norm(enc) if enc is not None else 'platform default'}): non-ASCII values change on save/open")

    # ---- L4 --------------------------------------------------------------------------------------
    ctx.rule("L4", "'format' = save(open(IN, expand_includes=expand, include_comments=comments), OUT, indent=, spacer=, quote=, newlinechar=): evaluated with recorder stand-ins for open and save, arguments bound to the API signatures", 3)
    _format_is_save_open(ctx, e)

    # ---- L5 --------------------------------------------------------------------------------------
    ctx.rule("L5", "'schema' writes json.dumps(Validator().get_versioned_schema(version)) to the output file", 1)
    sf = repo.func("cli.schema")
    gv = [c for c in facts.calls["cli.schema"] if c.target == "validator.Validator.get_versioned_schema"]
    good = len(gv) == 1 and gv[0].node.args and isinstance(gv[0].node.args[0], ast.Name) and gv[0].node.args[0].id == "version"
    jd = [c for c in calls_in(sf) if dotted(c.func) == "json.dumps"]
    asg = [n.targets[0].id for n in ast.walk(sf) if isinstance(n, ast.Assign) and gv and n.value is gv[0].node and isinstance(n.targets[0], ast.Name)]
    good = good and len(jd) == 1 and jd[0].args and isinstance(jd[0].args[0], ast.Name) and jd[0].args[0].id in asg
    ctx.check(good, "L5", "schema command", repo.loc("cli", sf), "", "schema does not dump get_versioned_schema(version)")

    # ---- L8 --------------------------------------------------------------------------------------
    ctx.rule("L8", "command-line contract: option defaults equal the defaults of the API parameters they feed, arguments used as one path take one value and the file list takes any number, counted flags are counted, the group callback and 'format' run through (escapes decoded, exit 0)", 12)
    _cli_contract(ctx, e)

    # ---- P11 -------------------------------------------------------------------------------------
    ctx.rule("P11", "validate exits 0 iff every matched file parsed and validated, else with the number of problems, which stays within 1..255 for any count", 20)
    _exit_status(ctx, e)


def _bound(repo, qual: str, a: list, k: dict) -> dict:
    """Recorded call (positional, keyword) -> parameter name -> value, by the signature of ``qual``."""
    fn = repo.func(qual)
    names = [p.arg for p in fn.args.posonlyargs + fn.args.args]
    out = dict(zip(names, a))
    out.update(k)
    return out


def _run_format(e, expand, comments, indent):
    rec: dict = {"open": [], "save": [], "exit": []}

    def open_stub(I_, so, a, k):
        rec["open"].append((list(a), dict(k)))
        rec.setdefault("opened", []).append(HDict({"__type__": "map"}))
        return rec["opened"][-1]

    def save_stub(I_, so, a, k):
        rec["save"].append((list(a), dict(k)))
        return a[1] if len(a) > 1 else None

    def exit_stub(fr, so, a, k):
        rec["exit"].append(a[0] if a else 0)
        raise pai.PyExc("SystemExit", tuple(a))

    import codecs as _codecs

    stubs = {"utils.open": open_stub, "utils.save": save_stub, "ext:sys.exit": exit_stub, "ext:codecs.decode": lambda fr, so, a, k: _codecs.decode(a[0] if isinstance(a[0], str) else a[0].concrete(), a[1]), "global:cli.logger": SObj("Logger", {})}
    I2 = e.interp(stubs=stubs, allow_fork=False)

    def make():
        return None, [None, "in.map", "out.map", indent, "\\t", "\\'", "\\r\\n", expand, comments], {}

    outs = I2.explore("cli.format", make)
    return rec, outs


def _format_is_save_open(ctx: Ctx, e) -> None:
    repo = ctx.repo
    ff = repo.func("cli.format")
    for expand, comments in ((True, False), (False, True)):
        indent = SNum.sym("indent", 0, None)
        rec, outs = _run_format(e, expand, comments, indent)
        tag = f"--{'expand' if expand else 'no-expand'} --{'comments' if comments else 'no-comments'}"
        if len(rec["open"]) != 1 or len(rec["save"]) != 1:
            ctx.finding("L4", f"format {tag}: open + save", repo.loc("cli", ff), f"format calls open {len(rec['open'])}x and save {len(rec['save'])}x")
            continue
        ob = _bound(repo, "utils.open", *rec["open"][0])
        sb = _bound(repo, "utils.save", *rec["save"][0])
        od = {p.arg: d for p, d in zip(reversed(repo.func("utils.open").args.args), reversed(repo.func("utils.open").args.defaults))}
        exp_v = ob.get("expand_includes", ast.literal_eval(od["expand_includes"]) if "expand_includes" in od else None)
        com_v = ob.get("include_comments", ast.literal_eval(od["include_comments"]) if "include_comments" in od else None)
        ctx.check(ob.get("fn") == "in.map" and exp_v is expand and com_v is comments, "L4", f"format {tag}: open arguments", repo.loc("cli", ff), f"fn=in.map expand_includes={expand} include_comments={comments}", f"open is called with { {k: v for k, v in ob.items()} } for {tag}")
        good = sb.get("output_file") == "out.map" and sb.get("indent") is indent and sb.get("spacer") == "\t" and sb.get("quote") == "'" and sb.get("newlinechar") == "\r\n"
        ctx.check(good, "L4", f"format {tag}: save arguments", repo.loc("cli", ff), "OUT, indent as given, spacer TAB, quote ', newlinechar CRLF", f"save is called with { {k: v for k, v in sb.items() if k != 'd'} }: OUT, --indent, --spacer=\\t / --quote=\\' / --newlinechar=\\r\\n must arrive as out.map, the indent given, TAB, ' and CR LF")
        ctx.check(sb.get("d") is rec["opened"][0], "L4", f"format {tag}: saves what it opened", repo.loc("cli", ff), "", "the dictionary saved is not the one opened")


def _click_decls(fn: ast.FunctionDef, shared: dict | None = None) -> tuple[dict, dict]:
    """(arguments, options) declared by the click decorators of a command: parameter name -> keyword dict.
    ``shared``: module-level names bound to a click.option(...) / click.argument(...) call (one declaration
    used by several commands)."""
    args_, opts_ = {}, {}
    for d in fn.decorator_list:
        if isinstance(d, ast.Name) and shared and isinstance(shared.get(d.id), ast.Call):
            d = shared[d.id]
        if not isinstance(d, ast.Call):
            continue
        name = dotted(d.func) or ""
        if name not in ("click.argument", "click.option"):
            continue
        names = [a.value for a in d.args if isinstance(a, ast.Constant) and isinstance(a.value, str)]
        kw = {k.arg: k.value for k in d.keywords if k.arg}
        if name == "click.argument" and names:
            args_[names[0].replace("-", "_")] = kw
        elif names:
            long = [n for n in names if n.startswith("--")]
            if long:
                opts_[long[0].split("/")[0][2:].replace("-", "_")] = kw
    return args_, opts_


def _cli_contract(ctx: Ctx, e) -> None:
    repo, facts = ctx.repo, e.facts
    API = {"utils.open": repo.func("utils.open"), "utils.save": repo.func("utils.save"), "utils.validate": repo.func("utils.validate")}

    def api_default(q, pname):
        f_ = API[q]
        pos = f_.args.args
        for a_, d_ in list(zip(pos[len(pos) - len(f_.args.defaults) :], f_.args.defaults)):
            if a_.arg == pname:
                return fold(d_)
        return "<required>"

    for cmd in ("cli.format", "cli.validate", "cli.schema"):
        fn = repo.func(cmd)
        loc = repo.loc("cli", fn)
        cargs, copts = _click_decls(fn, repo.module("cli").assigns)
        if not cargs:
            raise AnalysisError(f"anchor vanished: click.argument declarations of {cmd}")
        # arguments: one value when used as a path, any number when handed to get_mapfiles / iterated
        for pname, kw in cargs.items():
            nargs = fold(kw["nargs"]) if "nargs" in kw else 1
            multi = any(isinstance(c.func, (ast.Name, ast.Attribute)) and (dotted(c.func) or "").endswith("get_mapfiles") and any(isinstance(a, ast.Name) and a.id == pname for a in c.args) for c in calls_in(fn)) or any(isinstance(n, ast.For) and isinstance(n.iter, ast.Name) and n.iter.id == pname for n in ast.walk(fn))
            want = -1 if multi else 1
            ctx.check(nargs == want, "L8", f"{cmd.split('.')[1]}: argument {pname} takes {'any number of values' if multi else 'one value'}", loc, f"nargs={nargs}", f"argument {pname} of '{cmd.split('.')[1]}' is declared with nargs={nargs} but the command uses it as {'a list of files' if multi else 'one path'}: click rejects or mis-splits the documented invocation")
        # options of 'format' (which the property equates with save(open(IN))): default = default of the API parameter the option is passed to
        for c in calls_in(fn) if cmd == "cli.format" else []:
            tgt = next((cs.target for cs in facts.calls[cmd] if cs.node is c), None)
            if tgt not in API:
                continue
            bound = bind_args(c, API[tgt])
            for api_p, a in bound.items():
                if isinstance(a, ast.Name) and a.id in copts and "default" in copts[a.id]:
                    dv = fold(copts[a.id]["default"])
                    av_ = api_default(tgt, api_p)
                    ctx.check(dv == av_ and type(dv) is type(av_), "L8", f"{cmd.split('.')[1]}: --{a.id} default", loc, f"{dv!r} = default of {tgt.split('.')[1]}({api_p})", f"--{a.id} defaults to {dv!r} but {tgt.split('.')[1]}() defaults {api_p} to {av_!r}: the command without options does not do what the API call without options does")
    # counted flags used in arithmetic
    mf = repo.func("cli.main")
    _, mopts = _click_decls(mf, repo.module("cli").assigns)
    arith = {n.id for b in ast.walk(mf) if isinstance(b, ast.BinOp) for n in (b.left, b.right) if isinstance(n, ast.Name)}
    for o in sorted(arith & set(mopts)):
        ctx.check("count" in mopts[o] and fold(mopts[o]["count"]) is True, "L8", f"main: --{o} is a counted flag", repo.loc("cli", mf), "count=True", f"--{o} is used in arithmetic but not declared count=True: its value is None / a string and the group callback raises for every sub-command")
    # the group callback runs through for any counts
    I = e.interp(stubs={"ext:logging.basicConfig": lambda *a: None, "ext:sys.stderr": SObj("stream", {}), "global:cli.logger": SObj("Logger", {})}, allow_fork=True, max_paths=8)
    ctxobj = SObj("Context", {}, methods=())
    outs = I.explore("cli.main", lambda: (None, [ctxobj, SNum.sym("verbose", 0, None), SNum.sym("quiet", 0, None)], {}))
    bad = [o.exc for o in outs if o.kind != "return"]
    ctx.check(not bad and bool(outs), "L8", "main: the group callback runs through", repo.loc("cli", mf), f"{len(outs)} path(s)", f"the group callback raises {bad}: every sub-command fails before it starts")
    # get_mapfiles: every file matched by every pattern, in order; directories dropped
    globbed = {"*.map": ["a.map", "dir.map", "b.map"], "c.map": ["c.map"]}
    Ig = e.interp(stubs={"ext:glob.glob": lambda fr, so, a, k: list(globbed.get(a[0] if isinstance(a[0], str) else a[0].concrete(), [])), "ext:os.path.isdir": lambda fr, so, a, k: a[0] == "dir.map", "ext:os.path.isfile": lambda fr, so, a, k: a[0] != "dir.map"}, allow_fork=False)
    outs = Ig.explore("cli.get_mapfiles", lambda: (None, [("*.map", "c.map")], {}))
    gm = repo.func("cli.get_mapfiles")
    ctx.check(len(outs) == 1 and outs[0].kind == "return" and outs[0].value is not None and list(outs[0].value) == ["a.map", "b.map", "c.map"], "L8", "get_mapfiles: the files matched by the patterns, directories dropped", repo.loc("cli", gm), "a.map b.map c.map", f"for the patterns *.map (matching a.map, the directory dir.map, b.map) and c.map, get_mapfiles gives {[(o.kind, o.exc, o.value) for o in outs]}")
    # format: exit status 0 (the arguments of open / save are rule L4)
    indent = SNum.sym("indent", 0, None)
    rec, outs = _run_format(e, True, False, indent)
    ff = repo.func("cli.format")
    o = outs[0]
    finished = (o.kind == "return") or (o.kind == "raise" and o.exc == "SystemExit")
    ctx.check(finished and rec["exit"] in ([], [0], [None]), "L8", "format: finishes with exit status 0", repo.loc("cli", ff), f"exit {rec['exit'] or 'by return'}", f"a successful 'format' ends with {o.exc or 'return'} and exit status {rec['exit']}")


def _exit_status(ctx: Ctx, e) -> None:
    repo = ctx.repo
    vf = repo.func("cli.validate")
    loc = repo.loc("cli", vf)
    scenarios = []
    per_file = ["fail", 0, 1, 2]
    for a in per_file:
        scenarios.append([a])
    for a in per_file:
        for b in per_file:
            scenarios.append([a, b])
    n_eval = 0

    # the messages the command has to print are the ones Validator.create_message really builds (evaluated):
    # for an object with a recorded position, and for the root SYMBOLSET of a symbol file, whose keyword is
    # synthesised and has no line / column of its own
    def real_message(line, col):
        from ..layout import cdict

        I0 = e.interp(allow_fork=False, max_depth=30)

        def make():
            p_ = HDict()
            p_.pytype = "OrderedDict"  # type: ignore[misc]
            p_["line"], p_["column"] = line, col
            root = cdict([("__type__", "symbolset"), ("__position__", p_)])
            return models.new_validator(I0), [root, [], SObj("ValidationError", {"message": "msg"}), False], {}

        outs0 = I0.explore("validator.Validator.create_message", make)
        if len(outs0) != 1 or outs0[0].kind != "return" or not isinstance(outs0[0].value, dict):
            raise AnalysisError(f"create_message not evaluable on a root-level error: {[(o.kind, o.exc) for o in outs0]}")
        return outs0[0].value

    protos = [real_message(None, None), real_message(3, 5)]
    for sc in scenarios:
        files = [f"f{i}.map" for i in range(len(sc))]
        echo: list = []

        open_kwargs: list = []

        def open_stub(fr, self_obj, args, kwargs, sc=sc, files=files):
            open_kwargs.append(dict(kwargs))
            fn = args[0]
            i = files.index(fn if isinstance(fn, str) else fn.concrete())
            if sc[i] == "fail":
                raise pai.PyExc("UnexpectedToken", ())
            d = HDict()
            d["__file__"] = i
            return d

        def validate_stub(fr, self_obj, args, kwargs, sc=sc):
            i = args[0]["__file__"]
            out = []
            for k in range(sc[i]):
                m = HDict()
                m.update(protos[k % 2])  # first the position-less root message, then one with a position
                out.append(m)
            return out

        def ext_click(fr, self_obj, args, kwargs):
            echo.append(args[0] if args else "")
            return None

        def sys_exit(fr, self_obj, args, kwargs):
            raise pai.PyExc("SystemExit", tuple(args))

        stubs = {
            "cli.get_mapfiles": lambda I, s, a, k, files=files: list(files),
            "utils.open": lambda I, s, a, k: open_stub(None, s, a, k),
            "utils.validate": lambda I, s, a, k: validate_stub(None, s, a, k),
            "ext:click.echo": ext_click,
            "ext:click.format_filename": lambda fr, s, a, k: a[0],
            "ext:sys.exit": sys_exit,
            "global:cli.logger": SObj("Logger", {}),
        }
        I = e.interp(stubs=stubs, allow_fork=False)
        try:
            outs = I.explore("cli.validate", lambda: (None, [None, tuple(files), True, 8.2], {}))
        except AnalysisError:
            raise
        n_eval += 1
        o = outs[0]
        if open_kwargs:
            ctx.check(all(k.get("include_position") is True for k in open_kwargs), "P11", f"files={sc}: opened with positions", loc, "include_position=True", f"validate opens its files with {open_kwargs[0]}: without include_position=True the messages carry no line and column")
        problems = sum((1 if s == "fail" else s) for s in sc)
        if o.kind == "raise" and o.exc == "SystemExit":
            status = o.value[0] if o.value else 0
        elif o.kind == "return":
            status = 0
        else:
            ctx.finding("P11", f"scenario {sc}", loc, f"'validate' raises {o.exc} while reporting the messages the validator builds (keys {[sorted(p_.keys()) for p_ in protos]}: a root-level error of a symbol file, whose SYMBOLSET keyword has no position, and an ordinary one): no summary, wrong exit status")
            continue
        if status is None:
            status = 0
        good = (status == 0) == (problems == 0) and (problems == 0 or status == problems or (isinstance(status, int) and 1 <= status <= 255 and problems > 255))
        lines_expected = sum(s for s in sc if s != "fail")
        ctx.check(good, "P11", f"files={['unparseable' if s == 'fail' else f'{s} message(s)' for s in sc]}", loc, f"exit status {status}", f"exit status {status!r} for {problems} problem(s) ({'an unparseable file is not counted' if any(s == 'fail' for s in sc) and status != problems else 'wrong count'})")
    # unbounded counter: evaluate the sys.exit argument with counter in [1, inf)
    exits = [c for c in calls_in(vf) if dotted(c.func) == "sys.exit"]
    if not exits:
        raise AnalysisError("anchor vanished: sys.exit in cli.validate")
    counters = {n.target.id for n in ast.walk(vf) if isinstance(n, ast.AugAssign) and isinstance(n.target, ast.Name)}
    assigns: dict = {}
    for n in ast.walk(vf):
        if isinstance(n, ast.Assign) and len(n.targets) == 1 and isinstance(n.targets[0], ast.Name):
            assigns.setdefault(n.targets[0].id, []).append(n.value)

    class Inline(ast.NodeTransformer):
        def visit_Name(self, node):
            if node.id not in counters and len(assigns.get(node.id, [])) == 1 and isinstance(node.ctx, ast.Load):
                import copy as _copy

                return self.visit(_copy.deepcopy(assigns[node.id][0]))
            return node

    import copy as _copy

    for c in exits:
        if not c.args:
            continue
        arg = c.args[0]
        for _ in range(5):
            arg = ast.fix_missing_locations(Inline().visit(_copy.deepcopy(arg)))
        c = ast.Call(func=c.func, args=[arg], keywords=[], lineno=c.lineno, col_offset=0)
        names = {n.id for n in ast.walk(c.args[0]) if isinstance(n, ast.Name)}
        if not names & counters:
            continue
        I = e.interp(allow_fork=False)
        av.BOUNDS.clear()
        env = {n: SNum.sym(n, 1, None) for n in names & counters}
        fr = pai.Frame(I, "cli.validate", vf, env)
        try:
            v = fr.eval(c.args[0])
        except AnalysisError:
            raise
        if isinstance(v, SNum):
            lo, hi = v.bounds()
        elif isinstance(v, bool):
            lo = hi = int(v)
        elif isinstance(v, int):
            lo = hi = v
        else:
            lo = hi = None
        for exact in (1, 254, 255):
            env2 = {n: exact for n in names & counters}
            v2 = pai.Frame(I, "cli.validate", vf, env2).eval(c.args[0])
            ctx.check(v2 == exact, "P11", f"exit argument for a count of {exact}", repo.loc("cli", c), f"sys.exit({norm(c.args[0])}) = {v2}", f"with {exact} problems sys.exit({norm(c.args[0])}) is called with {v2!r}: the status is not the number of problems although it fits")
        good = lo is not None and hi is not None and lo >= 1 and hi <= 255
        ctx.check(good, "P11", "exit argument for an unbounded count", repo.loc("cli", c), f"sys.exit({norm(c.args[0])}) in [{lo}, {hi}]", f"sys.exit({norm(c.args[0])}) ranges over [{lo}, {'inf' if hi is None else hi}] when the count is >= 1: 256 problems wrap to exit status 0")
    ctx.units["cli_scenarios_evaluated"] = n_eval
