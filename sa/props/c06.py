"""C06 - formatting options never change content."""

from __future__ import annotations

import re

from .. import models, layout, pai
from ..absval import SStr, SNum, SBool, HDict, Atom, Rep
from ..core import AnalysisError, Ctx
from .c20 import check_option_plumbing

META = {
    "explanation": "(O1) every one of the seven options flows by name from dumps/dump/save through _pprint into the PrettyPrinter field the methods read (positional calls resolved against the callee's signature, constructor evaluated with symbolic options). (O2) options are confined to layout: _format is evaluated on representative dictionaries under the baseline options and under each other option setting (symbolic indent / spacer / newlinechar, indent 0, end_comment, align_values with several indents, the other quote character); after removing leading indentation, the ' # TYPE' END suffix and inter-token padding, every line must be identical to the baseline line - so the token sequence read back is the same - and key and value are always separated by at least one space. (O3) separate_complex_types, read off the text pprint() writes for a representative LAYER (evaluated): a stable partition of every block's keys (plain keywords first, block-valued keys after, both groups in their original relative order), the pairs inside METADATA / VALIDATION blocks - also those whose key is a block keyword - and the SYMBOL keyword of a nested or root STYLE stay where they are, and nothing moves when the option is off.",
    "level_text": "Options x categories of lines is a finite product once level/indent/spacer are symbolic; showing that every option-derived piece of every line template is pure layout proves that the formatted text lexes to the same tokens under all option combinations.",
    "level_note": "Trusted: that text differing only in separators between tokens parses identically (C05). newlinechar=' ' with comments is excluded by the property.",
    "technique": "by-name dataflow of options + abstract interpretation of the writers under varied option settings with line-content comparison",
}


def content_key(line, q: str) -> tuple:
    """Layout-free content of a line: pieces without leading indentation / END comment, with runs of
    spaces collapsed and the output quote character abstracted."""
    s = pai.as_sstr(line)
    pieces = list(s.pieces)
    # leading indentation: Rep pieces, spacer atoms, spaces
    while pieces and (isinstance(pieces[0], Rep) or (isinstance(pieces[0], Atom) and pieces[0].name == "spacer")):
        pieces.pop(0)
    out = []
    for i, p in enumerate(pieces):
        if isinstance(p, str):
            p = re.sub(r" +", " ", p)
            p = p.replace(q, "§")
            out.append(p)
        else:
            out.append(p)
    if out and isinstance(out[0], str):
        out[0] = out[0].lstrip(" \t")
    if out and isinstance(out[-1], str):
        out[-1] = re.sub(r" # [A-Z]+$", "", out[-1])
    return tuple(SStr(out).pieces)


def run(ctx: Ctx) -> None:
    e = models.env(ctx)
    repo = ctx.repo
    L = layout.Layout(e)
    W = layout.word
    cd = layout.cdict
    ctx.trusted += ["separators between tokens do not change the parse (C05)"]
    ctx.not_decided += ["newlinechar=' ' together with comments (excluded by the property)"]

    ctx.rule("O1", "option plumbing by name: dumps/dump/save -> _pprint -> PrettyPrinter fields", 5)
    check_option_plumbing(ctx, e, "O1")

    # ---- O2 ------------------------------------------------------------------------------------------
    ctx.rule("O2", "under every option setting each emitted line has the same content as under the default options (only indentation, padding, the END comment and the quote character differ); key and value stay separated", 30)

    def num(n):
        return SNum.sym(n, None, None)

    reps = {
        "layer": lambda: L.layer(),
        "layer, keywords between and after its blocks": lambda: L.layer_mixed(),
        "style": lambda: cd([("__type__", "style"), ("width", num("w")), ("color", [num("r"), num("g"), num("b")]), ("pattern", [(num("a"), num("b"))])]),
        "map": lambda: cd([("__type__", "map"), ("name", W("m")), ("config", cd([("akey", W("cfg"))])), ("web", cd([("__type__", "web"), ("template", W("tmpl"))])), ("layers", [cd([("__type__", "layer"), ("name", W("ln"))])])]),
        "feature": lambda: cd([("__type__", "feature"), ("points", [(num("a"), num("b"))])]),
    }
    settings = {
        "symbolic indent/spacer/newlinechar": dict(),
        "indent=0": dict(indent=0, spacer=" "),
        "indent=1, tab": dict(indent=1, spacer="\t"),
        "end_comment": dict(end_comment=True, indent=4, spacer=" "),
        "align_values indent=4": dict(align_values=True, indent=4, spacer=" "),
        "align_values indent=0": dict(align_values=True, indent=0, spacer=" "),
        "align_values indent=1": dict(align_values=True, indent=1, spacer=" "),
        "align_values indent=3 end_comment": dict(align_values=True, indent=3, spacer=" ", end_comment=True),
        "single quotes": dict(quote="'", indent=4, spacer=" "),
        "newlinechar CRLF": dict(newlinechar="\r\n", indent=2, spacer=" "),
    }
    if ctx.tier == "thorough":
        # the full cross product the property names (indent 0..8 x spacer x quote x end_comment x align_values x separate_complex_types)
        import itertools

        for indent, spacer, quote, ec, al, sep in itertools.product(range(0, 9), (" ", "\t"), ('"', "'"), (False, True), (False, True), (False, True)):
            settings[f"indent={indent} spacer={spacer!r} quote={quote} end_comment={ec} align_values={al} separate_complex_types={sep}"] = dict(indent=indent, spacer=spacer, quote=quote, end_comment=ec, align_values=al, separate_complex_types=sep)
        ctx.units["option_sets"] = len(settings)
    locf = repo.loc("pprint", repo.func(models.fmt_qual(repo)))
    for rname, mk in reps.items():
        bases = {}
        for sepflag in (False, True):
            base = L.format_lines(mk, lambda sepflag=sepflag: L.sym_options(end_comment=False, indent=4, spacer=" ", newlinechar="\n", separate_complex_types=sepflag), level=0, fork=False)
            if len(base) != 1 or base[0][1] != "return":
                raise AnalysisError(f"_format not evaluable on {rname}: {base}")
            bases[sepflag] = [content_key(ln, '"') for ln in base[0][2]]
        # separate_complex_types may reorder (decided by O3); every other option is compared with the
        # default formatting under the same separate_complex_types value
        if sorted(map(repr, bases[True])) != sorted(map(repr, bases[False])):
            ctx.finding("O2", f"{rname} | separate_complex_types", locf, "separate_complex_types changes the set of lines, not only their order")
        for sname, over in settings.items():
            opts = dict(end_comment=False)
            opts.update(over)
            outs = L.format_lines(mk, lambda opts=opts: L.sym_options(**opts), level=(0 if "indent" in over else None), fork=False)
            if len(outs) != 1:
                raise AnalysisError(f"_format forks under {sname}")
            ass, kind, lines = outs[0]
            if kind != "return":
                ctx.finding("O2", f"{rname} | {sname}", locf, f"_format raises {lines} under this option setting")
                continue
            keys = [content_key(ln, over.get("quote", '"')) for ln in lines]
            base_keys = bases[bool(over.get("separate_complex_types"))]
            diffs = [(i, a, b) for i, (a, b) in enumerate(zip(base_keys, keys)) if a != b]
            glued = []
            for ln in lines:
                s = pai.as_sstr(ln)
                txt = "".join(p if isinstance(p, str) else "□" for p in s.pieces if not isinstance(p, Rep))
                m = re.match(r"^[ \t□]*([A-Z]+)(.?)", txt)
                if m and m.group(2) not in ("", " ") and m.group(1) not in ("END",):
                    glued.append(txt[:30])
            good = len(keys) == len(base_keys) and not diffs and not glued
            why = f"{len(lines)} lines vs {len(base_keys)}" if len(keys) != len(base_keys) else (f"line {diffs[0][0]}: {SStr(diffs[0][2]).describe()!r} vs default {SStr(diffs[0][1]).describe()!r}" if diffs else f"keyword glued to its value: {glued[:2]}")
            ctx.check(good, "O2", f"{rname} | {sname}", locf, f"{len(lines)} lines, content identical", f"option setting '{sname}' changes content: {why}")

    # ---- O5 ------------------------------------------------------------------------------------------
    ctx.rule("O5", "pprint() writes the lines of _format separated by newlinechar and nothing else: the option value is placed between lines only, so a line break inside a quoted value is written as it is under every newlinechar", 3)
    locp = repo.loc("pprint", repo.func("pprint.PrettyPrinter.pprint"))
    nonl = frozenset("\n\r\"'")

    def multi():
        v = SStr([Atom("l1", nonempty=True, excludes=nonl, free=True), "\n", Atom("l2", nonempty=True, excludes=nonl, free=True)])
        return cd([("__type__", "layer"), ("name", W("n")), ("data", v), ("metadata", cd([("__type__", "metadata"), ("akey", SStr(list(v.pieces)))]))])

    for nl in ("\n", "\r\n", " "):
        o = lambda nl=nl: L.sym_options(end_comment=False, indent=2, spacer=" ", newlinechar=nl)
        lines = L.format_lines(multi, o, level=0, fork=False)
        text = L.pprint_text(multi, o, fork=False)
        if len(lines) != 1 or lines[0][1] != "return" or len(text) != 1:
            raise AnalysisError(f"pprint / _format not evaluable under newlinechar {nl!r}")
        if text[0][1] != "return":
            ctx.finding("O5", f"newlinechar {nl!r}", locp, f"pprint raises {text[0][2]} under this newlinechar")
            continue
        want = []
        for i, ln in enumerate(lines[0][2]):
            if i:
                want.append(nl)
            want += list(pai.as_sstr(ln).pieces)
        got = pai.as_sstr(text[0][2])

        def inner(t):
            ps = list(t.pieces)
            return [ps[i + 1] for i in range(len(ps) - 2) if isinstance(ps[i], Atom) and ps[i].name == "l1" and isinstance(ps[i + 2], Atom) and ps[i + 2].name == "l2"]

        def collapsed(t):
            ps = [re.sub(r"[ \t\r\n]+", " ", p_) if isinstance(p_, str) else p_ for p_ in t.pieces]
            if ps and isinstance(ps[0], str):
                ps[0] = ps[0].lstrip(" ")
            if ps and isinstance(ps[-1], str):
                ps[-1] = ps[-1].rstrip(" ")
            return SStr([p_ for p_ in ps if p_ != ""])

        intact = inner(got) == ["\n", "\n"]
        same = collapsed(got) == collapsed(SStr(want))
        ctx.check(intact and same, "O5", f"newlinechar {nl!r}", locp, f"{len(lines[0][2])} lines joined; embedded line breaks intact", f"with newlinechar {nl!r} the text is not the formatted lines separated by it: {got.describe()!r} instead of {SStr(want).describe()!r}" + ("" if intact else " (the line break inside the quoted values is rewritten, so the value read back differs)"))

    # ---- O4 ------------------------------------------------------------------------------------------
    ctx.rule("O4", "with align_values every keyword of every type, printed as the only (hence longest) keyword of its block, is separated from its value by at least one space, for indent 0, 1, 2, 4, 7", 250)
    from .. import printer as _printer
    from .c19 import special_block_rules

    n4 = 0
    for t, k, bad in _printer.glued_under_alignment(e, L):
        n4 += 1
        ctx.check(not bad, "O4", f"{t}.{k}", locf, "separated under every indent", f"with align_values the keyword {k.upper()} is glued to its value: {bad[:3]} (it is written by the padded writer but not counted by compute_max_key_length)")
    ctx.units["keywords_checked_under_align_values"] = n4

    # ---- O3 ------------------------------------------------------------------------------------------
    ctx.rule("O3", "separate_complex_types is a stable partition of every block's keys (plain keywords, then block-valued keys, each group in its original order), leaves the pairs inside key/value blocks and the SYMBOL keyword of a STYLE where they are, and does nothing when off - read off the text pprint() writes (evaluated)", 6)
    locs = repo.loc("pprint", repo.func("pprint.PrettyPrinter.pprint"))

    def heads(text) -> list:
        """First word of every line of the printed text."""
        lines_: list = [[]]
        for pc in pai.as_sstr(text).pieces:
            if isinstance(pc, str):
                parts = pc.split("\n")
                for i, part in enumerate(parts):
                    if i:
                        lines_.append([])
                    if part:
                        lines_[-1].append(part)
            else:
                lines_[-1].append(pc)
        out = []
        for ln in lines_:
            h = None
            for pc in ln:
                if isinstance(pc, str):
                    w = pc.strip(" \t")
                    if w:
                        h = w.split(" ")[0]
                        break
                elif isinstance(pc, Atom) and pc.name not in ("spacer",):
                    h = pc.describe()
                    break
            out.append(h)
        return out

    def mkd():
        val = cd([("__type__", "validation"), ("layer", W("v1")), ("qstring", W("v2")), ("class", W("v3")), ("zone", W("v4"))])
        md = cd([("__type__", "metadata"), ("style", W("m1")), ("wms_title", W("m2"))])
        return cd([
            ("__type__", "layer"),
            ("name", W("n")),
            ("classes", [cd([("__type__", "class"), ("styles", [cd([("__type__", "style"), ("symbol", W("s")), ("color", [SNum.sym("a", None, None)] * 3)])]), ("name", W("cn"))])]),
            ("type", SStr.atom("enumword", lower_is="point")),
            ("metadata", md),
            ("projection", [W("p")]),
            ("extent", [SNum.sym("a", None, None)] * 4),
            ("validation", val),
            ("data", W("d")),
        ])

    layer_kw = ["NAME", "CLASS", "TYPE", "METADATA", "PROJECTION", "EXTENT", "VALIDATION", "DATA"]
    for on in (True, False):
        text = L.pprint_text(mkd, lambda on=on: L.sym_options(end_comment=False, indent=2, spacer=" ", newlinechar="\n", quote='"', separate_complex_types=on), fork=False)
        if len(text) != 1:
            raise AnalysisError("pprint forks on the representative LAYER")
        if text[0][1] != "return":
            ctx.finding("O3", f"separate_complex_types={on}", locs, f"pprint raises {text[0][2]}")
            continue
        hs = heads(text[0][2])
        # the LAYER's own keywords, in the order they are written (NAME occurs again inside the CLASS: first one counts)
        first_layer = []
        depth = 0
        for h in hs:
            if h in ("LAYER", "CLASS", "STYLE", "METADATA", "VALIDATION", "PROJECTION"):
                if depth == 1 and h in layer_kw:
                    first_layer.append(h)
                depth += 1
            elif h == "END":
                depth -= 1
            elif depth == 1 and h in layer_kw:
                first_layer.append(h)
        want = ["NAME", "TYPE", "EXTENT", "DATA", "CLASS", "METADATA", "PROJECTION", "VALIDATION"] if on else layer_kw
        ctx.check(first_layer == want, "O3", f"separate_complex_types={on}: order of a LAYER's keywords", locs, " ".join(first_layer), f"with separate_complex_types={on} the LAYER keywords {layer_kw} are written in the order {first_layer}; " + ("a stable partition gives" if on else "the option is off, so the order must stay") + f" {want}")
        pairs = [h for h in hs if isinstance(h, str) and h.startswith('"') and h.strip('"') in ("layer", "qstring", "class", "zone", "style", "wms_title")]
        ctx.check(pairs == ['"style"', '"wms_title"', '"layer"', '"qstring"', '"class"', '"zone"'], "O3", f"separate_complex_types={on}: pairs inside METADATA / VALIDATION keep their order", locs, " ".join(pairs), f"with separate_complex_types={on} the pairs of the METADATA and VALIDATION blocks (keys style, wms_title / layer, qstring, class, zone) are written in the order {pairs}: entries whose key happens to be a block keyword are moved, so the reloaded dictionary differs in more than the position of block-valued keys")
        inner = [h for h in hs if h in ("SYMBOL", "COLOR")]
        ctx.check(inner == ["SYMBOL", "COLOR"], "O3", f"separate_complex_types={on}: STYLE SYMBOL keyword is not moved", locs, " ".join(inner), f"the SYMBOL keyword of a nested STYLE is treated as a block: written in the order {inner}")
    # a STYLE as the root of a partial Mapfile
    text = L.pprint_text(lambda: cd([("__type__", "style"), ("symbol", W("s")), ("color", [SNum.sym("a", None, None)] * 3)]), lambda: L.sym_options(end_comment=False, indent=2, spacer=" ", newlinechar="\n", quote='"', separate_complex_types=True), fork=False)
    inner = [h for h in heads(text[0][2]) if h in ("SYMBOL", "COLOR")] if len(text) == 1 and text[0][1] == "return" else text
    ctx.check(inner == ["SYMBOL", "COLOR"], "O3", "root STYLE: SYMBOL keyword is not moved", locs, "", f"the SYMBOL keyword of a root STYLE is treated as a block: {inner}")
