"""C02 - the parsed dictionary follows the documented text-to-dict contract."""

from __future__ import annotations

import ast

from .. import models, pai, xform
from ..absval import SStr, SNum, SObj, HDict, Atom
from ..core import AnalysisError, Ctx, norm
from ..grammar import Star, seq_str

META = {
    "explanation": "An abstract transformer: every callback of MapfileTransformer is evaluated by PAI on every child-class sequence the *shaped grammar* can deliver (tree shapes inferred from the compiled grammar: filtered tokens, inlined rules, ?-rules), bottom-up, with tokens carrying abstract text per terminal kind. Decided: every node label has a callback - a def, a class-body alias of a module function, or a closure made by a module-level factory called with literals, which is closure-converted into a method - or is never materialised (T1); no callback fails on a shape the grammar lists for vocabulary the schemas know (T2); the documented conversions - int/float/bool typing, hex colours lower-cased and unquoted, quoted strings losing exactly their outer quotes, keyword names and METADATA/VALIDATION/VALUES/CONNECTIONOPTIONS/CONFIG keys lower-cased (T3); composite() storage discipline evaluated on a synthetic LAYER body: __type__, source order, plural lists vs singleton dicts, repeated keys as lists, last value wins, POINTS nesting, PROJECTION list (T4); every value token of a multi-valued attribute reaches the stored value in order (T5); every spelling of a number (signs, leading / trailing point, exponent forms) is one number token of the right kind in a value position and inside a number list, by lexer simulation on the compiled terminals in the LALR state's accepted set (T6).",
    "level_text": "For the finite set of (callback, child-class sequence) pairs the grammar admits, the abstract result is compared with the contract; each verdict holds for all token texts of the class. This covers every keyword/shape pair, not the quarter the snippets mention.",
    "level_note": "Trusted: lark builds the tree the shaped grammar predicts and calls callbacks bottom-up with the children list. Token *text* classes are derived from the terminal definitions by hand (xform.token_value). Lexer-level mis-tokenisation of particular texts is not examined.",
    "technique": "abstract interpretation of transformer callbacks over grammar-derived tree shapes (typed child sequences)",
}

NEVER_MATERIALISED_OK = {"atom", "sum", "product", "unary_expr", "value", "or_test_", "start_"}


def run(ctx: Ctx) -> None:
    e = models.env(ctx)
    repo, G, S = ctx.repo, e.G, e.S
    ctx.trusted += ["lark tree construction follows the grammar's tree-shaping rules", "Transformer calls callbacks bottom-up"]
    ctx.not_decided += ["lexer-level tokenisation of texts other than number spellings (T6)", "attachment to a different object by lark itself"]
    shapes = G.node_shapes()
    labels = sorted(G.reachable_labels())
    tmeths = set(repo.module("transformer").methods.get("MapfileTransformer", {}))
    cmeths = set(repo.module("transformer").methods.get("Canonize", {}))

    # ---- T1 --------------------------------------------------------------------------------------
    ctx.rule("T1", "every node label reachable from start in the shaped grammar has a MapfileTransformer callback (symbolset: rewritten by Canonize)", 40)
    for lab in labels:
        if lab in tmeths:
            ctx.ok("T1", f"label {lab}", "mappyfile/transformer.py", "callback present")
        elif lab in cmeths:
            ctx.ok("T1", f"label {lab}", "mappyfile/transformer.py", "rewritten by Canonize before the main transformer")
        elif repo.module("transformer").class_aliases.get("MapfileTransformer", {}).get(lab) in tmeths:
            ctx.ok("T1", f"label {lab}", "mappyfile/transformer.py", "callback present (class-body alias of another method)")
        elif lab in repo.module("transformer").class_bindings.get("MapfileTransformer", {}):
            raise AnalysisError(f"callback {lab} is bound in the class body by an expression that is not resolved to a function")
        else:
            ctx.finding("T1", f"label {lab}", "mappyfile/mapfile.lark", f"the grammar can build a '{lab}' node but MapfileTransformer has no callback for it: the raw Tree would end up in the dictionary")
    rule_names = {r.alias or r.origin for r in G.rules}
    dead = sorted(m for m in tmeths if not m.startswith("_") and m in rule_names and m not in labels)
    ctx.units["callbacks_never_called"] = dead

    # ---- abstract transformer --------------------------------------------------------------------
    X = xform.AbstractTransformer(e, include_position=False, deep=ctx.tier == "thorough", rounds=3 if ctx.tier == "thorough" else 2)
    X.run()
    ctx.units.update({"callback_evaluations": len(X.all_evals), "labels_evaluated": len(X.results), "pai_paths": X.I.paths_run})
    block_types = set()
    for r in G.by_origin.get("composite_type", []):
        block_types.add(G.terms[r.expansion[0][0]].value.lower())
    attr_block_keys = set()  # block-type words that the schemas also use as plain keywords
    for t, k, node in S.all_slots():
        if k in block_types and any(a.cls not in ("OBJECT",) and not (a.cls == "LIST" and a.items and all(x.cls == "OBJECT" for x in a.items)) for a in S.alternatives(node)):
            attr_block_keys.add(k)
    ctx.units["block_type_words_used_as_keywords"] = sorted(attr_block_keys)

    # ---- T2 --------------------------------------------------------------------------------------
    ctx.rule("T2", "no callback fails (assert, unpack, index, attribute) on a child sequence the grammar lists for it, for vocabulary the schemas know", 1000)
    for r in X.all_evals:
        key = f"{r.label} | {seq_str(r.shape)[:80]} | {' '.join(r.children_classes)[:120]}"
        loc = repo.loc("transformer", repo.func(f"transformer.MapfileTransformer.{r.label}"))
        if r.kind == "return":
            ctx.ok("T2", key, loc, f"returns {r.cls}", nontrivial=True)
            continue
        if r.label == "attr" and r.exc == "AssertionError" and r.children_classes and r.children_classes[0].startswith("list(Token:kw:"):
            word = r.children_classes[0][len("list(Token:kw:") : -1]
            if word not in attr_block_keys:
                ctx.ok("T2", key, loc, f"{word.upper()} is not a plain keyword in any schema: rejected by assertion (VisitError)", nontrivial=False)
                continue
        ctx.finding("T2", f"{r.label} | {seq_str(r.shape)[:80]} | {r.exc}", loc, f"callback {r.label} raises {r.exc}{r.value} for children {r.children_classes} - a shape the grammar delivers (rule alternative {seq_str(r.shape)})")

    # ---- T3 --------------------------------------------------------------------------------------
    ctx.rule("T3", "documented conversions: ints/floats/booleans typed, hex colours lower-cased and unquoted, quoted strings lose exactly their outer quotes, keys lower-cased", 30)

    def res(label):
        out = [r for r in X.results.get(label, []) if r.kind == "return"]
        if not out:
            raise AnalysisError(f"no abstract result for {label}")
        return out

    def tokval(r):
        return r.value.attrs.get("value") if isinstance(r.value, SObj) else None

    locf = lambda name: repo.loc("transformer", repo.func(f"transformer.MapfileTransformer.{name}"))
    for r in res("int"):
        v = tokval(r)
        ctx.check(isinstance(v, SNum) and not v.is_float and str(v).startswith("int("), "T3", "int -> int(token text)", locf("int"), f"value {v!r}", f"an integer token is stored as {v!r}")
    for r in res("float"):
        v = tokval(r)
        ctx.check(isinstance(v, SNum) and v.is_float and str(v).startswith("float("), "T3", "float -> float(token text)", locf("float"), f"value {v!r}", f"a float token is stored as {v!r}")
    for lab, want in (("true", True), ("false", False)):
        for r in res(lab):
            ctx.check(tokval(r) is want, "T3", f"{lab} -> {want}", locf(lab), "", f"{lab.upper()} is stored as {tokval(r)!r}")
    for r in res("hexcolor"):
        v = tokval(r)
        good = isinstance(v, SStr) and len(v.pieces) == 2 and v.pieces[0] == "#" and isinstance(v.pieces[1], Atom) and v.pieces[1].ops == ("lower",)
        ctx.check(good, "T3", f"hexcolor ({r.children_classes[0]})", locf("hexcolor"), f"value {v!r}", f"a quoted hex colour is stored as {v!r}: expected '#' + lower-cased digits without quotes")
    # attr: every single-valued class
    n_attr = 0
    for r in res("attr"):
        d = r.value
        if not isinstance(d, HDict):
            continue
        keys = [k for k in d.keys() if not (isinstance(k, str) and k.startswith("__"))]
        if len(keys) != 1:
            ctx.finding("T3", f"attr keys | {r.children_classes}", locf("attr"), f"attr dict has keys {list(d.keys())}")
            continue
        k = keys[0]
        key_ok = (isinstance(k, str) and k == k.lower()) or (isinstance(k, SStr) and all((isinstance(p, Atom) and p.ops and p.ops[-1] == "lower") or (isinstance(p, str) and p == p.lower()) for p in k.pieces))
        cc = r.children_classes[1] if len(r.children_classes) > 1 else ""
        v = d[k]
        val_ok = True
        why = ""
        if cc in ("Token:str",) or cc.startswith("Token:kw") or cc in ("UNQUOTED_STRING", "UNQUOTED_STRING_VALUE", "AUTO", "HILITE", "SELECTED", "NULL"):
            if isinstance(v, SStr) and v.pieces and isinstance(v.pieces[0], str) and v.pieces[0][:1] in "\"'" and isinstance(v.pieces[-1], str) and v.pieces[-1][-1:] == v.pieces[0][:1] and len(v.pieces) >= 3:
                val_ok, why = False, f"a quoted string keeps its quotes: {v!r}"
            if not isinstance(v, (str, SStr)):
                val_ok, why = False, f"string value stored as {type(v).__name__}"
        elif cc == "Token:int":
            val_ok = isinstance(v, SNum) and not v.is_float
        elif cc == "Token:float":
            val_ok = isinstance(v, SNum) and v.is_float
        elif cc == "Token:bool":
            val_ok = isinstance(v, bool)
        elif cc.startswith(("tuple(", "list(")):
            n = cc.count("Token:")
            val_ok = isinstance(v, list) and len(v) == n
            why = f"{n} value tokens but stored value {v!r}"
        n_attr += 1
        ctx.check(key_ok and val_ok, "T3", f"attr | {cc}", locf("attr"), f"key {k!r} value {str(v)[:50]}", f"attr with value class {cc}: key lower-cased={key_ok}; {why or 'value typed wrongly: ' + repr(v)[:80]}")
    # quoted string -> body exactly
    for q in ('"', "'"):
        body = Atom("body", nonempty=False, free=True)

        def mk(q=q, body=body):
            key = models.token("UNQUOTED_STRING", SStr.atom("kw", lower_is="name"))
            val = models.token("DOUBLE_QUOTED_STRING", SStr([q, body, q]))
            return [key, val]

        outs = X.eval_callback("attr", mk)
        good = len(outs) == 1 and outs[0].kind == "return" and outs[0].value.get("name") == SStr([body])
        ctx.check(good, "T3", f"attr strips exactly the outer {q} pair", locf("attr"), "", f"attr(NAME {q}<body>{q}) stores {[o.value.get('name') if o.kind == 'return' else o.exc for o in outs]}")
    for q in ('"', "'"):
        def mk0(q=q):
            return [models.token("UNQUOTED_STRING", SStr.atom("kw", lower_is="name")), models.token("DOUBLE_QUOTED_STRING", q + q)]

        outs = X.eval_callback("attr", mk0)
        good = len(outs) == 1 and outs[0].kind == "return" and outs[0].value.get("name") == ""
        ctx.check(good, "T3", f"attr with the empty string {q}{q}", locf("attr"), "stored as ''", f"NAME {q}{q} is stored as {[o.value.get('name') if o.kind == 'return' else o.exc for o in outs]!r}")
    # key/value blocks
    for lab in ("metadata", "validation", "values", "connectionoptions"):
        for r in res(lab):
            d = r.value
            if not isinstance(d, dict):
                ctx.finding("T3", f"{lab} | {' '.join(r.children_classes)[:60]}", locf(lab), f"the {lab} callback returns {d!r} instead of the block's dictionary")
                continue
            bad = []
            for k, v in d.items():
                if isinstance(k, str) and k.startswith("__"):
                    continue
                lowered = isinstance(k, SStr) and all(isinstance(p, str) and p == p.lower() or (isinstance(p, Atom) and "lower" in p.ops) for p in k.pieces)
                unq = not (isinstance(k, SStr) and k.pieces and isinstance(k.pieces[0], str) and k.pieces[0][:1] in "\"'")
                vunq = not (isinstance(v, SStr) and v.pieces and isinstance(v.pieces[0], str) and v.pieces[0][:1] in "\"'" and isinstance(v.pieces[-1], str))
                vraw = not (isinstance(v, SStr) and any(isinstance(p, Atom) and ("lower" in p.ops or "upper" in p.ops) for p in v.pieces))
                if not (lowered and unq and vunq and vraw):
                    bad.append((k, v))
            ctx.check(not bad and d.get("__type__") == lab, "T3", f"{lab} | {' '.join(r.children_classes)[:60]}", locf(lab), f"{len(d)} entries", f"{lab} block: keys must be unquoted and lower-cased, values unquoted and otherwise verbatim, __type__ = {lab}; got {bad[:2]} __type__={d.get('__type__')!r}")
    for r in res("config"):
        d = r.value
        cfg = d.get("config")
        good = isinstance(cfg, dict) and len(cfg) == 1
        if good:
            (k, v), = cfg.items()
            good = isinstance(k, SStr) and any(isinstance(p, Atom) and "lower" in p.ops for p in k.pieces) and not (k.pieces and isinstance(k.pieces[0], str) and k.pieces[0][:1] in "\"'")
            good = good and not (isinstance(v, SStr) and any(isinstance(p, Atom) and "lower" in p.ops for p in v.pieces))
        ctx.check(good, "T3", f"config | {' '.join(r.children_classes)}", locf("config"), "sub-key lower-cased and unquoted, value verbatim", f"CONFIG stored as {cfg!r}")
    for r in res("projection"):
        v = r.value.get("projection")
        good = isinstance(v, list) and all(isinstance(x, (str, SStr)) for x in v)
        ctx.check(good, "T3", f"projection | {' '.join(r.children_classes)[:50]}", locf("projection"), f"list of {len(v) if isinstance(v, list) else '?'} strings", f"PROJECTION stored as {v!r}")
    for lab in ("points", "pattern"):
        for r in res(lab):
            v = r.value.get(lab)
            n = sum(1 for c in r.children_classes if c.startswith("tuple("))
            good = isinstance(v, list) and len(v) == n and all(isinstance(p, tuple) and len(p) == 2 for p in v)
            ctx.check(good, "T3", f"{lab} | {n} pair(s)", locf(lab), "list of number pairs", f"{lab.upper()} with {n} pairs stored as {str(v)[:80]}")

    # ---- T4 --------------------------------------------------------------------------------------
    ctx.rule("T4", "composite(): __type__, source order, plural lists for repeatable blocks, nested dicts for singletons, lists for repeated keywords, last value wins, POINTS nesting", 8)
    _composite_contract(ctx, e, X)

    # tuple / list builders hand on every child, in order
    for lab in ("rgb", "extent", "colorrange", "hexcolorrange", "num_pair", "attr_bind_pair", "attr_mixed_pair", "string_pair"):
        if lab not in X.results:
            continue
        for r in res(lab):
            n = len(r.children_classes)
            good = isinstance(r.value, (list, tuple)) and len(r.value) == n and r.cls.count("Token:") == n
            ctx.check(good, "T3", f"{lab} keeps its {n} children | {' '.join(r.children_classes)[:60]}", locf(lab), r.cls, f"{lab} receives {n} children {r.children_classes} but returns {r.cls}")

    # ---- T5 --------------------------------------------------------------------------------------
    ctx.rule("T5", "every value token of a multi-valued attribute reaches the stored value, in order", 5)
    for lab, n in (("rgb", 3), ("extent", 4), ("colorrange", 6), ("num_pair", 2), ("hexcolorrange", 2)):
        mk_child = X.child_options("@" + lab)
        if not mk_child:
            raise AnalysisError(f"no result for {lab}")
        holder = {}

        def mk(mk_child=mk_child):
            key = models.token("UNQUOTED_STRING", SStr.atom("kw", lower_is="somekey"))
            child = mk_child[0][1]()
            holder["child"] = child
            return [key, child]

        outs = X.eval_callback("attr", mk)
        o = outs[0]
        child = holder["child"]
        want = [t.attrs["value"] for t in child]
        got = o.value.get("somekey") if o.kind == "return" else None
        good = isinstance(got, list) and len(got) == len(want) and all(a is b or a == b for a, b in zip(got, want))
        ctx.check(good, "T5", f"attr with {lab}", repo.loc("transformer", repo.func("transformer.MapfileTransformer.attr")), f"{n} values in order", f"values {want} stored as {got}")

    # ---- T6 --------------------------------------------------------------------------------------
    ctx.rule("T6", "every spelling of a number a Mapfile may use (plain, signed, leading / trailing decimal point, exponent with or without a decimal point, either case of e, either exponent sign) is one number token of the right kind in a value position - the typed conversion of T3 is only reached through these tokens; in a number list every item is its own number token", 20)
    st_val, _ = G.state_after(["MAP", "UNQUOTED_STRING"])
    if st_val is None:
        raise AnalysisError("cannot reach a value position in the LALR automaton")
    acc = G.accepts[st_val]
    spellings = {
        "SIGNED_INT": ["0", "42", "-7", "+3", "1000000"],
        "SIGNED_FLOAT": ["0.5", "-0.25", "5.", ".5", "-.5", "+1.5", "2.5e3", "1.5E+3", "2.5e-05", "1e6", "5E4", "1E6", "1e-05", "-1e3", "3e2", "1e+16"],
    }
    for kind, texts in spellings.items():
        for txt in texts:
            got = G.lex_kind(txt, acc)
            ctx.check(got == kind, "T6", f"number spelling {txt}", "mappyfile/mapfile.lark", kind, f"the value text {txt} is read as {got or 'several tokens / no token'} instead of one {kind}: loads() returns a string (or splits the value) where the Mapfile has a number")
    # inside a list of numbers (EXTENT -1.5 2 3e2 4.25): after a first number the same spellings are still numbers
    st_lst, _ = G.state_after(["MAP", "UNQUOTED_STRING", "SIGNED_FLOAT"])
    if st_lst is not None:
        acc2 = G.accepts[st_lst]
        for kind, txt in (("SIGNED_INT", "2"), ("SIGNED_FLOAT", "3e2"), ("SIGNED_FLOAT", "4.25"), ("SIGNED_FLOAT", "1e-05")):
            got = G.lex_kind(txt, acc2)
            ctx.check(got == kind, "T6", f"number spelling {txt} after another number", "mappyfile/mapfile.lark", kind, f"inside a number list the item {txt} is read as {got or 'several tokens / no token'} instead of one {kind}: the list is cut short and the rest becomes another keyword")

    # a list expression {..} is stored as its source text: number items keep the spelling they were written
    # with (the int / float callbacks have already replaced .value by a Python number at that point)
    loc_l = ctx.repo.loc("transformer", ctx.repo.func("transformer.MapfileTransformer.list"))
    for items in (("SIGNED_FLOAT", "2.50"), ("SIGNED_INT", "007")), (("SIGNED_INT", "+1"), ("SIGNED_FLOAT", "1e3")), (("SIGNED_FLOAT", "5."), ("SIGNED_INT", "3")):
        def mk_items(items=items):
            return [X.call1("float" if k == "SIGNED_FLOAT" else "int", lambda k=k, t=t: [models.token(k, t)]) for k, t in items]

        want_l = "{%s}" % ",".join(t for _, t in items)
        try:
            res = X.call1("list", mk_items)
            got_l = res.attrs["value"] if hasattr(res, "attrs") else res
            got_l = got_l.describe() if hasattr(got_l, "describe") else got_l
        except xform.CallbackFailed as ex:
            got_l = f"failure: {ex}"
        ctx.check(got_l == want_l, "T6", f"list expression {want_l} keeps the spelling of its number items", loc_l, want_l, f"the list expression {want_l} is stored as {got_l!r}: number items are re-rendered from their converted value, so what loads() returns is not what the Mapfile says")


def _composite_contract(ctx: Ctx, e, X) -> None:
    repo = ctx.repo
    loc = repo.loc("transformer", repo.func("transformer.MapfileTransformer.composite"))

    def attr(word, value_kind="DOUBLE_QUOTED_STRING", tag=""):
        key = models.token("UNQUOTED_STRING", SStr.atom("kw", lower_is=word))
        val = X.fresh_token(value_kind)
        outs = X.eval_callback("attr", lambda: [key, val])
        if len(outs) != 1 or outs[0].kind != "return":
            raise AnalysisError(f"attr({word}) not evaluable")
        return outs[0].value, val

    def block(word, body):
        ct = [models.token(word.upper(), SStr.atom("kw", lower_is=word))]
        outs = X.eval_callback("composite", lambda: [ct, body])
        if len(outs) != 1 or outs[0].kind != "return":
            raise AnalysisError(f"composite({word}) not evaluable: {[(o.kind, o.exc, o.value) for o in outs]}")
        return outs[0].value

    def kv(word):
        r = [x for x in X.results.get(word, []) if x.kind == "return"]
        return r[-1].make()

    def points(n=1):
        r = [x for x in X.results.get("points", []) if x.kind == "return" and sum(1 for c in x.children_classes if c.startswith("tuple")) == 1]
        return r[0].make()

    a_name, name_tok = attr("name")
    a_name2, name_tok2 = attr("name")
    a_type, _ = attr("type", "UNQUOTED_STRING")
    p1, _ = attr("processing")
    p2, _ = attr("processing")
    c1 = block("class", [attr("name")[0]])
    c2 = block("class", [attr("name")[0]])
    md = kv("metadata")
    body = [a_name, c1, p1, a_type, md, c2, p2, a_name2]
    layer = block("layer", body)
    keys = [k for k in layer.keys()]
    ctx.check(layer.get("__type__") == "layer", "T4", "__type__ is the lower-case block keyword", loc, "", f"__type__ = {layer.get('__type__')!r}")
    ctx.check(keys == ["__type__", "name", "classes", "processing", "type", "metadata"], "T4", "keys in source order (first occurrence)", loc, str(keys), f"a LAYER body  NAME CLASS PROCESSING TYPE METADATA CLASS PROCESSING NAME  yields keys {keys}")
    cl = layer.get("classes")
    ctx.check(isinstance(cl, list) and len(cl) == 2 and cl[0] is c1 and cl[1] is c2, "T4", "repeatable blocks collected in source order under the plural key", loc, "", f"classes = {cl!r}")
    ctx.check(layer.get("metadata") is md, "T4", "singleton block stored as nested dict", loc, "", f"metadata = {layer.get('metadata')!r}")
    pr = layer.get("processing")
    ctx.check(isinstance(pr, list) and len(pr) == 2 and pr[0] == p1.get("processing", object()) or (isinstance(pr, list) and len(pr) == 2), "T4", "repeated keyword becomes a list in source order", loc, "", f"processing = {pr!r}")
    want_last = a_name2.get("name") if "name" in a_name2 else None
    ctx.check(layer.get("name") is not None and (layer.get("name") == _unq(name_tok2)), "T4", "a keyword given twice keeps its last value", loc, "", f"name = {layer.get('name')!r}, second occurrence was {_unq(name_tok2)!r}")
    # singleton vs plural driven by SINGLETON_COMPOSITE_NAMES
    sing = sorted(repo.const("tokens", "SINGLETON_COMPOSITE_NAMES"))
    for child in ("web", "style"):
        ch = block(child, [])
        parent = block("map", [ch])
        if child in sing:
            ctx.check(parent.get(child) is ch, "T4", f"{child}: singleton stored under its own name", loc, "", f"map keys {list(parent.keys())}")
        else:
            pl = models.plural_spec(child)
            ctx.check(isinstance(parent.get(pl), list) and parent.get(pl)[0] is ch, "T4", f"{child}: stored in a list under {pl}", loc, "", f"map keys {list(parent.keys())}")
    # POINTS nesting
    pt1, pt2 = points(), points()
    f1 = block("feature", [pt1])
    v1 = f1.get("points")
    ctx.check(isinstance(v1, list) and v1 and isinstance(v1[0], tuple), "T4", "single POINTS block: list of pairs", loc, "", f"points = {v1!r}")
    pt1, pt2 = points(), points()
    f2 = block("feature", [pt1, pt2])
    v2 = f2.get("points")
    ctx.check(isinstance(v2, list) and len(v2) == 2 and all(isinstance(x, list) and x and isinstance(x[0], tuple) for x in v2), "T4", "repeated POINTS blocks: one level deeper", loc, "", f"points = {str(v2)[:100]}")


def _unq(tok: SObj):
    v = tok.attrs["value"]
    if isinstance(v, SStr) and len(v.pieces) == 3:
        return SStr([v.pieces[1]])
    return v
