"""C12 - calls are pure, history-independent and safe to run concurrently."""

from __future__ import annotations

import ast

from .. import models
from ..core import AnalysisError, Ctx, norm, fold
from ..effects import Effects, MUTATORS
from ..pyfacts import dotted, calls_in, guards_at, Guard, walk_guarded

META = {
    "explanation": "Effect analysis over the resolved call graph of the whole package, for every schedule and history at once: no function reachable from the public API writes module- or class-level state (S1); no module/class-level binding holds a worker object, no memoising decorator (S2); every public entry point uses worker objects constructed inside its own call (in its body or by a module-level factory that returns a fresh instance) (S3); per-object attributes written outside __init__ are (re)written before they are read on every path of every public method - must-define-before-use over the structured AST, through self calls - with memo tables accepted when they are empty at construction (or created lazily behind an `is None` test of a class-level None), accessed by key only and every stored value is determined by its key - each parameter the value depends on is a key component bound exactly once (S4); the protected arguments of loads/load/open, dumps/dump/save, validate and find* have no mutation site on any call path except under the documented options separate_complex_types / add_comments , calls through a class-level table of functions followed to every function the table holds (S5); no auto-vivifying subscript read of a user dictionary on the read-only paths - the membership test may stand in the function or dominate every call of a private helper (S6).",
    "level_text": "A whole-program may-mutate / may-write analysis with alias tracking through assignments, loops, part-of methods and callee summaries (fixed point). Absence of a site is a proof over all inputs, interleavings and call histories that the code cannot perform that effect, modulo the trusted externals listed in the evidence. This is the level the property needs: it quantifies over schedules and histories, which no test can enumerate, while the effect is visible in the shape of the code.",
    "level_note": "Trusted: thread-safety and purity of lark, jsonschema, jsonref, re, logging, json, copy; Python semantics of the mutator-method table. Alias analysis is flow-insensitive (may over-approximate); unknown external calls receiving user data are listed in evidence and treated as violations unless tabled.",
    "technique": "interprocedural effect / alias analysis with guard (dominance) facts; must-define-before-use path analysis on the AST",
}

PUBLIC_READONLY = [
    ("utils.open", ["fn"]),
    ("utils.load", ["fp"]),
    ("utils.loads", ["s"]),
    ("utils.dumps", ["d"]),
    ("utils.dump", ["d"]),
    ("utils.save", ["d"]),
    ("utils.validate", ["d"]),
    ("dictutils.find", ["lst", "key", "value"]),
    ("dictutils.findall", ["lst", "key", "value"]),
    ("dictutils.findunique", ["lst", "key"]),
    ("dictutils.findkey", ["d", "keys"]),
]
OPTION_EXEMPT = {"utils.dumps": "separate_complex_types", "utils.dump": "separate_complex_types", "utils.save": "separate_complex_types", "utils.validate": "add_comments"}
PUBLIC_API = ["utils.open", "utils.load", "utils.loads", "utils.dump", "utils.dumps", "utils.save", "utils.validate", "utils.create", "utils._pprint", "dictutils.find", "dictutils.findall", "dictutils.findunique", "dictutils.findkey", "dictutils.update", "cli.format", "cli.validate", "cli.schema"]
WORKERS = {"parser.Parser", "transformer.MapfileToDict", "transformer.MapfileTransformer", "transformer.CommentsTransformer", "transformer.Canonize", "pprint.PrettyPrinter", "validator.Validator", "quoter.Quoter"}
# memo tables: the stored value is a function of the key (C09 P12c decides the key)
MEMO_TABLES = {("validator.Validator", "schemas"): "raw schema JSON by file name", ("validator.Validator", "expanded_schemas"): "expanded schema by (name, version)"}
READONLY_ROOTS = ["pprint.PrettyPrinter.pprint", "validator.Validator.validate", "dictutils.find", "dictutils.findall", "dictutils.findunique", "dictutils.findkey"]
# reads of keys every Mapfile object carries
# (class prefix, key literal): tabled by role, not by variable name or helper, so that moving the read into a helper keeps it tabled
P4_TABLED = {
    ("pprint.PrettyPrinter.", "__type__"): "every Mapfile object handed to the printer carries __type__ (pprint's contract)",
    ("validator.Validator.", "__type__"): "the object an error is reported on (or the root that selected the schema) is a Mapfile object and carries __type__",
}


def option_guard(g: Guard, opt: str) -> bool:
    """The guard establishes that option ``opt`` is truthy."""
    t, pos = g.test, g.positive
    while isinstance(t, ast.UnaryOp) and isinstance(t.op, ast.Not):
        t, pos = t.operand, not pos
    d = dotted(t)
    return bool(pos and d and d.split(".")[-1] == opt)


def run(ctx: Ctx) -> None:
    e = models.env(ctx)
    repo, facts = ctx.repo, e.facts
    E = Effects(repo, facts)
    ctx.trusted += ["lark, jsonschema, jsonref, re, logging, json, copy are pure / thread-safe for distinct objects", "mutator-method table: " + ", ".join(sorted(MUTATORS))]
    ctx.not_decided += ["thread-safety of third-party libraries themselves"]
    ctx.units.update(facts.stats())
    # private helpers in the list (utils._pprint) may be inlined away; the public names must exist
    api = [q for q in PUBLIC_API if repo.has_func(q) or not q.split(".")[-1].startswith("_")]
    reach = facts.reachable(api)
    ctx.units["functions_reachable_from_public_api"] = len(reach)

    # ---- S1 ------------------------------------------------------------------------------------
    ctx.rule("S1", "no function of the package stores to or mutates a module-level or class-level object (tabled: import-time plugin registration in __init__)", 100)
    for q, S in E.sum.items():
        loc = repo.loc(q.split(".")[0], E.fns[q])
        if not S.global_writes:
            ctx.ok("S1", q, loc, "no global / class-level write", nontrivial=q in reach)
        for node, what in S.global_writes:
            ctx.finding("S1", f"{q} | {norm(node)[:80]}", repo.loc(q.split(".")[0], node), f"{what} ({'reachable from' if q in reach else 'not reachable from'} the public API): shared state across calls and threads")
    # module-level statements other than defs: mutation of module-level containers at import is fine,
    # but a later mutator call anywhere on a module-level mutable is not (covered above by global_base)

    # ---- S2 ------------------------------------------------------------------------------------
    ctx.rule("S2", "no module-level or class-level binding holds a worker instance (Parser, Lark, MapfileToDict, PrettyPrinter, Validator, Quoter ...); no lru_cache/cache decorators", 20)
    for mname, mi in repo.modules.items():
        scopes = [(mname, mi.tree.body)] + [(f"{mname}.{c}", cd.body) for c, cd in mi.classes.items()]
        for scope, body in scopes:
            for st in _flat(body):
                if isinstance(st, (ast.Assign, ast.AnnAssign)) and getattr(st, "value", None) is not None:
                    bad = None
                    for c in calls_in(st.value):
                        d = dotted(c.func) or ""
                        r = facts.resolve_name(mname, d) if d else None
                        if r in WORKERS or d.split(".")[-1] in ("Lark", "open") and d.startswith("Lark") or d in ("Lark.open",):
                            bad = d
                    tgt = norm(st.targets[0] if isinstance(st, ast.Assign) else st.target)
                    if bad:
                        ctx.finding("S2", f"{scope}.{tgt}", repo.loc(mname, st), f"module/class-level binding {tgt} holds a shared worker object built by {bad}(): concurrent calls would share its mutable state")
                    else:
                        ctx.ok("S2", f"{scope}.{tgt}", repo.loc(mname, st), "not a worker object", nontrivial=False)
    for q, fn in repo.all_functions():
        for dnode in fn.decorator_list:
            d = dotted(dnode.func if isinstance(dnode, ast.Call) else dnode) or ""
            if d.split(".")[-1] in ("lru_cache", "cache", "cached_property"):
                ctx.finding("S2", f"{q} decorator {d}", repo.loc(q.split(".")[0], fn), "memoising decorator keeps results (and argument references) across calls")
    # default arguments that are mutable containers or worker instances
    for q, fn in repo.all_functions():
        for dflt in list(fn.args.defaults) + [d for d in fn.args.kw_defaults if d is not None]:
            if isinstance(dflt, (ast.List, ast.Dict, ast.Set)) or (isinstance(dflt, ast.Call) and (facts.resolve_name(q.split(".")[0], dotted(dflt.func) or "") in WORKERS)):
                ctx.finding("S2", f"{q} default {norm(dflt)[:40]}", repo.loc(q.split(".")[0], fn), "mutable / worker default argument is shared between calls")

    # ---- S3 ------------------------------------------------------------------------------------
    ctx.rule("S3", "each public entry point builds its worker objects in its own body (fresh per call)", 7)
    s3_entries = ["utils.open", "utils.load", "utils.loads", "utils.validate", "utils.create", "cli.schema"] + (["utils._pprint"] if repo.has_func("utils._pprint") else ["utils.dumps"])
    for q in s3_entries:
        fn = repo.func(q)
        local = facts.local_types(q, fn)
        used = []
        for cs in facts.calls[q]:
            if cs.target and cs.target.count(".") == 2 and ".".join(cs.target.split(".")[:2]) in WORKERS and not cs.target.endswith("__init__"):
                recv = dotted(cs.node.func.value) if isinstance(cs.node.func, ast.Attribute) else None
                used.append((recv, cs.target))
        ok = bool(used) and all(r in local for r, _ in used)
        ctx.check(ok, "S3", q, repo.loc(q.split(".")[0], fn), f"workers {sorted(set(local.values()))} constructed locally", f"{q} uses worker methods {used} on objects it did not construct in its own body {sorted(local)}")

    # ---- S4 ------------------------------------------------------------------------------------
    ctx.rule("S4", "instance attributes written outside __init__ are written before they are read on every path of every public method (through self calls); Validator's memo tables tabled", 3)
    for cq in sorted(WORKERS):
        mod, cname = cq.split(".")
        meths = repo.module(mod).methods.get(cname)
        if meths is None:
            raise AnalysisError(f"anchor vanished: class {cq}")
        tracked = set()
        for m, fn in meths.items():
            if m == "__init__":
                continue
            tracked |= set(E.sum[f"{cq}.{m}"].self_attr_writes)
        memo_ok = set()
        for attr in sorted(tracked):
            if (cq, attr) in MEMO_TABLES:
                ctx.ok("S4", f"{cq}.{attr} (memo table)", f"mappyfile/{mod}.py", MEMO_TABLES[(cq, attr)] + "; keyed lookups only", nontrivial=False)
                memo_ok.add(attr)
                continue
            is_memo, why = _sound_memo_table(repo, E, cq, attr, tracked)
            if is_memo:
                ctx.ok("S4", f"{cq}.{attr} (memo table)", f"mappyfile/{mod}.py", why)
                memo_ok.add(attr)
                continue
            for m, fn in meths.items():
                if m.startswith("_"):
                    continue
                bad = _read_before_write(repo, facts, cq, m, attr)
                for node, via in bad:
                    ctx.finding("S4", f"{cq}.{m}: self.{attr} read before written", repo.loc(mod, node), f"self.{attr} is written outside __init__ but {via} reads it before (re)writing it on some path of public method {m}: the value of a previous call leaks in")
                if not bad:
                    ctx.ok("S4", f"{cq}.{m}: self.{attr}", repo.loc(mod, fn), "written before read on every path (or not used)")
        # stores outside __init__ on classes that should have none
        if cq in ("pprint.PrettyPrinter", "quoter.Quoter", "transformer.MapfileTransformer") and tracked - memo_ok:
            for attr in sorted(tracked - memo_ok):
                ctx.finding("S4", f"{cq}.{attr} stored outside __init__", f"mappyfile/{mod}.py", f"{cq} keeps per-call state in self.{attr}; reuse across documents / threads would see it")

    # ---- S5 ------------------------------------------------------------------------------------
    ctx.rule("S5", "the protected arguments of the read-only public functions have no mutation site on any call path, except under separate_complex_types / add_comments", 11)
    for q, params in PUBLIC_READONLY:
        for p in params:
            sites = E.mutation_sites(q, p)
            opt = OPTION_EXEMPT.get(q)
            bad = [s for s in sites if not (opt and any(option_guard(g, opt) for g in s.guards))]
            for s in bad:
                ctx.finding("S5", f"{q}({p}) | {s.qual} | {s.text[:90]}", repo.loc(s.qual.split(".")[0], s.node), f"argument {p} of {q} can be mutated here ({s.kind}); path guards: {[str(g) for g in s.guards] or 'none'}")
            if not bad:
                ctx.ok("S5", f"{q}({p})", repo.loc(q.split(".")[0], repo.func(q)), f"{len(sites)} mutation site(s), all under option {opt}" if sites else "no mutation site on any call path")
    # the two options under which modification is allowed are off unless asked for, at every level of the call chain
    for opt in sorted(set(OPTION_EXEMPT.values())):
        for q, fn_ in repo.all_functions():
            a_ = fn_.args
            pos_ = a_.args
            pairs_ = list(zip(pos_[len(pos_) - len(a_.defaults) :], a_.defaults)) + [(x, d) for x, d in zip(a_.kwonlyargs, a_.kw_defaults) if d is not None]
            for x, d in pairs_:
                if x.arg == opt:
                    try:
                        val = fold(d)
                    except Exception:
                        val = norm(d)
                    ctx.check(val is False, "S5", f"{q}: default of {opt}", repo.loc(q.split(".")[0], fn_), "off by default", f"{q} declares {opt}={val!r} by default: a plain call (which the read-only guarantee covers) then modifies its argument")
    prot = E.taint([(q, ps) for q, ps in PUBLIC_READONLY])
    for q, S in E.sum.items():
        if q in reach:
            for node, name, ps in S.unknown_external:
                if name.startswith("nested:"):
                    continue
                if not (set(ps) & prot.get(q, set())):
                    continue  # the external call does not receive (part of) a protected argument
                ctx.finding("S5", f"{q} | external {name}", repo.loc(q.split(".")[0], node), f"user data {sorted(ps)} is handed to {name}, whose effect on it is not tabled")

    # ---- S6 (P4) -------------------------------------------------------------------------------
    ctx.rule("S6", "on the read-only paths (printer, validator messages, find*) every string-keyed subscript read of user data is existence-guarded, iterates its own keys, or is tabled: x[k] on a DefaultOrderedDict inserts", 9)
    ro = facts.reachable(READONLY_ROOTS)
    tainted = E.taint([(q, [p for p in E.sum[q].params if p not in ("self", "cls")]) for q in READONLY_ROOTS])
    ctx.units["functions_receiving_user_data_on_readonly_paths"] = len(tainted)
    for q in sorted(ro):
        fn = E.fns.get(q)
        if fn is None:
            continue
        derived = E.derived(q)
        params = set(E.sum[q].params) - {"self", "cls"}
        if q.startswith(("validator.Validator.get_", "validator.Validator.is_valid", "validator.Validator.retrieve", "quoter.")):
            continue  # schema handling: plain dicts loaded from JSON, not user data
        for n in ast.walk(fn):
            if not (isinstance(n, ast.Subscript) and isinstance(n.ctx, ast.Load)):
                continue
            roots = {x.rstrip("*") for x in E.roots(q, n.value, derived, params | {"self"})} - {"self"}
            roots &= params & tainted.get(q, set())
            if not roots:
                continue
            try:
                if any(option_guard(g, o) for g in guards_at(fn, n) for o in ("add_comments", "separate_complex_types")):
                    continue  # under the options for which C12 allows modification
            except AnalysisError:
                pass
            verdict, why = _key_safe(fn, n, E, q)
            key = norm(n)
            if verdict == "skip":
                continue
            tabled = next((why_ for (pref, lit), why_ in P4_TABLED.items() if q.startswith(pref) and isinstance(n.slice, ast.Constant) and n.slice.value == lit), None)
            if tabled and verdict != "safe":
                ctx.ok("S6", f"{q} | {key}", repo.loc(q.split(".")[0], n), "tabled: " + tabled, nontrivial=False)
            elif verdict == "safe":
                ctx.ok("S6", f"{q} | {key}", repo.loc(q.split(".")[0], n), why)
            else:
                ctx.finding("S6", f"{q} | {key}", repo.loc(q.split(".")[0], n), f"unguarded keyed read {key} of user data ({sorted(roots)}): on a DefaultOrderedDict a missing key is created (auto-vivified), so a read-only call modifies its argument; {why}")


def _flat(body):
    for st in body:
        yield st
        if isinstance(st, (ast.If, ast.Try)):
            for fld in ("body", "orelse", "finalbody"):
                yield from _flat(getattr(st, fld, []) or [])
            for h in getattr(st, "handlers", []) or []:
                yield from _flat(h.body)


# -------------------------------------------------------------------------------------------------
# S4: must-write-before-read
# -------------------------------------------------------------------------------------------------


def _sound_memo_table(repo, E, cq: str, attr: str, tracked: set) -> tuple[bool, str]:
    """self.<attr> is a memo table whose content cannot make one call observable in another:
    (1) __init__ binds it to an empty dict; (2) outside __init__ it is touched only by keyed stores
    ``self.attr[K] = V``, keyed reads ``self.attr[K]`` / ``.get(K)`` and membership tests; (3) at every
    store, each parameter or loop variable the stored value V depends on (def-use closure inside the
    function) is itself, unmodified, a component of the key K, and every instance attribute it depends
    on is never written outside __init__ - so V is a function of K and of construction-time options."""
    mod, cname = cq.split(".")
    meths = repo.module(mod).methods[cname]
    def is_empty_dict(v):
        return (isinstance(v, ast.Dict) and not v.keys) or (isinstance(v, ast.Call) and dotted(v.func) in ("dict", "OrderedDict") and not v.args and not v.keywords)

    def is_attr(t):
        return isinstance(t, ast.Attribute) and t.attr == attr and isinstance(t.value, ast.Name) and t.value.id == "self"

    # every binding of the attribute itself, anywhere in the class, is to a new empty dict
    # (in __init__, or created lazily on first use)
    n_bind = 0
    for m, fn in meths.items():
        for st in ast.walk(fn):
            if isinstance(st, (ast.Assign, ast.AnnAssign)):
                targets = st.targets if isinstance(st, ast.Assign) else [st.target]
                if any(is_attr(t) for t in targets):
                    if st.value is None or not is_empty_dict(st.value):
                        return False, f"{m}: self.{attr} is bound to something other than a new empty dict"
                    n_bind += 1
            elif isinstance(st, ast.AugAssign) and is_attr(st.target):
                return False, f"{m}: augmented assignment to self.{attr}"
    if not n_bind:
        return False, "never bound to an empty dict"
    # a class-level default may only be the "not created yet" marker None: any other class-level value
    # would be one object shared by every instance
    for st in repo.module(mod).classes[cname].body:
        tg = st.targets if isinstance(st, ast.Assign) else [st.target] if isinstance(st, ast.AnnAssign) else []
        if any(isinstance(t, ast.Name) and t.id == attr for t in tg):
            if not (st.value is None or (isinstance(st.value, ast.Constant) and st.value.value is None)):
                return False, f"class-level {attr} is bound to an object shared by all instances"
    n_store = 0
    for m, fn in meths.items():
        if m == "__init__":
            continue
        parents = {}
        for par in ast.walk(fn):
            for ch in ast.iter_child_nodes(par):
                parents[ch] = par
        params = {a.arg for a in fn.args.args + fn.args.kwonlyargs} - {"self"}
        assigns: dict = {}
        for st in ast.walk(fn):
            if isinstance(st, ast.Assign) and len(st.targets) == 1 and isinstance(st.targets[0], ast.Name):
                assigns.setdefault(st.targets[0].id, []).append(st.value)
            elif isinstance(st, (ast.For, ast.comprehension)) and isinstance(st.target, ast.Name):
                assigns.setdefault(st.target.id, []).append(st.iter)
            elif isinstance(st, ast.AugAssign) and isinstance(st.target, ast.Name):
                assigns.setdefault(st.target.id, []).append(st.value)

        def deps(expr, seen, stop=frozenset()):
            names, attrs = set(), set()
            for n in ast.walk(expr):
                if isinstance(n, ast.Attribute) and isinstance(n.value, ast.Name) and n.value.id == "self":
                    attrs.add(n.attr)
                elif isinstance(n, ast.Name) and n.id != "self":
                    if n.id in stop:
                        names.add(n.id)  # a key component: the key carries this very value
                        continue
                    if n.id in params:
                        names.add(n.id)
                    if n.id in assigns and n.id not in seen:
                        seen.add(n.id)
                        for v in assigns[n.id]:
                            a, b = deps(v, seen, stop)
                            names |= a
                            attrs |= b
            return names, attrs

        def single(name):
            """bound exactly once in the function (a parameter never rebound, or one plain assignment)"""
            return (name in params and name not in assigns) or (name not in params and len(assigns.get(name, [])) == 1)

        # locals that stand for the table: ``t = self.attr`` / ``t = self.attr = {}``
        table_names = set()
        for st in ast.walk(fn):
            if isinstance(st, ast.Assign) and any(is_attr(t) for t in st.targets) or (isinstance(st, ast.Assign) and is_attr(st.value)):
                table_names |= {t.id for t in st.targets if isinstance(t, ast.Name)}
        for n in ast.walk(fn):
            is_tbl = is_attr(n) or (isinstance(n, ast.Name) and n.id in table_names)
            if not is_tbl:
                continue
            par = parents.get(n)
            if isinstance(par, ast.Assign) and (n in par.targets or par.value is n):
                continue  # the binding itself (checked above) or taking the alias
            if isinstance(par, ast.Subscript) and par.value is n:
                if isinstance(par.ctx, ast.Load):
                    continue  # keyed read
                if isinstance(par.ctx, ast.Store):
                    st = parents.get(par)
                    # ``self.attr[K] = V`` or the chained form ``v = self.attr[K] = V`` (other targets plain names)
                    if not (isinstance(st, ast.Assign) and all(t is par or isinstance(t, ast.Name) for t in st.targets)):
                        return False, f"{m}: store to self.{attr}[..] that is not a plain assignment"
                    key = par.slice
                    # a key held in a local bound once to a tuple stands for that tuple
                    if isinstance(key, ast.Name) and key.id not in params and len(assigns.get(key.id, [])) == 1 and isinstance(assigns[key.id][0], ast.Tuple):
                        key = assigns[key.id][0]
                    comps = key.elts if isinstance(key, ast.Tuple) else [key]
                    # names bound exactly once: the value they have in the key is the value they have in V
                    key_names = {c.id for c in comps if isinstance(c, ast.Name) and single(c.id)}
                    vn, va = deps(st.value, set(), frozenset(key_names))
                    loose = {x for x in vn if x not in key_names}
                    if loose:
                        return False, f"{m}: the value stored under {norm(key)} depends on {sorted(loose)}, which the key does not carry unchanged"
                    bad_attrs = (va & tracked) - {attr}
                    if bad_attrs:
                        return False, f"{m}: the stored value depends on self.{sorted(bad_attrs)[0]}, which changes between calls"
                    n_store += 1
                    continue
                return False, f"{m}: del self.{attr}[..]"
            if isinstance(par, ast.Compare) and n in par.comparators and all(isinstance(o, (ast.In, ast.NotIn)) for o in par.ops):
                continue
            if isinstance(par, ast.Compare) and par.left is n and len(par.ops) == 1 and isinstance(par.ops[0], (ast.Is, ast.IsNot)) and isinstance(par.comparators[0], ast.Constant) and par.comparators[0].value is None:
                continue  # "not created yet" test of a lazily created table
            if isinstance(par, ast.Attribute) and par.attr == "get" and isinstance(parents.get(par), ast.Call):
                continue
            return False, f"{m}: self.{attr} is used other than by key ({norm(par)[:60]})"
    if not n_store:
        return False, "no keyed store"
    return True, f"memo table: empty at construction, keyed access only, every stored value is determined by its key ({n_store} store site(s))"


def _read_before_write(repo, facts, cq: str, meth: str, attr: str) -> list:
    mod, cname = cq.split(".")
    meths = repo.module(mod).methods[cname]
    bad: list = []

    def is_self_attr(n: ast.AST) -> bool:
        return isinstance(n, ast.Attribute) and n.attr == attr and isinstance(n.value, ast.Name) and n.value.id == "self"

    def expr_events(node: ast.AST, written: bool, stack: tuple) -> bool:
        """Walk an expression / simple statement in evaluation order (approximation: reads before the
        statement's own store).  Returns new `written`."""
        # reads
        for n in ast.walk(node):
            if is_self_attr(n) and isinstance(n.ctx, ast.Load):
                # a Load that is the base of a store target (self.x[:] = ..., self.x[k] = ...) is a write
                continue
        return written

    def walk_expr(node: ast.AST, written: bool, stack: tuple, store_bases: set) -> bool:
        for n in ast.walk(node):
            if is_self_attr(n) and isinstance(n.ctx, ast.Load) and id(n) not in store_bases:
                if not written:
                    bad.append((n, " -> ".join(stack)))
            if isinstance(n, ast.Call) and isinstance(n.func, ast.Attribute) and isinstance(n.func.value, ast.Name) and n.func.value.id == "self":
                callee = meths.get(repo.module(mod).class_aliases[cname].get(n.func.attr, n.func.attr))
                if callee is not None and n.func.attr not in stack and len(stack) < 8:
                    written = block(callee.body, written, stack + (n.func.attr,))
        return written

    def stmt(st: ast.stmt, written: bool, stack: tuple) -> bool:
        if isinstance(st, ast.Expr) and isinstance(st.value, ast.Call) and isinstance(st.value.func, ast.Attribute) and st.value.func.attr == "clear" and is_self_attr(st.value.func.value) and not st.value.args:
            return True  # self.x.clear() empties the container: whatever a previous call left is gone
        if isinstance(st, (ast.Assign, ast.AugAssign, ast.AnnAssign)):
            targets = st.targets if isinstance(st, ast.Assign) else [st.target]
            store_bases = set()
            full_write = False
            for t in targets:
                if is_self_attr(t):
                    full_write = True
                b = t
                while isinstance(b, ast.Subscript):
                    if isinstance(b.slice, ast.Slice) and b.slice.lower is None and b.slice.upper is None and is_self_attr(b.value):
                        full_write = True  # self.x[:] = ... replaces the whole content
                        store_bases.add(id(b.value))
                    b = b.value
            if getattr(st, "value", None) is not None:
                written = walk_expr(st.value, written, stack, set())
            for t in targets:
                written = walk_expr(t, written, stack, store_bases)
            return written or full_write
        if isinstance(st, ast.If):
            written = walk_expr(st.test, written, stack, set())
            a = block(st.body, written, stack)
            b = block(st.orelse, written, stack)
            from ..pyfacts import terminates

            if terminates(st.body):
                return b
            if st.orelse and terminates(st.orelse):
                return a
            return a and b
        if isinstance(st, (ast.For, ast.While)):
            written = walk_expr(st.iter if isinstance(st, ast.For) else st.test, written, stack, set())
            block(st.body, written, stack)
            block(st.orelse, written, stack)
            return written
        if isinstance(st, ast.Try):
            a = block(st.body, written, stack)
            for h in st.handlers:
                block(h.body, written, stack)
            a = block(st.orelse, a, stack)
            if st.finalbody:
                a = block(st.finalbody, a, stack)
            # normal completion goes through the whole body (handlers here re-raise or continue)
            return a if all(_ends_raise(h.body) for h in st.handlers) else written and a
        if isinstance(st, ast.With):
            for it in st.items:
                written = walk_expr(it.context_expr, written, stack, set())
            return block(st.body, written, stack)
        if isinstance(st, (ast.FunctionDef, ast.ClassDef)):
            return written
        return walk_expr(st, written, stack, set())

    def block(body, written: bool, stack: tuple) -> bool:
        for st in body:
            written = stmt(st, written, stack)
        return written

    fn = meths[meth]
    block(fn.body, False, (meth,))
    # dedupe
    seen = set()
    out = []
    for n, via in bad:
        if id(n) not in seen:
            seen.add(id(n))
            out.append((n, via))
    return out


def _ends_raise(body) -> bool:
    from ..pyfacts import terminates

    return terminates(body)


# -------------------------------------------------------------------------------------------------
# S6: is the key of a subscript read known to exist?
# -------------------------------------------------------------------------------------------------


def _membership_dominates(fn: ast.FunctionDef, node: ast.AST, base_txt: str, key_txt: str) -> str | None:
    """A test establishing ``key in base`` dominates ``node`` inside ``fn`` (reason text), else None."""
    try:
        gs = guards_at(fn, node)
    except AnalysisError:
        gs = []
    for g in gs:
        t, pos = g.test, g.positive
        while isinstance(t, ast.UnaryOp) and isinstance(t.op, ast.Not):
            t, pos = t.operand, not pos
        if isinstance(t, ast.Compare) and len(t.ops) == 1 and norm(t.comparators[0]) == base_txt and norm(t.left) == key_txt:
            if (isinstance(t.ops[0], ast.In) and pos) or (isinstance(t.ops[0], ast.NotIn) and not pos):
                return f"dominated by '{key_txt} in {base_txt}'"
        # `not path or key not in d[...]` negated: both disjuncts false
        if isinstance(t, ast.BoolOp) and isinstance(t.op, ast.Or) and not pos:
            for v in t.values:
                if isinstance(v, ast.Compare) and len(v.ops) == 1 and isinstance(v.ops[0], ast.NotIn) and norm(v.comparators[0]) == base_txt and norm(v.left) == key_txt:
                    return f"dominated by not ('{key_txt} not in {base_txt}')"
        # `if isinstance(x, dict) and k not in x: raise`  negated: x is not a dict (no auto-creation) or k in x
        if isinstance(t, ast.BoolOp) and isinstance(t.op, ast.And) and not pos and len(t.values) == 2:
            a, b = t.values
            is_dict_test = isinstance(a, ast.Call) and dotted(a.func) == "isinstance" and len(a.args) == 2 and norm(a.args[0]) == base_txt and "dict" in norm(a.args[1])
            notin = isinstance(b, ast.Compare) and len(b.ops) == 1 and isinstance(b.ops[0], ast.NotIn) and norm(b.comparators[0]) == base_txt and norm(b.left) == key_txt
            if is_dict_test and notin:
                return f"dominated by not (isinstance({base_txt}, dict) and {key_txt} not in {base_txt})"
        if isinstance(t, ast.BoolOp) and isinstance(t.op, ast.And) and pos:
            for v in t.values:
                if isinstance(v, ast.Compare) and len(v.ops) == 1 and isinstance(v.ops[0], ast.In) and norm(v.comparators[0]) == base_txt and norm(v.left) == key_txt:
                    return f"dominated by '{key_txt} in {base_txt}'"
    return None


def _key_safe(fn: ast.FunctionDef, sub: ast.Subscript, E: Effects, q: str) -> tuple[str, str]:
    sl = sub.slice
    if isinstance(sl, ast.Slice):
        return "skip", "slice"
    if isinstance(sl, ast.Constant) and isinstance(sl.value, int):
        return "skip", "list index"
    if isinstance(sl, ast.UnaryOp) and isinstance(sl.operand, ast.Constant) and isinstance(sl.operand.value, int):
        return "skip", "list index"
    base_txt = norm(sub.value)
    key_txt = norm(sl)
    # a subscript dominated by isinstance(base, list / tuple) indexes a sequence: nothing is auto-created
    try:
        for g in guards_at(fn, sub):
            t = g.test
            if g.positive and isinstance(t, ast.Call) and dotted(t.func) == "isinstance" and len(t.args) == 2 and norm(t.args[0]) == base_txt and norm(t.args[1]) in ("list", "tuple", "(list, tuple)", "(tuple, list)"):
                return "skip", "index into a list"
    except AnalysisError:
        pass
    why = _membership_dominates(fn, sub, base_txt, key_txt)
    if why:
        return "safe", why
    # the test may stand in the callers: a private helper whose every call is dominated by it
    if isinstance(sub.value, ast.Name) and sub.value.id in E.sum[q].params and isinstance(sl, ast.Constant) and q.split(".")[-1].startswith("_"):
        from ..pyfacts import bind_args as _bind

        callers = E.facts.callers_of(q)
        oks = []
        for cs in callers:
            cfn = E.fns.get(cs.caller)
            b = _bind(cs.node, fn, skip_self=q.count(".") == 2)
            barg = b.get(sub.value.id)
            oks.append(bool(cfn is not None and barg is not None and _membership_dominates(cfn, cs.node, norm(barg), key_txt)))
        if callers and all(oks):
            return "safe", f"every call of this private helper is dominated by '{key_txt} in <argument>' in its caller"
    # key iterates the container's own keys
    if isinstance(sl, ast.Name):
        for n in ast.walk(fn):
            it = None
            if isinstance(n, (ast.For, ast.comprehension)):
                tnames = [x.id for x in ast.walk(n.target) if isinstance(x, ast.Name)]
                if sl.id in tnames:
                    it = n.iter
            if it is not None:
                txt = norm(it)
                first_of_items = isinstance(n.target, ast.Tuple) and isinstance(n.target.elts[0], ast.Name) and n.target.elts[0].id == sl.id
                if _is_keys_of(it, base_txt, fn) or (txt == f"{base_txt}.items()" and first_of_items):
                    return "safe", f"{sl.id} iterates the keys of {base_txt}"
                if txt.startswith(("range(", "enumerate(")):
                    return "skip", "integer index"
        # the key comes from a caller that iterates the keys: is_complex_type(composite, key, level)
        if sl.id in E.sum[q].params:
            callers = E.facts.callers_of(q)
            if callers:
                allsafe = True
                for cs in callers:
                    cfn = E.fns.get(cs.caller)
                    from ..pyfacts import bind_args

                    b = bind_args(cs.node, fn, skip_self=q.count(".") == 2)
                    karg = b.get(sl.id)
                    barg = b.get(base_txt) if isinstance(sub.value, ast.Name) else None
                    if not (isinstance(karg, ast.Name) and barg is not None and cfn is not None):
                        allsafe = False
                        break
                    okc = False
                    for n in ast.walk(cfn):
                        if isinstance(n, (ast.For, ast.comprehension)) and isinstance(n.target, ast.Name) and n.target.id == karg.id:
                            if _is_keys_of(n.iter, norm(barg), cfn):
                                okc = True
                    allsafe = allsafe and okc
                if allsafe:
                    return "safe", f"every caller passes a key obtained by iterating {base_txt}'s keys"
    return "unsafe", "no dominating membership test, not an iteration over its own keys"


def _is_keys_of(expr: ast.expr, base_txt: str, fn: ast.FunctionDef) -> bool:
    """``expr`` denotes (a snapshot of) the keys of ``base_txt``: the container itself, its .keys(), a list /
    tuple / sorted copy of either, or a local bound exactly once in ``fn`` to one of these."""
    forms = {base_txt, f"{base_txt}.keys()"}
    forms |= {f"{w}({x})" for w in ("list", "tuple", "sorted", "frozenset", "set") for x in list(forms)}
    if norm(expr) in forms:
        return True
    if isinstance(expr, ast.Name):
        binds = [st.value for st in ast.walk(fn) if isinstance(st, ast.Assign) and any(isinstance(t, ast.Name) and t.id == expr.id for t in st.targets)]
        others = [st for st in ast.walk(fn) if isinstance(st, (ast.AugAssign, ast.AnnAssign, ast.For, ast.comprehension, ast.NamedExpr)) and isinstance(getattr(st, "target", None), ast.Name) and st.target.id == expr.id]
        if len(binds) == 1 and not others and norm(binds[0]) in forms:
            return True
    return False
