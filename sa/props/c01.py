"""C01 - parse -> pretty-print -> parse preserves Mapfile content (abstract round trip on the vocabulary)."""

from __future__ import annotations

import ast

from .. import models, printer, roundtrip, layout
from ..absval import SStr, Atom
from ..core import AnalysisError, Ctx, norm
from ..pyfacts import dotted, calls_in

META = {
    "explanation": "Abstract round trip on the finite vocabulary: for every (type, keyword) slot, every value class the slot admits and both quote characters, (1) PAI evaluates the printer on an opaque value of the class giving an output template, (2) the template is split into token kinds by its shape, (3) the kind sequence must be a sentence of the LALR automaton inside a block of that type (contextual word lexing, evaluated retagging), (4) PAI evaluates the transformer callback chain on tokens carrying the template's text and the stored value must be the value it started from, up to the two differences C01 allows (R1). Structure: the printer recurses on exactly the keys under which composite() stores child objects, in insertion order - decided by evaluating _format on a representative LAYER and comparing the sequence of emitted openers with the dictionary order (R2); no sorted / reversed / set iteration on the print or load path (R3).",
    "level_text": "Content preservation is decided cell by cell over the whole (type x keyword x value class x quote) table; each cell stands for all values of its class. Whole documents only instantiate these cells plus the structural rules.",
    "level_note": "Trusted: lark lexes a printed token as the kind its delimiters imply (quoted string, number, bare word), int(str(n)) == n and float(str(x)) == x in Python. Parenthesised expressions, NOT expressions and list expressions are delegated to C10/C04 (normal form is a fixed point). Comments, multi-line strings and strings containing the output quote are outside the guarantee.",
    "technique": "abstract interpretation of printer and transformer composed through an LALR-table acceptance query, over the exhaustive slot/value-class table",
}


def _all_under_option(fn: ast.FunctionDef, nodes: list, option: str) -> bool:
    """Every one of ``nodes`` is dominated by a test that self.<option> is set."""
    from ..pyfacts import guards_at

    if not nodes:
        return False
    for n in nodes:
        try:
            gs = guards_at(fn, n)
        except AnalysisError:
            return False
        if not any(g.positive and norm(g.test) == f"self.{option}" for g in gs):
            return False
    return True


def _only_under_option(fn: ast.FunctionDef, option: str) -> bool:
    """The function returns at once unless self.<option> is set: its first statement is
    ``if not self.<option>: return``."""
    body = [st for st in fn.body if not (isinstance(st, ast.Expr) and isinstance(st.value, ast.Constant) and isinstance(st.value.value, str))]
    if not body or not isinstance(body[0], ast.If):
        return False
    t = body[0].test
    return isinstance(t, ast.UnaryOp) and isinstance(t.op, ast.Not) and norm(t.operand) == f"self.{option}" and len(body[0].body) == 1 and isinstance(body[0].body[0], ast.Return) and body[0].body[0].value is None


def run(ctx: Ctx) -> None:
    e = models.env(ctx)
    repo, S, G = ctx.repo, e.S, e.G
    ctx.trusted += ["lexing of a printed token follows its delimiters", "int(str(n)) == n, float(str(x)) == x"]
    ctx.not_decided += ["whole corpus documents", "multi-line strings, comments", "numeric formatting of floats beyond Python's repr round trip"]
    RT = roundtrip.RoundTrip(e)
    loc = repo.loc("pprint", repo.func("pprint.PrettyPrinter.format_value"))

    ctx.rule("R1", "print -> lex -> parse -> transform returns the value it started from, for every slot x value class x quote", 1200)
    from .c19 import special_block_rules

    special_keys = set(special_block_rules(G)) | set(repo.const("tokens", "REPEATED_KEYS"))
    n = delegated = 0
    for t in S.types():
        if t == "symbolset":
            continue
        for k, node in sorted(S.slots(t).items()):
            if k in special_keys:
                continue  # written by the special writers (C03 M2, R1b below)
            for vc in printer.classes_for(S, t, k, node):
                if vc.expect == "RAISE":
                    continue
                for q in ('"', "'"):
                    kind, tmpl = RT.PM.value_template(t, k, vc, q)
                    construct = f"{t}.{k} | {vc.name}"
                    n += 1
                    if kind != "line":
                        ctx.finding("R1", construct, loc, f"the printer does not write a value of class {vc.name} (quote {q}): {tmpl}")
                        continue
                    toks = RT.tokens_of(tmpl, q, vc)
                    if toks == roundtrip.DELEGATED:
                        delegated += 1
                        ctx.ok("R1", construct, loc, f"quote {q}: written verbatim as {tmpl.describe()}; re-parse of the expression text is C10's fixed-point rule", nontrivial=False)
                        continue
                    okk, why, kinds = RT.accepted(t, k, toks)
                    if not okk:
                        ctx.finding("R1", construct, loc, f"quote {q}: {k.upper()} {tmpl.describe()} is printed but not accepted back by the parser: {why}")
                        continue
                    back = RT.reparse_value(k, toks, kinds)
                    same, why = roundtrip.same_value(vc.make(q), back, vc)
                    ctx.check(same, "R1", construct, loc, f"quote {q}: {tmpl.describe()} -> {kinds[2:-2]} -> same value", f"quote {q}: {k.upper()} {tmpl.describe()} is read back differently: {why}")
    ctx.units.update({"cells": n, "delegated_to_C10": delegated, "printer_evaluations": RT.PM.evals, "transformer_paths": RT.X.I.paths_run})

    # ---- R1b special writers ---------------------------------------------------------------------
    ctx.rule("R1b", "the special writers (repeated keys, CONFIG, key/value blocks, PROJECTION, POINTS / PATTERN) print text whose tokens the matching callbacks turn back into the same value", 10)
    from ..absval import SNum, HDict
    from .. import pai as _pai

    X = RT.X
    I = e.interp(allow_fork=False)
    sv = lambda nm: SStr.atom(nm, first=printer.WORD, last=printer.WORD, excludes=frozenset("\"'`"), free=True)

    def body(type_name, items, q):
        return [_pai.as_sstr(x) for x in printer.block_lines(I, lambda: models.printer(I, quote=q, indent=0, end_comment=False), type_name, items)]

    lfmt = repo.loc("pprint", repo.func(models.fmt_qual(repo)))

    def strtok(text, q):
        return X.eval_callback("string", lambda: [models.token("DOUBLE_QUOTED_STRING" if q == '"' else "SINGLE_QUOTED_STRING", text)])[0].value

    def cb(label, children):
        outs = X.eval_callback(label, children)
        if len(outs) != 1 or outs[0].kind != "return":
            raise AnalysisError(f"callback {label} fails on printed text: {[(o.kind, o.exc, o.value) for o in outs]}")
        return outs[0].value

    for q in ('"', "'"):
        # repeated key
        lines = body("layer", [("processing", [sv("v1"), sv("v2")])], q)
        back = []
        for ln in lines:
            val = ln.slice(len("PROCESSING "), None)
            d = cb("attr", lambda val=val: [models.token("UNQUOTED_STRING", "PROCESSING"), strtok(val, q)])
            back.append(d.get("processing"))
        ctx.check(back == [sv("v1"), sv("v2")], "R1b", f"repeated key (quote {q})", lfmt, "values come back in order", f"PROCESSING v1 / v2 comes back as {back}")
        # CONFIG
        d0 = HDict()
        d0["somekey"] = sv("v")
        (ln,) = body("map", [("config", d0)], q)
        head = ln.pieces[0] if ln.pieces and isinstance(ln.pieces[0], str) else ""
        fields = head.split(" ")
        if len(fields) < 3 or fields[0] != "CONFIG":
            raise AnalysisError(f"CONFIG line shape not recognised: {ln!r}")
        keytxt = SStr([fields[1]])
        valtxt = ln.slice(len(fields[0]) + len(fields[1]) + 2, None)
        d = cb("config", lambda: [models.token("CONFIG", "CONFIG"), strtok(keytxt, q), strtok(valtxt, q)])
        ctx.check(dict(d.get("config") or {}) == {"somekey": sv("v")}, "R1b", f"CONFIG (quote {q})", lfmt, "sub-key and value come back", f"CONFIG somekey comes back as {d.get('config')!r} from line {ln!r}")
        # key/value block
        lines = body("layer", [("metadata", printer.kv_dict("metadata", [("akey", sv("v"))]))], q)
        if len(lines) != 3:
            raise AnalysisError(f"METADATA block shape not recognised: {lines!r}")
        ln = lines[1]
        ktxt = SStr([q, "akey", q])
        vtxt = ln.slice(len("akey") + 3, None)
        pair = cb("string_pair", lambda: [strtok(ktxt, q), strtok(vtxt, q)])
        dd = cb("metadata", lambda: [models.token("METADATA", "METADATA"), pair, models.token("_END", "END")])
        got = {k: v for k, v in dd.items() if not (isinstance(k, str) and k.startswith("__"))}
        ctx.check(got == {"akey": sv("v")}, "R1b", f"METADATA entry (quote {q})", lfmt, "key and value come back", f"METADATA akey comes back as {got!r} from line {ln!r}")
        # PROJECTION
        lines = body("layer", [("projection", [sv("p1"), sv("p2")])], q)
        toks = [models.token("PROJECTION", "PROJECTION")] + [strtok(x, q) for x in lines[1:-1]] + [models.token("_END", "END")]
        d = cb("projection", lambda: list(toks))
        ctx.check(d.get("projection") == [sv("p1"), sv("p2")], "R1b", f"PROJECTION (quote {q})", lfmt, "list of strings comes back", f"PROJECTION p1 p2 comes back as {d.get('projection')!r}")
    # POINTS / PATTERN
    for key, owner in (("pattern", "style"), ("points", "feature")):
        pairs = [(SNum.sym("n0", None, None), SNum.sym("n1", None, None)), (SNum.sym("n2", None, None), SNum.sym("n3", None, None))]
        lines = body(owner, [(key, list(pairs))], '"')
        kids = [models.token(key.upper(), key.upper())]
        for ln in lines[1:-1]:
            toks2 = RT.tokens_of(ln, '"', None)
            nums = [cb("int", lambda t=t: [models.token("SIGNED_INT", t[1])]) for t in toks2]
            kids.append(cb("num_pair", lambda nums=nums: list(nums)))
        kids.append(models.token("_END", "END"))
        d = cb(key, lambda: list(kids))
        got = d.get(key)
        ctx.check(isinstance(got, list) and [tuple(p) for p in got] == pairs, "R1b", f"{key.upper()} pairs", lfmt, "pairs come back", f"{key.upper()} {pairs} comes back as {got!r} from lines {lines!r}")

    # several POINTS blocks in one FEATURE (multipart): parsed, printed, and the printed blocks compared with the source blocks
    def points_attr(pairs):
        kids = [models.token("POINTS", "POINTS")]
        for a, b in pairs:
            nums = [cb("int", lambda v=v: [models.token("SIGNED_INT", str(v))]) for v in (a, b)]
            kids.append(cb("num_pair", lambda nums=nums: list(nums)))
        kids.append(models.token("_END", "END"))
        return cb("points", lambda: list(kids))

    _ctr = {"a": 11, "b": 21, "c": 31, "d": 41}
    npair = lambda tag: (_ctr[tag], _ctr[tag] + 1)  # distinct concrete coordinates: the parts must stay told apart
    multipart = {
        "two blocks of two pairs": [[npair("a"), npair("b")], [npair("c"), npair("d")]],
        "one pair, then two pairs": [[npair("a")], [npair("b"), npair("c")]],
        "an empty block, then a pair": [[], [npair("a")]],
        "a pair, then an empty block": [[npair("a")], []],
        "two empty blocks": [[], []],
        "three blocks": [[npair("a")], [npair("b")], [npair("c")]],
        "three empty blocks": [[], [], []],
        "two empty blocks, then a pair": [[], [], [npair("a")]],
    }
    for name, blocks in multipart.items():
        ct = [models.token("FEATURE", SStr.atom("kw", lower_is="feature"))]
        outs = X.eval_callback("composite", lambda blocks=blocks: [ct, [points_attr(b_) for b_ in blocks]])
        if len(outs) != 1 or outs[0].kind != "return":
            ctx.finding("R1b", f"multipart POINTS: {name}", lfmt, f"a FEATURE with the POINTS blocks {blocks} is not transformed: {[(o.kind, o.exc) for o in outs]}")
            continue
        stored = outs[0].value.get("points")
        try:
            lines = body("feature", [("points", stored)], '"')
        except printer.PrinterRaised as ex:
            ctx.finding("R1b", f"multipart POINTS: {name}", lfmt, f"a FEATURE with the POINTS blocks {blocks} loads as points = {stored!r}, which the printer cannot write: {ex}")
            continue
        # regroup the printed lines into blocks
        got: list = []
        for ln in lines:
            t_ = ln.describe()
            if t_ == "POINTS":
                got.append([])
            elif t_ == "END":
                continue
            elif got:
                got[-1].append(t_)
        want = [[f"<str({a})> <str({b})>" for a, b in b_] for b_ in blocks]
        want_alt = [[f"{a} {b}" for a, b in b_] for b_ in blocks]
        shown = [[x for x in g] for g in got]
        same = len(got) == len(blocks) and all(len(g) == len(b_) for g, b_ in zip(got, blocks)) and all(all(str(a) in x and str(b) in x and x.index(str(a)) < x.rindex(str(b)) for x, (a, b) in zip(g, b_)) for g, b_ in zip(got, blocks))
        ctx.check(same, "R1b", f"multipart POINTS: {name}", lfmt, f"{len(got)} block(s) written as read", f"a FEATURE with the POINTS blocks {blocks} loads as points = {stored!r} and is written as the blocks {shown}: the parts are not the ones that were read")

    # ---- R5 history independence ------------------------------------------------------------------
    ctx.rule("R5", "what the printer writes for (type, keyword, value) is the same on a printer that has already written other values as on a new one (values that are equal as text but differ in type, the same value under another keyword or object type)", 20)
    I5 = e.interp(allow_fork=False)
    lp = repo.loc("pprint", repo.func(models.fmt_qual(repo)))

    def written(calls, q):
        pp = models.printer(I5, quote=q, indent=0)
        res = []
        for t, k, v in calls:
            kind, ln = printer.attr_line(I5, pp, t, k, v)
            res.append((kind, ln))
        return res

    sequences = []
    by_key: dict = {}
    for t in S.types():
        if t == "symbolset":
            continue
        for k, node in sorted(S.slots(t).items()):
            if k in special_keys:
                continue
            names = {vc.name: vc for vc in printer.classes_for(S, t, k, node)}
            by_key.setdefault(k, []).append((t, names))
            if "INT" in names and "STR_PLAIN" in names:
                sequences.append((f"{t}.{k}: 2 then '2'", [(t, k, 2), (t, k, "2")]))
                sequences.append((f"{t}.{k}: '2' then 2", [(t, k, "2"), (t, k, 2)]))
            enum = next((n_[5:] for n_ in names if n_.startswith("ENUM:")), None)
            if enum:
                for k2, node2 in sorted(S.slots(t).items()):
                    if k2 != k and k2 not in special_keys and any(vc.name == "STR_PLAIN" for vc in printer.classes_for(S, t, k2, node2)):
                        sequences.append((f"{t}.{k} then {t}.{k2}: {enum!r}", [(t, k, enum), (t, k2, enum)]))
                        sequences.append((f"{t}.{k2} then {t}.{k}: {enum!r}", [(t, k2, enum), (t, k, enum)]))
                        break
    for k, lst in sorted(by_key.items()):
        for (t1, n1) in lst:
            enum = next((n_[5:] for n_ in n1 if n_.startswith("ENUM:")), None)
            if not enum:
                continue
            for (t2, n2) in lst:
                if t2 != t1 and "STR_PLAIN" in n2 and not any(n_.startswith("ENUM:") for n_ in n2):
                    sequences.append((f"{t1}.{k} then {t2}.{k}: {enum!r}", [(t1, k, enum), (t2, k, enum)]))
                    sequences.append((f"{t2}.{k} then {t1}.{k}: {enum!r}", [(t2, k, enum), (t1, k, enum)]))
                    break
    for name, calls in sequences:
        for q in ('"',):
            got = written(calls, q)[-1]
            fresh = written(calls[-1:], q)[0]
            ctx.check(got == fresh, "R5", name, lp, f"{fresh[1]!r}", f"{calls[-1][0]}.{calls[-1][1]} = {calls[-1][2]!r} is written as {got[1]!r} after {calls[0][0]}.{calls[0][1]} = {calls[0][2]!r} was written by the same printer, but as {fresh[1]!r} by a new one: the text (and the value read back) depends on what was printed before")
    ctx.units["history_sequences"] = len(sequences)

    # ---- R4 number formats ------------------------------------------------------------------------
    ctx.rule("R4", "every textual shape Python's str() gives an int or a finite float (plain, signed, decimal, exponent with either sign) is read back by the lexer as exactly one number token of the right kind in a value position", 12)
    st_val, _ = G.state_after([next(iter(["MAP"])), "UNQUOTED_STRING"]) if "MAP" in G.terms else (None, None)
    if st_val is None:
        raise AnalysisError("cannot reach a value position in the LALR automaton")
    acc = G.accepts[st_val]
    shapes = {
        "int": ("SIGNED_INT", ["0", "7", "255", "-1", "1000000"]),
        "decimal float": ("SIGNED_FLOAT", ["0.5", "10.0", "-0.25", "123456.789", "-0.0"]),
        "exponent float, small": ("SIGNED_FLOAT", ["1e-05", "2.5e-05", "-1.5e-07", "1.234e-10"]),
        "exponent float, large": ("SIGNED_FLOAT", ["1e+16", "1.5e+20", "-2e+30", "1e+100"]),
    }
    if ctx.tier == "thorough":
        # what repr() writes over a grid of magnitudes (Python's own float formatting, no repository code involved)
        grid = sorted({repr(sign * m * 10.0**ex) for sign in (1, -1) for m in (1.0, 1.5, 2.25, 9.99, 1.234567, 7.0) for ex in range(-24, 25)})
        shapes["repr() grid, decimal"] = ("SIGNED_FLOAT", [g for g in grid if "e" not in g])
        shapes["repr() grid, exponent"] = ("SIGNED_FLOAT", [g for g in grid if "e" in g])
        shapes["int grid"] = ("SIGNED_INT", sorted({str(sign * d * 10**ex) for sign in (1, -1) for d in (1, 7, 12, 255) for ex in range(0, 19)}))
    for name, (kind, texts) in shapes.items():
        for txt in texts:
            got = G.lex_kind(txt, acc)
            ctx.check(got == kind, "R4", f"{name}: {txt}", "mappyfile/mapfile.lark", f"{kind}", f"the number text {txt!r} (what str() writes for such a value) is read back as {got or 'several tokens / no token'} instead of one {kind}: the value does not survive a print / parse cycle")

    # quoted text: whatever stands between the quotes, the printer's Q...Q is one string token
    ctx.rule("R4b", "a printed quoted string is read back as one string token whatever its body contains (spaces, #, comment markers, brackets, the other quote, an escaped quote, nothing); hex colour bodies as one hex colour token", 30)
    for q, kind, hexkind in (('"', "DOUBLE_QUOTED_STRING", "DOUBLE_QUOTED_HEXCOLOR"), ("'", "SINGLE_QUOTED_STRING", "SINGLE_QUOTED_HEXCOLOR")):
        other = "'" if q == '"' else '"'
        bodies = ["abc", "a b", " a ", "a#b", "# not a comment", "a /* b */ c", "[x]", "(x = 1)", "/x/", "{a,b}", "x" + other + "y", "a\\" + q + "b", "", "END", "7", "1.5", "a\tb", "\u00fc\u00f1\u00ef"]
        for body in bodies:
            txt = q + body + q
            got = G.lex_kind(txt, acc)
            ctx.check(got == kind, "R4b", f"{kind}: body {body!r}", "mappyfile/mapfile.lark", kind, f"the quoted text {txt!r} is read back as {got or 'several tokens / no token'} instead of one {kind}")
        for body in ["#fff", "#FF0000", "#ff000080", "#abcd"]:
            txt = q + body + q
            got = G.lex_kind(txt, acc)
            want = hexkind if len(body) - 1 in (3, 5, 6, 8) else kind
            ctx.check(got == want, "R4b", f"{hexkind}: body {body!r}", "mappyfile/mapfile.lark", want, f"the quoted colour {txt!r} is read back as {got or 'several tokens'} instead of {want}")

    # ---- R2 structure -------------------------------------------------------------------------------
    ctx.rule("R2", "the printer visits keys in dictionary order and recurses on the keys composite() uses for child objects", 2)
    L = layout.Layout(e)
    outs = L.format_lines(lambda: L.layer(), lambda: L.sym_options(end_comment=False, indent=0), level=0, fork=False)
    if len(outs) != 1 or outs[0][1] != "return":
        raise AnalysisError(f"_format not evaluable on the representative LAYER: {outs}")
    lines = outs[0][2]
    heads = []
    for ln in lines:
        s = ln if isinstance(ln, str) else (ln.pieces[0] if isinstance(ln.pieces[0], str) else "")
        heads.append(s.strip().split(" ")[0] if s.strip() else "?")
    want = ["LAYER", "NAME", "TYPE", "PROCESSING", "PROCESSING", "PROJECTION", '"', "END", "METADATA", '"akey"', "END", "CLASS", "NAME", "END", "END"]
    ctx.check(heads == want, "R2", "representative LAYER: order of emitted lines", repo.loc("pprint", repo.func(models.fmt_qual(repo))), " ".join(heads), f"a LAYER with keys name,type,processing,projection,metadata,classes is printed in the order {heads}, expected {want}")
    # child keys: composite() stores under k / plural(k); _format recurses via is_hidden_container / is_composite
    olk = repo.const("tokens", "OBJECT_LIST_KEYS")
    ok, msg = models.check_plural(e)
    ctx.check(ok, "R2", "plural() / OBJECT_LIST_KEYS agreement (see C19 V3)", repo.loc("transformer", repo.func("transformer.MapfileTransformer.plural")), msg, msg)

    # ---- R3 no reordering constructs ------------------------------------------------------------------
    ctx.rule("R3", "no sorted(), reversed(), set iteration or dict reordering on the load and print paths", 20)
    facts = e.facts
    roots = ["utils.loads", "utils.dumps", "transformer.MapfileToDict.transform", "pprint.PrettyPrinter.pprint"]
    reach = facts.reachable(roots)
    for q in sorted(reach):
        fn = repo.func(q)
        bad = []
        bad_nodes = []
        for c in calls_in(fn):
            d = dotted(c.func) or ""
            if d in ("sorted", "reversed") or d.endswith((".sort", ".reverse")):
                # tabled: the comment pass sorts comment line numbers, not dictionary content
                if q.startswith("parser.") and "comments_dict" in norm(c):
                    continue
                bad.append(norm(c)[:60])
                bad_nodes.append(c)
            if d.endswith(".move_to_end"):
                bad.append(norm(c)[:60])
                bad_nodes.append(c)
        for n2 in ast.walk(fn):
            if isinstance(n2, (ast.For, ast.comprehension)):
                it = n2.iter
                if isinstance(it, ast.Call) and dotted(it.func) in ("set", "frozenset"):
                    bad.append("iteration over " + norm(it)[:40])
                    bad_nodes.append(n2)
                if isinstance(it, ast.Name) and it.id in ("SINGLETON_COMPOSITE_NAMES", "COMPOSITE_NAMES", "OBJECT_LIST_KEYS", "COMPLEX_TYPES", "SYMBOL_ATTRIBUTES"):
                    bad.append("iteration over the set " + it.id)
                    bad_nodes.append(n2)
        from ..pyfacts import unordered_iterations

        bad += unordered_iterations(repo, q, fn)
        if bad and (_only_under_option(fn, "separate_complex_types") or (len(bad_nodes) == len(bad) and _all_under_option(fn, bad_nodes, "separate_complex_types"))):
            ctx.ok("R3", q, repo.loc(q.split(".")[0], fn), f"{bad} only runs when separate_complex_types is set, which dumps() leaves off by default (order under that option: C04 N4 / C06 O3)", nontrivial=False)
            continue
        if q == "dictutils.dict_move_to_end":
            ctx.ok("R3", q, repo.loc(q.split(".")[0], fn), "tabled: only reached under separate_complex_types (C06)", nontrivial=False)
            continue
        ctx.check(not bad, "R3", q, repo.loc(q.split(".")[0], fn), "order-preserving", f"{q} reorders or iterates unordered data: {bad}")
