"""C13 - position and comment bookkeeping is transparent."""

from __future__ import annotations

import ast

from .. import models, pai, xform, layout
from ..absval import SStr, SNum, SObj, HDict, Atom
from ..core import AnalysisError, Ctx, norm, fold
from ..pyfacts import dotted, calls_in, guards_at

META = {
    "explanation": "(B1) the abstract transformer of C02 is run under the four combinations of include_position x include_comments: for every callback and every child-class sequence the grammar admits, the result with hidden __keys__ removed must be identical to the plain result. (B2) composite() is evaluated on attribute dictionaries that carry __position__, __tokens__ and __comments__: they are removed before the keyword is read, positions / comments end up only under the hidden keys, nothing hidden other than __type__/__position__/__comments__ survives. (B3) the three CommentsTransformer callbacks are evaluated with the main transformer stubbed to return a known dictionary: they return that dictionary with stores under __comments__ only. (B4) Parser.__init__ is evaluated with lark's entry point replaced by a recorder, with and without include_comments: the second request differs from the first by exactly propagate_positions and lexer callbacks, the callbacks are bound list.append on the comment buffer and are registered only for terminals the grammar ignores (so no token is altered or dropped); _assign_comments only attaches meta.comments. (B5) printing a dictionary that carries __position__ and __comments__ gives, comment pieces apart, exactly the lines of the plain dictionary - under six option sets (defaults, align_values with three indents, end_comment, separate_complex_types) and for two key orders (keywords before / between and after nested blocks). (B7) Parser.parse, evaluated with a recording stand-in for lark on text of unknown content holding CR LF and U+2028 line breaks, hands the lexer the same text with and without include_comments.",
    "level_text": "Transparency is decided per callback over the whole shape language of the grammar (not per document) and per printer category; together with C03's hidden-key rule this covers every node kind the comment pass touches.",
    "level_note": "Trusted: lark's propagate_positions leaves the tree shape unchanged; lexer callbacks on ignored terminals cannot alter the token stream.",
    "technique": "differential abstract interpretation of the transformer under the four flag settings + evaluation of the comment transformer / printer with recognisable markers",
}

HIDDEN_OK = {"__type__", "__position__", "__comments__"}


def strip_hidden(v):
    if isinstance(v, dict):
        return ("d", tuple((str(k) if not isinstance(k, SStr) else k.describe(), strip_hidden(x)) for k, x in v.items() if not (isinstance(k, str) and k.startswith("__") and k.endswith("__") and k != "__type__")))
    if isinstance(v, (list, tuple)):
        return ("l" if isinstance(v, list) else "t", tuple(strip_hidden(x) for x in v))
    if isinstance(v, SObj):
        val = v.attrs.get("value")
        return ("tok", v.attrs.get("type"), strip_hidden(val))
    if isinstance(v, SStr):
        return ("s", v.describe())
    return ("v", repr(v))


def hidden_keys(v, acc=None):
    acc = acc if acc is not None else set()
    if isinstance(v, dict):
        for k, x in v.items():
            if isinstance(k, str) and k.startswith("__") and k.endswith("__"):
                acc.add(k)
                if k in ("__position__", "__comments__", "__tokens__"):
                    continue
            hidden_keys(x, acc)
    elif isinstance(v, (list, tuple)):
        for x in v:
            hidden_keys(x, acc)
    return acc


def run(ctx: Ctx) -> None:
    e = models.env(ctx)
    repo, G = ctx.repo, e.G
    ctx.trusted += ["lark propagate_positions does not change tree shape", "lexer callbacks on %ignore'd terminals do not alter the token stream"]

    # ---- B1 ------------------------------------------------------------------------------------------
    ctx.rule("B1", "for every callback and child-class sequence, the result under include_position / include_comments equals the plain result once hidden keys are removed", 1000)
    runs = {}
    for pos in (False, True):
        for com in (False, True):
            X = xform.AbstractTransformer(e, include_position=pos, include_comments=com, deep=ctx.tier == "thorough")
            X.run()
            runs[(pos, com)] = X
    base = runs[(False, False)].all_evals
    total = 0
    others = {flags: X.all_evals for flags, X in runs.items() if flags != (False, False)}
    for flags, evs in others.items():
        if len(evs) != len(base):
            ctx.finding("B1", f"flags position={flags[0]} comments={flags[1]}: number of evaluations", "mappyfile/transformer.py", f"{len(evs)} callback evaluations vs {len(base)} in the plain run: the flags change which paths the callbacks take")
    comparable = {f: evs for f, evs in others.items() if len(evs) == len(base)}
    seen_keys = set()
    for i, a in enumerate(base):
        diffs = []
        for flags, evs in comparable.items():
            b = evs[i]
            total += 1
            same = a.label == b.label and a.children_classes == b.children_classes and a.kind == b.kind and (a.kind != "return" or strip_hidden(a.value) == strip_hidden(b.value)) and a.exc == b.exc
            if not same:
                diffs.append((flags, b))
        key = f"{a.label} | {' '.join(a.children_classes)[:100]}"
        if key in seen_keys:
            key += f" #{i}"
        seen_keys.add(key)
        loc = repo.loc("transformer", repo.func(f"transformer.MapfileTransformer.{a.label}"))
        if diffs:
            flags, b = diffs[0]
            ctx.finding("B1", f"{a.label} | {' '.join(a.children_classes)[:80]} | position={flags[0]} comments={flags[1]}", loc, f"with the flags on the callback yields {b.cls} {strip_hidden(b.value) if b.kind == 'return' else b.exc} instead of {a.cls} {strip_hidden(a.value) if a.kind == 'return' else a.exc}")
        else:
            ctx.ok("B1", key, loc, f"same visible result under the {len(comparable) + 1} flag settings")
    ctx.units["callback_results_compared"] = total
    # hidden keys present are only the three documented ones
    for flags, X in runs.items():
        bad = set()
        for r in X.all_evals:
            if r.kind == "return" and r.label in ("composite", "start", "metadata", "validation", "values", "connectionoptions"):
                bad |= hidden_keys(r.value) - HIDDEN_OK
        ctx.check(not bad, "B1", f"flags {flags}: hidden keys in block results", "mappyfile/transformer.py", "only __type__/__position__/__comments__", f"block dictionaries carry unexpected hidden keys {sorted(bad)}")
        # a bookkeeping key is present only when its own flag is on
        off = ({"__position__"} if not flags[0] else set()) | ({"__comments__"} if not flags[1] else set())
        leaked = {}
        for r in X.all_evals:
            if r.kind == "return" and r.label in ("composite", "start", "metadata", "validation", "values", "connectionoptions"):
                got = hidden_keys(r.value) & off
                if got:
                    leaked.setdefault(r.label, set()).update(got)
        ctx.check(not leaked, "B1", f"flags {flags}: bookkeeping keys only when asked for", "mappyfile/transformer.py", f"none of {sorted(off)} present", f"with include_position={flags[0]} include_comments={flags[1]} the block results of {sorted(leaked)} still carry {sorted(set().union(*leaked.values())) if leaked else []}: a plain load is not plain")

    # ---- B2 ------------------------------------------------------------------------------------------
    ctx.rule("B2", "composite() removes __position__/__tokens__/__comments__ from attribute dictionaries before reading the keyword and hoists them only under the hidden keys", 3)
    X = runs[(True, True)]

    def attr_with_comment(word):
        kt = models.token("UNQUOTED_STRING", SStr.atom("kw", lower_is=word))
        vt = X.fresh_token("DOUBLE_QUOTED_STRING")
        outs = X.eval_callback("attr", lambda: [kt, X.eval_callback("string", lambda: [vt])[0].value])
        d = outs[0].value
        d["__comments__"] = [SStr(["# ", Atom(f"COMMENT_{word}", excludes=frozenset("\n"))])]
        return d

    a1, a2 = attr_with_comment("name"), attr_with_comment("group")
    ct = [models.token("LAYER", SStr.atom("kw", lower_is="layer"))]
    outs = X.eval_callback("composite", lambda: [ct, [a1, a2]])
    if len(outs) != 1 or outs[0].kind != "return":
        ctx.finding("B2", "composite with bookkept attributes", repo.loc("transformer", repo.func("transformer.MapfileTransformer.composite")), f"fails: {[(o.kind, o.exc, o.value) for o in outs]}")
    else:
        lyr = outs[0].value
        vis = [k for k in lyr.keys() if not (isinstance(k, str) and k.startswith("__"))]
        ctx.check(vis == ["name", "group"] and not (hidden_keys(lyr) - HIDDEN_OK), "B2", "visible keys are the keywords only", repo.loc("transformer", repo.func("transformer.MapfileTransformer.composite")), str(list(lyr.keys())), f"LAYER keys are {list(lyr.keys())}")
        com = lyr.get("__comments__", {})
        ctx.check(isinstance(com, dict) and set(com.keys()) == {"name", "group"} and com["name"] == a1_comment(a1, "name") and com["group"] == a1_comment(a2, "group"), "B2", "attribute comments hoisted under their own keys", repo.loc("transformer", repo.func("transformer.MapfileTransformer.composite")), "", f"__comments__ = {com!r}")
        ctx.check(all(not isinstance(v, dict) or "__tokens__" not in v for v in lyr.values()), "B2", "__tokens__ dropped", repo.loc("transformer", repo.func("transformer.MapfileTransformer.composite")), "", "token lists survive in the result")

    # a keyword given twice keeps its last value under every flag setting
    for flags, XX in runs.items():
        def dup(word, nm):
            kt = models.token("UNQUOTED_STRING", SStr.atom("kw", lower_is=word))
            vt = models.token("DOUBLE_QUOTED_STRING", SStr(['"', Atom(nm, free=True), '"']))
            return XX.eval_callback("attr", lambda: [kt, XX.eval_callback("string", lambda: [vt])[0].value])[0].value

        d1, d2 = dup("name", "first"), dup("name", "second")
        outs = XX.eval_callback("composite", lambda: [[models.token("LAYER", SStr.atom("kw", lower_is="layer"))], [d1, d2]])
        v = outs[0].value.get("name") if outs and outs[0].kind == "return" else None
        ctx.check(v == SStr([Atom("second", free=True)]), "B2", f"duplicate keyword keeps its last value, flags {flags}", repo.loc("transformer", repo.func("transformer.MapfileTransformer.composite")), "", f"NAME given twice yields {v!r} with position={flags[0]} comments={flags[1]}")

    # ---- B7 the text that reaches the lexer ---------------------------------------------------------------
    ctx.rule("B7", "Parser.parse hands the lexer the same text with and without include_comments (evaluated with a recording stand-in for lark, on text of unknown content holding \\r\\n and U+2028 line breaks): quoted values that span lines, and every position, are the same with and without the bookkeeping", 2)
    lp = repo.loc("parser", repo.func("parser.Parser.parse"))
    seen_text = {}
    for ic in (False, True):
        rec7: dict = {}

        def hook7(fr, recv, name, args, kwargs, node, rec7=rec7):
            if isinstance(recv, SObj) and recv.pytype == "Lark" and name == "parse_interactive":
                rec7["text"] = args[0]
                return recv.attrs["_ip"]
            if isinstance(recv, SObj) and recv.pytype == "InteractiveParser":
                if name == "iter_parse":
                    return []
                if name == "resume_parse":
                    return SObj("Tree", {"data": "start", "children": []})
            return NotImplemented

        I7 = e.interp(stubs={"hook:method": hook7, "parser.Parser._assign_comments": lambda I_, so, a, k: None}, allow_fork=False)
        text7 = SStr([Atom("head", free=True), "\r\n", Atom("value with any character", free=True), "\u2028", Atom("tail", free=True), "\n"])
        outs = I7.explore("parser.Parser.parse", lambda ic=ic: (models.new_parser(I7, expand_includes=False, include_comments=ic), [text7], {}))
        if len(outs) != 1 or outs[0].kind != "return" or "text" not in rec7:
            raise AnalysisError(f"Parser.parse not evaluable with the recording lark stand-in (include_comments={ic}): {[(o.kind, o.exc) for o in outs]}")
        seen_text[ic] = rec7["text"]
    ctx.check(seen_text[True] == seen_text[False], "B7", "text handed to the lexer with and without include_comments", lp, "the same text", f"for the text {text7!r} the lexer receives {seen_text[True]!r} with include_comments and {seen_text[False]!r} without: values that span lines (and everything after them) are read differently when comments are kept")
    ctx.ok("B7", "Parser.parse evaluated in both modes", lp, "recording stand-in for lark")

    # ---- B6 composed: what the transformer builds under the flags, printed ---------------------------------
    ctx.rule("B6", "a LAYER built by composite() under include_comments / include_position from attributes of which only some carry comments (a keyword, a repeated keyword given three times) prints, comment pieces apart, the lines of the plain LAYER", 3)
    from .. import printer as _pr

    def build_layer(XX, commented: set):
        def a_(word, nm):
            kt = models.token("UNQUOTED_STRING", SStr.atom("kw", lower_is=word))
            vt = models.token("DOUBLE_QUOTED_STRING", SStr(['"', Atom(nm, free=True, first=_pr.WORD, last=_pr.WORD, excludes=frozenset("\"'`")), '"']))
            d = XX.eval_callback("attr", lambda: [kt, XX.eval_callback("string", lambda: [vt])[0].value])[0].value
            if nm in commented:
                d["__comments__"] = [SStr(["# ", Atom(f"COMMENT_{nm}", excludes=frozenset("\n"))])]
            return d

        body = [a_("name", "n"), a_("processing", "p1"), a_("processing", "p2"), a_("processing", "p3"), a_("group", "g")]
        outs = XX.eval_callback("composite", lambda: [[models.token("LAYER", SStr.atom("kw", lower_is="layer"))], body])
        if len(outs) != 1 or outs[0].kind != "return":
            raise AnalysisError(f"composite not evaluable: {[(o.kind, o.exc) for o in outs]}")
        return outs[0].value

    def printed(d):
        Ip = e.interp(allow_fork=False)
        outs = Ip.explore(models.fmt_qual(repo), lambda: (models.printer(Ip, quote='"', indent=2, end_comment=False), [d], models.fmt_level_kw(repo, 0)))
        if len(outs) != 1 or outs[0].kind != "return":
            return f"raises {outs[0].exc}"
        out_ = []
        for ln in outs[0].value:
            t_ = pai.as_sstr(ln).describe()
            if "# <COMMENT" in t_:
                t_ = t_[: t_.index("# <COMMENT")].rstrip()
            if t_.strip():
                out_.append(t_)
        return out_

    plain_lines = printed(build_layer(runs[(False, False)], set()))
    for commented in ({"p1"}, {"p2"}, {"n", "p3"}):
        for flags in ((False, True), (True, True)):
            got = printed(build_layer(runs[flags], commented))
            ctx.check(got == plain_lines, "B6", f"comments on {sorted(commented)}, position={flags[0]} comments={flags[1]}", repo.loc("pprint", repo.func(models.fmt_qual(repo))), f"{len(plain_lines)} lines", f"a LAYER (NAME, PROCESSING x3, GROUP) whose attributes {sorted(commented)} carry comments prints {got}, the plain LAYER prints {plain_lines}: keeping comments changes what is written")

    # ---- B3 ------------------------------------------------------------------------------------------
    ctx.rule("B3", "CommentsTransformer callbacks return the main transformer's result with stores under __comments__ only", 4)
    _comments_transformer(ctx, e)

    # ---- B4 ------------------------------------------------------------------------------------------
    ctx.rule("B4", "include_comments adds exactly propagate_positions and append-callbacks for ignored terminals; _assign_comments only attaches meta.comments", 4)
    fn = repo.func("parser.Parser._create_lalr_parser")
    # the constructor is evaluated with lark's entry point replaced by a recorder: what it is asked for
    # with and without include_comments
    asked: dict = {}

    def mk_stub(flag):
        def lark_open(fr, self_obj, args, kwargs):
            asked.setdefault(flag, []).append((list(args), dict(kwargs)))
            return SObj("Lark", {})

        return lark_open

    insts = {}
    for flag in (False, True):
        Ib = e.interp(stubs={"ext:lark.Lark": pai.ModRef("ext:lark.Lark"), "ext:lark.Lark.open": mk_stub(flag), "global:parser.lark_cython": None}, allow_fork=False)
        insts[flag] = pai.Inst("parser.Parser")
        outs = Ib.explore("parser.Parser.__init__", lambda flag=flag: (insts[flag], [], {"include_comments": flag}))
        if len(outs) != 1 or outs[0].kind != "return" or len(asked.get(flag, [])) != 1:
            raise AnalysisError(f"Parser.__init__(include_comments={flag}) not evaluable: {[(o.kind, o.exc) for o in outs]}, {len(asked.get(flag, []))} Lark.open call(s)")
    (a0, k0), (a1, k1) = asked[False][0], asked[True][0]
    added = {k: v for k, v in k1.items() if k not in k0 or k0[k] != v}
    same_rest = a0 == a1 and all(k1.get(k) == v for k, v in k0.items())
    ctx.check(same_rest and set(added) == {"propagate_positions", "lexer_callbacks"} and added.get("propagate_positions") is True, "B4", "parser options under include_comments", repo.loc("parser", fn), str(sorted(added)), f"with include_comments lark is asked for {sorted(added)} in addition (other arguments unchanged: {same_rest}): anything beyond position propagation and lexer callbacks can change the tree")
    cbs = added.get("lexer_callbacks") if isinstance(added.get("lexer_callbacks"), dict) else {}
    cb_terms = list(cbs.keys())
    ctx.check(bool(cb_terms) and all(t in G.ignore for t in cb_terms), "B4", "lexer callbacks only on ignored terminals", repo.loc("parser", fn), str(cb_terms), f"lexer callbacks registered for {cb_terms}; {[t for t in cb_terms if t not in G.ignore]} are not ignored terminals: their tokens would be replaced by the callback's return value")
    buf = insts[True].attrs.get("_comments")
    appenders = all(isinstance(v, pai.FuncRef) and v.builtin == "method:append" and v.self_obj is buf for v in cbs.values())
    ctx.check(bool(cbs) and appenders and isinstance(buf, list), "B4", "callbacks append to the comment buffer", repo.loc("parser", fn), "bound append of self._comments", f"callbacks are {list(cbs.values())}")
    ac = repo.func("parser.Parser._assign_comments")
    stores = [n for n in ast.walk(ac) if isinstance(n, (ast.Assign, ast.AugAssign)) for t in (n.targets if isinstance(n, ast.Assign) else [n.target]) if isinstance(t, (ast.Attribute, ast.Subscript))]
    bad = [norm(s) for s in stores if not norm(s).startswith("node.meta.comments")]
    muts = [norm(c) for c in calls_in(ac) if isinstance(c.func, ast.Attribute) and c.func.attr in ("append", "insert", "pop", "remove", "clear") and "children" in norm(c.func.value)]
    ctx.check(not bad and not muts, "B4", "_assign_comments only attaches meta.comments", repo.loc("parser", ac), "", f"_assign_comments also writes {bad + muts}")

    # ---- B5 ------------------------------------------------------------------------------------------
    ctx.rule("B5", "a dictionary with __position__ and __comments__ prints, comment pieces apart, exactly what the plain dictionary prints", 2)
    L = layout.Layout(e)
    def no_comment(lines):
        out = []
        for ln in lines:
            s = pai.as_sstr(ln)
            pieces = []
            for p in s.pieces:
                if isinstance(p, Atom) and p.name.startswith("COMMENT"):
                    # drop the comment piece and the literal '# ' / ' # ' introducing it
                    if pieces and isinstance(pieces[-1], str):
                        pieces[-1] = pieces[-1].rstrip("# ").rstrip()
                    continue
                pieces.append(p)
            t = SStr(pieces)
            if t.pieces and not (len(t.pieces) == 1 and isinstance(t.pieces[0], str) and not t.pieces[0].strip()):
                out.append(t.describe())
        return out

    settings = {
        "defaults, indent 2": dict(end_comment=False, indent=2, spacer=" ", newlinechar="\n"),
        "align_values, indent 2": dict(end_comment=False, indent=2, spacer=" ", newlinechar="\n", align_values=True),
        "align_values, indent 3": dict(end_comment=False, indent=3, spacer=" ", newlinechar="\n", align_values=True),
        "align_values, indent 4": dict(end_comment=False, indent=4, spacer=" ", newlinechar="\n", align_values=True),
        "end_comment, indent 4": dict(end_comment=True, indent=4, spacer=" ", newlinechar="\n"),
        "align_values + separate_complex_types": dict(end_comment=False, indent=4, spacer=" ", newlinechar="\n", align_values=True, separate_complex_types=True),
    }
    for sname, opts, rep in [(sn, o, r) for sn, o in settings.items() for r in ("layer", "layer_mixed")]:
        mkrep = getattr(L, rep)
        sname = f"{sname} | {rep}"
        plain = L.format_lines(lambda: mkrep(), lambda opts=opts: L.sym_options(**opts), level=0, fork=False)
        booked = L.format_lines(lambda: mkrep(hidden=True, comments=True), lambda opts=opts: L.sym_options(**opts), level=0, fork=False)
        if plain[0][1] != "return" or booked[0][1] != "return":
            raise AnalysisError(f"_format not evaluable on the representative LAYER under {sname}")
        a, b = no_comment(plain[0][2]), no_comment(booked[0][2])
        diff = next(((x, y) for x, y in zip(a, b) if x != y), None)
        ctx.check(a == b, "B5", f"representative LAYER with and without bookkeeping | {sname}", repo.loc("pprint", repo.func(models.fmt_qual(repo))), f"{len(a)} lines", f"under {sname} the lines differ: plain {diff[0] if diff else a!r} vs with bookkeeping {diff[1] if diff else b!r}")
        leaked = sorted({x.name for x in layout.atoms_in(booked[0][2]) if x.name.startswith("HIDDEN")})
        ctx.check(not leaked, "B5", f"__position__ data never printed | {sname}", repo.loc("pprint", repo.func(models.fmt_qual(repo))), "", f"position data reaches the output: {leaked}")


def a1_comment(d, word):
    return [SStr(["# ", Atom(f"COMMENT_{word}", excludes=frozenset("\n"))])]


def _comments_transformer(ctx: Ctx, e) -> None:
    repo = ctx.repo
    holder = {}

    def main_transform(fr, self_obj, args, kwargs):
        tree = args[0]
        res = tree.attrs["_main_result"]()
        holder["main"] = res
        holder["snap"] = strip_hidden(res)
        return res

    I = e.interp(stubs={"ext:Transformer.transform": main_transform}, allow_fork=True, max_paths=16)

    def meta(comments):
        a = {"line": 3, "end_line": 3}
        if comments is not None:
            a["comments"] = comments
        return SObj("Meta", a)

    def ct():
        # through the real constructor, so that the attribute holding the main transformer may be renamed
        return I.instantiate("transformer.CommentsTransformer", [I.instantiate("transformer.MapfileTransformer", [], {"include_comments": True})], {})

    C1 = SStr(["# ", Atom("COMMENT_a", excludes=frozenset("\n"))])
    cases = [
        ("attr", "attr", lambda: HDict({"__position__": HDict(), "__tokens__": [], "name": SStr.atom("v")}), [C1], lambda d: d.get("__comments__") == [C1]),
        ("attr without comment", "attr", lambda: HDict({"__position__": HDict(), "name": SStr.atom("v")}), None, lambda d: d.get("__comments__") == []),
        ("projection", "projection", lambda: HDict({"__position__": HDict(), "projection": [SStr.atom("p"), SStr.atom("p2")]}), [C1], lambda d: d.get("__comments__") == [C1]),
        ("composite", "composite", lambda: layout.cdict([("__type__", "layer"), ("__comments__", HDict({"name": [C1]})), ("name", SStr.atom("v"))]), [C1], lambda d: d.get("__comments__", {}).get("__type__") == [C1] and d["__comments__"].get("name") == [C1]),
        ("key/value block without comments dict", "composite", lambda: layout.cdict([("__type__", "validation"), ("akey", SStr.atom("v"))]), [C1], lambda d: d.get("__comments__", {}).get("__type__") == [C1]),
    ]
    for name, meth, mk_main, comments, expect in cases:
        tree = SObj("Tree", {"data": name.split(" ")[0], "children": [], "meta": meta(comments), "_main_result": mk_main})
        q = f"transformer.CommentsTransformer.{meth}"
        outs = I.explore(q, lambda tree=tree: (ct(), [tree], {}))
        for o in outs:
            if o.kind != "return":
                ctx.finding("B3", f"{name}", repo.loc("transformer", repo.func(q)), f"raises {o.exc}{o.value}")
                continue
            d = o.value
            same_obj = d is holder.get("main")
            vis_same = strip_hidden(d) == holder.get("snap")
            ctx.check(same_obj and vis_same and expect(d), "B3", f"{name}", repo.loc("transformer", repo.func(q)), "main result + __comments__ only", f"callback returns {'another object' if not same_obj else 'the main result'}; visible content unchanged: {vis_same}; comments stored as expected: {expect(d)} ({d.get('__comments__')!r})")
