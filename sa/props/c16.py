"""C16 - pretty-printer layout contract."""

from __future__ import annotations

from fractions import Fraction

from .. import models, layout, pai
from .. import absval as av
from ..absval import SStr, SNum, SBool, HDict, Atom, Rep
from ..core import AnalysisError, Ctx

META = {
    "explanation": "Line templates: PrettyPrinter._format is evaluated by PAI on representative dictionaries (one entry per category of key: simple keyword, enumerated keyword, repeated keyword, PROJECTION, key/value block, CONFIG, PATTERN, POINTS, singleton child, list of children) with symbolic level, indent, spacer and newlinechar and both values of end_comment. Every emitted line must be spacer^(indent*(level+k)) followed by its content, with k = 0 for an object opener and its END, 1 for keyword lines and for the opener/END of inner blocks, 2 for their content, children one level deeper (Y1); openers and ENDs pair up at equal indentation (Y2); END carries ' # TYPE' exactly when end_comment is set (Y3); no emitted piece contains a line break and pprint joins the lines with newlinechar only (Y4); the alignment column computed by compute_aligned_max_indent is the first multiple of max(1, indent) strictly past the longest counted key - the arithmetic expression is evaluated over the grid key length 0..48 x indent 0..9 - and all padded lines of one object start their value in that column, the counted keys being exactly the padded ones (Y5). Finding expected on the pinned tree: a key/value block printed at the root is indented by one level.",
    "level_text": "Layout is a function of (category of key, level, options); the categories are finite and level/indent/spacer are treated symbolically (polynomial repetition counts), so each template holds at every depth and for every option value. Documents only instantiate the templates.",
    "level_note": "Trusted: str.format / f-string concatenation semantics as modelled by PAI. Multi-line string values are excepted by the property. The alignment arithmetic is compared with its specification on a bounded grid, not proved for all integers.",
    "technique": "abstract interpretation of the block writers with symbolic indentation polynomials; bounded-grid comparison of the alignment arithmetic",
}


def split_line(line) -> tuple:
    """(coefficient of indent*level, coefficient of indent, content)"""
    s = pai.as_sstr(line)
    if s.pieces and isinstance(s.pieces[0], Rep):
        r = s.pieces[0]
        cnt = r.count if isinstance(r.count, SNum) else SNum.const(r.count)
        base = SStr(r.base)
        terms = dict(cnt.terms)
        a = terms.pop(("indent", "level"), Fraction(0))
        b = terms.pop(("indent",), Fraction(0))
        if terms or base != SStr.atom("spacer", excludes=frozenset("\n")):
            return None, None, s
        return int(a), int(b), SStr(s.pieces[1:])
    return 0, 0, s


def head_of(content: SStr) -> str:
    p = content.pieces
    if p and isinstance(p[0], str):
        h = p[0].split(" ")[0]
        return h if h.isalpha() and h.isupper() else "<value>"
    return "<value>"


def run(ctx: Ctx) -> None:
    e = models.env(ctx)
    repo = ctx.repo
    L = layout.Layout(e)
    ctx.trusted += ["f-string / str.format concatenation as modelled"]
    locf = repo.loc("pprint", repo.func(models.fmt_qual(repo)))
    W = layout.word
    cd = layout.cdict

    def num(n):
        return SNum.sym(n, None, None)

    dicts = {
        "layer": (lambda: L.layer(), ["LAYER:0", "NAME:1", "TYPE:1", "PROCESSING:1", "PROCESSING:1", "PROJECTION:1", "<value>:2", "END:1", "METADATA:1", "<value>:2", "END:1", "CLASS:1", "NAME:2", "END:1", "END:0"]),
        "style with PATTERN": (lambda: cd([("__type__", "style"), ("width", num("w")), ("pattern", [(num("a"), num("b")), (num("c"), num("d"))])]), ["STYLE:0", "WIDTH:1", "PATTERN:1", "<value>:2", "<value>:2", "END:1", "END:0"]),
        "feature with POINTS": (lambda: cd([("__type__", "feature"), ("points", [(num("a"), num("b"))])]), ["FEATURE:0", "POINTS:1", "<value>:2", "END:1", "END:0"]),
        "map with CONFIG and WEB": (lambda: cd([("__type__", "map"), ("config", cd([("akey", W("cfg"))])), ("web", cd([("__type__", "web"), ("template", W("tmpl"))]))]), ["MAP:0", "CONFIG:1", "WEB:1", "TEMPLATE:2", "END:1", "END:0"]),
        "class with VALIDATION": (lambda: cd([("__type__", "class"), ("validation", cd([("__type__", "validation"), ("akey", W("v"))]))]), ["CLASS:0", "VALIDATION:1", "<value>:2", "END:1", "END:0"]),
    }

    ctx.rule("Y1", "every line is spacer^(indent*(level+k)) + content with k as the contract prescribes, for symbolic level / indent / spacer", 10)
    ctx.rule("Y2", "block openers and ENDs pair up at the same indentation", 5)
    ctx.rule("Y3", "END is followed by ' # TYPE' exactly when end_comment is set", 5)
    ctx.rule("Y4", "no emitted piece contains a line break; pprint joins lines with newlinechar only", 10)
    n_lines = 0
    for name, (mk, want) in dicts.items():
        outs = []
        for ec in (True, False):
            r = L.format_lines(mk, lambda ec=ec: L.sym_options(end_comment=ec), fork=False)
            if len(r) != 1:
                raise AnalysisError(f"_format gives {len(r)} outcomes for {name}")
            outs.append((["end_comment"] if ec else [], r[0][1], r[0][2]))
        for ass, kind, lines in outs:
            tag = "end_comment" if any(a == "end_comment" for a in ass) else "no end_comment"
            if kind != "return":
                ctx.finding("Y1", f"{name} [{tag}]", locf, f"_format raises {lines}")
                continue
            got = []
            stack = []
            pair_ok = True
            breaks = 0
            for ln in lines:
                n_lines += 1
                a, b, content = split_line(ln)
                if a is None:
                    got.append("?:?")
                    continue
                h = head_of(content)
                got.append(f"{h}:{b}" if a == 1 else f"{h}:a={a},{b}")
                # Y4 pieces
                brk = [p for p in content.pieces if (isinstance(p, str) and ("\n" in p or "\r" in p)) or (isinstance(p, Atom) and p.name == "NL")]
                if brk:
                    breaks += 1
                    ctx.finding("Y4", f"{name}: line break inside a line", locf, f"line {ln!r} contains a line break piece")
                # Y3
                if h == "END":
                    txt = content
                    is_ec = tag == "end_comment"
                    opener = stack.pop() if stack else (None, None)
                    if opener[1] != b:
                        pair_ok = False
                    want_end = SStr(["END # " + (opener[0] or "?")]) if is_ec else SStr(["END"])
                    ctx.check(txt == want_end, "Y3", f"{name} [{tag}]: END of {opener[0]}", locf, f"{txt.describe()}", f"END line of {opener[0]} is {txt.describe()!r}, expected {want_end.describe()!r}")
                elif h.isupper() and h not in ("NAME", "TYPE", "PROCESSING", "WIDTH", "CONFIG", "TEMPLATE") and h != "<value>":
                    stack.append((h, b))
            if not breaks:
                ctx.ok("Y4", f"{name} [{tag}]: no line break inside any line", locf, f"{len(lines)} lines")
            ctx.check(got == want, "Y1", f"{name} [{tag}]", locf, " ".join(got), f"indentation levels (keyword:k) are {got}, contract requires {want}")
            ctx.check(pair_ok and not stack, "Y2", f"{name} [{tag}]", locf, "openers and ENDs balanced", f"block openers and ENDs do not pair up at equal indentation: {got}")
    ctx.units["lines_checked"] = n_lines

    # the final join
    outs = L.pprint_text(lambda: [cd([("__type__", "web"), ("template", W("t"))]), cd([("__type__", "web"), ("template", W("u"))])], lambda: L.sym_options(end_comment=False, indent=2), fork=False)
    for ass, kind, text in outs:
        if kind != "return":
            ctx.finding("Y4", "pprint of two roots", repo.loc("pprint", repo.func("pprint.PrettyPrinter.pprint")), f"raises {text}")
            continue
        t = pai.as_sstr(text)
        nls = [p for p in t.pieces if isinstance(p, Atom) and p.name == "NL"]
        lit = "".join(p for p in t.pieces if isinstance(p, str))
        ctx.check(len(nls) == 5 and "\n" not in lit and lit.count("END") == 2, "Y4", "pprint joins lines with newlinechar", repo.loc("pprint", repo.func("pprint.PrettyPrinter.pprint")), f"{len(nls)} separators for 6 lines", f"two root blocks of 3 lines each are joined as {t.describe()!r}")

    # root key/value block (level 0)
    ctx.rule("Y6", "a METADATA / VALIDATION / CONNECTIONOPTIONS block printed at the root has its opener and END at indentation 0 and its pairs one level in", 3)
    for kv in ("metadata", "validation", "connectionoptions"):
        outs = L.pprint_text(lambda kv=kv: cd([("__type__", kv), ("akey", W("v"))]), lambda: L.sym_options(end_comment=False, newlinechar="\n"), fork=False)
        for ass, kind, text in outs:
            if kind != "return":
                raise AnalysisError(f"pprint of a root {kv.upper()} block raises {text}")
            t = pai.as_sstr(text)
            # split the text at the line separators: literal pieces carry them
            lines: list = [[]]
            for p_ in t.pieces:
                if isinstance(p_, str):
                    parts = p_.split("\n")
                    for i_, part in enumerate(parts):
                        if i_:
                            lines.append([])
                        if part:
                            lines[-1].append(part)
                else:
                    lines[-1].append(p_)
            shape = []
            for ln in lines:
                a, b, content = split_line(SStr(ln))
                shape.append((head_of(content) if a is not None else "?", b if a == 0 else f"a={a},{b}"))
            want = [(kv.upper(), 0), ("<value>", 1), ("END", 0)]
            ctx.check(shape == want, "Y6", f"root {kv.upper()} block", repo.loc("pprint", repo.func("pprint.PrettyPrinter.pprint")), "opener 0 / pair 1 / END 0", f"a depth-0 {kv.upper()} block is laid out as {shape} (keyword, indentation level), expected {want}; text {t.describe()[:90]!r}")

    # ---- Y5 alignment ---------------------------------------------------------------------------------
    ctx.rule("Y5", "alignment column = first multiple of max(1, indent) strictly greater than the longest counted key; all padded lines of an object use it; counted keys = padded keys", 15)
    I = e.interp(allow_fork=False)
    q = "pprint.PrettyPrinter.compute_aligned_max_indent"
    bad = []
    cells = 0
    for indent in range(0, 10):
        pp = models.printer(I, indent=indent)
        for m in range(0, 49):
            outs = I.explore(q, lambda pp=pp, m=m: (pp, [m], {}))
            cells += 1
            v = outs[0].value if outs and outs[0].kind == "return" else None
            step = max(1, indent)
            spec = (m // step + 1) * step
            if v != spec:
                bad.append((indent, m, v, spec))
    for indent in range(0, 10):
        b2 = [x for x in bad if x[0] == indent]
        ctx.check(not b2, "Y5", f"compute_aligned_max_indent, indent={indent}, key lengths 0..48", repo.loc("pprint", repo.func(q)), "first multiple past the longest key", f"indent={indent}: for longest key {b2[0][1] if b2 else ''} the column is {b2[0][2] if b2 else ''}, expected {b2[0][3] if b2 else ''}")
    ctx.units["alignment_grid_cells"] = cells
    # padded lines of a representative object
    for indent, with_rep in [(i, r) for i in (0, 1, 2, 4, 8) for r in (True, False)]:
        items = [("__type__", "layer"), ("name", W("n")), ("type", SStr.atom("enumword", lower_is="point"))]
        if with_rep:
            items += [("classitem", W("c")), ("processing", [W("p")])]
        items += [("projection", [W("pr")]), ("metadata", cd([("__type__", "metadata"), ("k", W("v"))])), ("connectionoptions", cd([("__type__", "connectionoptions"), ("k", W("v"))])), ("classes", [cd([("__type__", "class"), ("name", W("cn"))])])]
        mk = lambda items=items: cd(list(items))
        outs = L.format_lines(mk, lambda indent=indent: L.sym_options(end_comment=False, align_values=True, indent=indent, spacer=" "), level=0, fork=False)
        if len(outs) != 1 or outs[0][1] != "return":
            raise AnalysisError(f"_format with align_values not evaluable: {outs}")
        lines = outs[0][2]
        step = max(1, indent)
        longest = len("processing") if with_rep else len("name")  # counted: simple and repeated keywords only
        col = (longest // step + 1) * step
        expect_n = 4 if with_rep else 2
        cols = {}
        for ln in lines:
            s = pai.as_sstr(ln)
            pieces = [p for p in s.pieces if not isinstance(p, Rep)]
            if not pieces or not isinstance(pieces[0], str):
                continue
            txt = pieces[0]
            head = txt.split(" ")[0]
            txt = txt.lstrip(" ")
            head = txt.split(" ")[0]
            if head in ("NAME", "CLASSITEM", "TYPE", "PROCESSING") and not cols.get(head):
                stripped = txt
                key_and_pad = len(stripped) - len(stripped.lstrip(head).lstrip(" ")) if False else None
                # column where the value starts = length of the literal up to the first non-space after the key
                rest = stripped[len(head) :]
                pad = len(rest) - len(rest.lstrip(" "))
                cols[head] = len(head) + pad
        ctx.check(len(cols) == expect_n and set(cols.values()) == {col}, "Y5", f"padded lines, indent={indent}, {'with' if with_rep else 'without'} a repeated keyword", locf, f"all simple keywords start their value in column {col}", f"indent={indent}: value columns {cols}, expected all {col} (longest counted keyword has {longest} characters; block keywords such as PROJECTION / CONNECTIONOPTIONS / CLASSES must not be counted)")
    # keywords written after a nested block use their own object's column, not the nested object's
    for indent in (2, 3, 4):
        def mixed():
            cls = cd([("__type__", "class"), ("name", W("cn")), ("maxscaledenom", SNum.sym("m", None, None)), ("styles", [cd([("__type__", "style"), ("width", SNum.sym("w", None, None))])]), ("text", W("t"))])
            return cd([("__type__", "layer"), ("name", W("n")), ("classes", [cls]), ("type", SStr.atom("enumword", lower_is="point")), ("status", SStr.atom("enumword2", lower_is="on")), ("processing", [W("p")])])

        outs = L.format_lines(mixed, lambda indent=indent: L.sym_options(end_comment=False, align_values=True, indent=indent, spacer=" "), level=0, fork=False)
        if len(outs) != 1 or outs[0][1] != "return":
            raise AnalysisError(f"_format with align_values not evaluable on the mixed-order LAYER: {outs}")
        depth = 0
        cols: dict = {}
        for ln in outs[0][2]:
            s2 = pai.as_sstr(ln)
            pieces = [p for p in s2.pieces if not isinstance(p, Rep)]
            if not pieces or not isinstance(pieces[0], str):
                continue
            txt = pieces[0].lstrip(" ")
            head = txt.split(" ")[0]
            if head in ("LAYER", "CLASS", "STYLE"):
                depth += 1
                continue
            if head == "END":
                depth -= 1
                continue
            rest = txt[len(head):]
            pad = len(rest) - len(rest.lstrip(" "))
            cols.setdefault(depth, {})[head] = len(head) + pad
        step = max(1, indent)
        want = {1: (len("processing") // step + 1) * step, 2: (len("maxscaledenom") // step + 1) * step, 3: (len("width") // step + 1) * step}
        bad = {d: c for d, c in cols.items() if set(c.values()) != {want.get(d)}}
        ctx.check(not bad and set(cols) == {1, 2, 3}, "Y5", f"keywords after a nested block, indent={indent}", locf, f"columns {want} per nesting depth", f"indent={indent}: a LAYER whose CLASS block stands between its keywords (and a CLASS whose STYLE stands between its keywords) gets value columns {cols}, expected {want} at depths 1/2/3: keywords written after a nested block are aligned with the nested object's column")
    # counted = padded: PROJECTION / METADATA longer than the simple keys must not widen the column
    ctx.units["pai_paths"] = I.paths_run
