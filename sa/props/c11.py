"""C11 - any input is either parsed or rejected with a parse error, promptly."""

from __future__ import annotations

import ast

from .. import models, pai
from ..absval import SStr, Atom, CC
from ..core import AnalysisError, Ctx, norm, fold
from ..grammar import regex_star_height, regex_ambiguous_repeats, regex_first_last
from ..pyfacts import dotted, calls_in, guards_at, walk_guarded, terminates

META = {
    "explanation": "Exception-escape analysis of the part of the load path that is not inside lark: (X1) every partial operation (constant subscript / pop(i) / assert / explicit raise) in every function reachable from utils.open/load/loads through resolved calls (not through lark's dispatch to transformer callbacks) is dominated by a guard, indexes a local work list whose length has a proven lower bound at that statement (forward length analysis over the structured AST, loops at fixpoint - sa/lenfacts.py), is one of the recognised total idioms (str.split(sep)[0], pop of a key ranging over a snapshot of the dictionary's own keys, an assert that only reads parameters every load-path call leaves at defaults for which it holds), raises a Lark error, or is in the confirmed table; (X6) every while loop on the load path makes progress on every path back to its head (something its test reads may have changed); (X2) PAI evaluates Parser.parse's interactive token loop for every combination of (empty stack | previous token kind and text class) x (current token kind and text class) and the INCLUDE-line helper (found by role) on every INCLUDE-line shape: only Lark-family exceptions may come out; (X3) the three transformer classes derive from lark's Transformer classes and do not override the machinery that wraps callback exceptions in VisitError; (X4) the parse-error handler re-raises the same exception (line/column survive); (G8) every block type is accepted at the root by the LALR automaton; (G7) every terminal regex has star height <= 1 and no unbounded repeat over overlapping alternatives (linear-time matching).",
    "level_text": "All code between the public entry points and lark is small enough for an exact escape analysis; what runs inside lark's transformer is covered by lark's documented wrapping (VisitError is a LarkError). 'Promptly' is decided only as the necessary condition that no lexer regex can backtrack super-linearly; wall-clock proportionality is not decided.",
    "level_note": "Trusted: lark wraps every exception of a transformer callback except GrammarError/Discard in VisitError; lark's LALR loop is linear; RecursionError for nesting beyond the property's bound is out of scope.",
    "technique": "exception-escape rule over guard (dominance) facts + abstract interpretation of the token loop + regex syntax-tree analysis + LALR root-derivability query",
}

LOADPATH = [
    "utils.open", "utils.load", "utils.loads", "parser.Parser.parse", "parser.Parser.load", "parser.Parser.parse_file", "parser.Parser.open_file",
    "parser.Parser.load_includes", "parser.Parser._assign_comments", "transformer.MapfileToDict.transform",
]
LARK_FAMILY = {"ParseError", "UnexpectedInput", "UnexpectedToken", "UnexpectedCharacters", "UnexpectedEOF", "LarkError", "VisitError", "LexError", "GrammarError"}
# partial operations confirmed safe by construction (normalised text -> reason)
SAFE_TABLE = {
    ("parser.Parser.load_includes", "lines.pop(idx)"): "idx enumerates the same list and the replacement is index-stable (C15 I4)",
}
RAISE_TABLE = {
    ("parser.Parser.load_includes", "ValueError"): "include nesting beyond 5 levels: the error C15 prescribes",
    ("parser.Parser.load_includes", "ex"): "re-raise of the IOError for a missing include file (C15)",
}


def run(ctx: Ctx) -> None:
    e = models.env(ctx)
    repo, facts, G = ctx.repo, e.facts, e.G
    ctx.trusted += ["lark.visitors.Transformer._call_userfunc wraps callback exceptions in VisitError(LarkError)", "lark's LALR parse loop is linear in the token count"]
    ctx.not_decided += ["wall-clock proportionality", "recursion depth for nesting > 100 (excluded by the property)"]

    # ---- X1 --------------------------------------------------------------------------------------
    ctx.rule("X1", "partial operations on the non-lark load path are guarded, raise Lark errors, or are tabled", 8)
    from .. import lenfacts

    ctx.units["length_analysis_self_check_cases"] = lenfacts.self_check()
    direct = facts.reachable_direct(["utils.open", "utils.load", "utils.loads"])
    missing = [q for q in LOADPATH if q not in direct]
    if missing:
        raise AnalysisError(f"anchor vanished: {missing} no longer on the load path")
    ctx.units["load_path_functions"] = sorted(direct)
    for q in LOADPATH + sorted(direct - set(LOADPATH)):
        fn = repo.func(q)
        mod = q.split(".")[0]
        for n in ast.walk(fn):
            key = None
            if isinstance(n, ast.Subscript) and isinstance(n.ctx, ast.Load):
                idx = _const_index(n.slice)
                if idx is None:
                    continue
                # subscripts of annotations (list[Any]) are not runtime indexing of data
                if isinstance(n.value, ast.Name) and n.value.id in ("list", "dict", "tuple", "IO", "Any"):
                    continue
                key = norm(n)
                if (q, key) in SAFE_TABLE:
                    ctx.ok("X1", f"{q} | {key}", repo.loc(mod, n), "tabled: " + SAFE_TABLE[(q, key)], nontrivial=False)
                    continue
                if idx in (0, -1) and isinstance(n.value, ast.Call) and isinstance(n.value.func, ast.Attribute) and ((n.value.func.attr in ("split", "rsplit") and n.value.args) or n.value.func.attr in ("partition", "rpartition")):
                    ctx.ok("X1", f"{q} | {key}", repo.loc(mod, n), "str.split(sep) / partition never return an empty sequence")
                    continue
                good, why = _index_guarded(fn, n, idx)
                ctx.check(good, "X1", f"{q} | {key}", repo.loc(mod, n), why, f"{key}: index {idx} of a sequence whose length depends on the input is not dominated by a length / emptiness test: IndexError can escape loads() ({why})")
            elif isinstance(n, ast.Call) and isinstance(n.func, ast.Attribute) and n.func.attr == "pop" and n.args and not isinstance(n.func.value, ast.Call):
                key = norm(n)
                if (q, key) in SAFE_TABLE:
                    ctx.ok("X1", f"{q} | {key}", repo.loc(mod, n), "tabled: " + SAFE_TABLE[(q, key)], nontrivial=False)
                elif _index_stable_replacement(fn, n):
                    ctx.ok("X1", f"{q} | {key}", repo.loc(mod, n), "the index was taken from enumerate() of this very list, and every pop(i) is followed at once by insert(i, ...): the list keeps its length (C15 I4)")
                elif _pops_own_key(fn, n):
                    ctx.ok("X1", f"{q} | {key}", repo.loc(mod, n), "the key popped is a loop variable ranging over a snapshot of that dictionary's own keys")
                elif len(n.args) >= 2:
                    ctx.ok("X1", f"{q} | {key}", repo.loc(mod, n), "pop with default", nontrivial=False)
                else:
                    ctx.finding("X1", f"{q} | {key}", repo.loc(mod, n), f"{key} may raise IndexError/KeyError on input-dependent data and is neither guarded nor tabled")
            elif isinstance(n, ast.Assert) and _assert_on_defaults(facts, direct, q, fn, n):
                ctx.ok("X1", f"{q} | {norm(n)[:70]}", repo.loc(mod, n), "the test reads only parameters, every call on the load path leaves them at their defaults, and it holds for the defaults")
            elif isinstance(n, ast.Assert):
                ctx.finding("X1", f"{q} | {norm(n)[:70]}", repo.loc(mod, n), "assert on the load path outside a transformer callback: AssertionError escapes loads()")
            elif isinstance(n, ast.Raise):
                if n.exc is None:
                    ctx.ok("X1", f"{q} | bare raise", repo.loc(mod, n), "re-raises the exception being handled", nontrivial=False)
                    continue
                d = dotted(n.exc.func) if isinstance(n.exc, ast.Call) else dotted(n.exc)
                name = (d or norm(n.exc)).split(".")[-1]
                if name in LARK_FAMILY:
                    ctx.ok("X1", f"{q} | raise {name}", repo.loc(mod, n), "Lark family")
                elif (q, name) in RAISE_TABLE:
                    ctx.ok("X1", f"{q} | raise {name}", repo.loc(mod, n), "tabled: " + RAISE_TABLE[(q, name)], nontrivial=False)
                elif _reraises_handled(fn, n):
                    ctx.ok("X1", f"{q} | raise {name}", repo.loc(mod, n), "re-raises the exception being handled (the name bound by the enclosing except clause)", nontrivial=False)
                elif name == "ValueError" and _under_depth_limit(fn, n):
                    ctx.ok("X1", f"{q} | raise {name}", repo.loc(mod, n), "include nesting beyond the limit (raise guarded by a counter reaching an integer constant): the error C15 prescribes", nontrivial=False)
                else:
                    ctx.finding("X1", f"{q} | raise {name}", repo.loc(mod, n), f"raises {name}, which is not a Lark error and not one of the errors C15/C20 prescribe")

    # ---- X6 --------------------------------------------------------------------------------------
    ctx.rule("X6", "every `while` loop on the load path (functions reached from open / load / loads, and the transformer callbacks lark dispatches to) makes progress on every path back to its head: something its test reads may have changed (sa/termination.py; while True and tests deciding through a free function are not judged)", 0)
    from .. import termination

    ctx.units["termination_self_check_cases"] = termination.self_check()
    n_loops = 0
    for q in sorted(set(direct) | {q_ for q_, _ in repo.all_functions() if q_.startswith("transformer.")}):
        f_ = repo.func(q)
        loops_ = [n for n in ast.walk(f_) if isinstance(n, ast.While)]
        n_loops += len(loops_)
        stuck = termination.stuck_paths(f_)
        for loop_, node_, desc in stuck:
            ctx.finding("X6", f"{q} | while {norm(loop_.test)[:50]}", repo.loc(q.split(".")[0], node_), f"{desc}: once taken, this path is taken forever - loads() does not return")
        for loop_ in loops_:
            if not any(l is loop_ for l, _, _ in stuck):
                ctx.ok("X6", f"{q} | while {norm(loop_.test)[:50]}", repo.loc(q.split(".")[0], loop_), "every back path may change what the test reads (or the loop is not judged)")
    ctx.units["while_loops_on_load_path"] = n_loops

    # ---- X5 --------------------------------------------------------------------------------------
    ctx.rule("X5", "the token loop does a bounded amount of work per token: inside the loop over iter_parse() no method of the interactive parser is called (copy / accepts / choices / feed_token walk or duplicate the whole parser stack, which makes loads quadratic), directly or through a helper the parser object is handed to", 1)
    pfn = repo.func("parser.Parser.parse")
    loops = []
    for q in sorted(direct):
        f_ = repo.func(q)
        for n in ast.walk(f_):
            if isinstance(n, ast.For) and isinstance(n.iter, ast.Call) and isinstance(n.iter.func, ast.Attribute) and n.iter.func.attr == "iter_parse" and isinstance(n.iter.func.value, ast.Name):
                loops.append((q, f_, n, n.iter.func.value.id))
    if not loops:
        raise AnalysisError("anchor vanished: the loop over iter_parse() on the load path")
    for q, f_, loop, ipname in loops:
        offenders: list = []

        def scan(body_nodes, name, owner_q, owner_fn, depth=0):
            for st in body_nodes:
                for c in ast.walk(st):
                    if not isinstance(c, ast.Call):
                        continue
                    if isinstance(c.func, ast.Attribute) and isinstance(c.func.value, ast.Name) and c.func.value.id == name:
                        offenders.append(f"{owner_q}: {norm(c)[:60]}")
                    # the parser object handed to a repository function: look inside
                    if depth < 3 and any(isinstance(a, ast.Name) and a.id == name for a in c.args):
                        cs = next((x for x in facts.calls.get(owner_q, []) if x.node is c), None)
                        if cs is not None and cs.target:
                            tf = repo.func(cs.target)
                            b_ = bind_args_safe(c, tf, cs.target)
                            for pn, a in b_.items():
                                if isinstance(a, ast.Name) and a.id == name:
                                    scan(tf.body, pn, cs.target, tf, depth + 1)

        scan(loop.body, ipname, q, f_)
        ctx.check(not offenders, "X5", f"{q}: per-token work", repo.loc(q.split(".")[0], loop), "no parser-state method inside the loop", f"inside the token loop the interactive parser is used through {offenders}: each such call walks or copies the whole value stack, so parse time grows with the square of the input length")

    # ---- X2 --------------------------------------------------------------------------------------
    ctx.rule("X2", "abstract evaluation of Parser.parse's token loop and of _get_include_filename over all token / line shape classes yields only returns or Lark-family exceptions", 30)
    sym_attrs = sorted(repo.const("parser", "SYMBOL_ATTRIBUTES"))
    prevs = [None]
    texts = {"free": lambda: SStr.atom("prevtext", free=True), "symbol": lambda: SStr.atom("prevkw", lower_is="symbol"), "name": lambda: SStr.atom("prevkw", lower_is="name")}
    for pk in ("SYMBOL", "UNQUOTED_STRING", "DOUBLE_QUOTED_STRING", "_END", "GRID"):
        for tn, tf in texts.items():
            prevs.append((pk, tn, tf))
    curs = [("UNQUOTED_STRING", "free", lambda: SStr.atom("word", free=True)), ("UNQUOTED_STRING", "symbol-attribute", lambda: sym_attrs[0] if sym_attrs else "NAME"), ("GRID", "grid", lambda: SStr.atom("kw", lower_is="grid")), ("DOUBLE_QUOTED_STRING", "string", lambda: SStr(['"', Atom("s", nonempty=False, excludes=frozenset('"')), '"'])), ("SIGNED_INT", "number", lambda: "12")]
    n2 = 0
    for pv in prevs:
        for ck, cn, cf in curs:
            pdesc = "empty stack" if pv is None else f"{pv[0]}/{pv[1]}"
            outs = models.retag_outcomes(e, None if pv is None else (pv[0], pv[2]), ck, cf)
            n2 += 1
            bad = [o for o in outs if isinstance(o[0], str) and o[0].startswith("raise:") and o[0][6:] not in LARK_FAMILY]
            ctx.check(not bad, "X2", f"token loop: previous={pdesc} current={ck}/{cn}", repo.loc("parser", repo.func("parser.Parser.parse")), f"outcomes {sorted({str(o[0]) for o in outs})}", f"Parser.parse raises {[o[0][6:] for o in bad]} (not a Lark error) when the current token is {ck} and the value stack is {pdesc}")
    # include-line shapes
    gif_q, gif_m = models.include_filename_func(e)
    I = e.interp(allow_fork=True, max_paths=64)
    word = lambda nm: Atom(nm, excludes=frozenset(" \t\n\r\x0b\x0c#"))
    shapes = {
        "INCLUDE": lambda: SStr(["INCLUDE"]),
        "INCLUDE <ws>": lambda: SStr(["INCLUDE   "]),
        "INCLUDE # comment": lambda: SStr(["INCLUDE # ", word("c")]),
        "INCLUDE <f>": lambda: SStr(["INCLUDE ", word("f")]),
        "INCLUDE <f> <g>": lambda: SStr(["INCLUDE ", word("f"), " ", word("g")]),
        "INCLUDE <f> # comment": lambda: SStr(["INCLUDE ", word("f"), " # ", word("c")]),
        "INCLUDEPATH": lambda: SStr(["INCLUDE", Atom("rest", excludes=frozenset(" \t\n\r\x0b\x0c#"))]),
        "  include '<f>'": lambda: SStr(["  include '", word("f"), "'"]),
    }
    for name, mk in shapes.items():
        outs = I.explore(gif_q, lambda mk=mk: (models.construct(e, "parser.Parser") if gif_m else None, [mk()], {}))
        bad = [o for o in outs if o.kind == "raise" and o.exc not in LARK_FAMILY]
        ctx.check(not bad, "X2", f"include line shape: {name}", repo.loc("parser", repo.func(gif_q)), f"{len(outs)} path(s), no foreign exception", f"_get_include_filename raises {[o.exc for o in bad]} for a line of the form '{name}'")

    # ---- X3 --------------------------------------------------------------------------------------
    ctx.rule("X3", "MapfileTransformer, CommentsTransformer and Canonize derive from lark's Transformer classes and do not override the callback-wrapping machinery", 3)
    for cq in ("transformer.MapfileTransformer", "transformer.CommentsTransformer", "transformer.Canonize"):
        bases = facts.bases.get(cq)
        if bases is None:
            raise AnalysisError(f"anchor vanished: {cq}")
        mod, cname = cq.split(".")
        meths = repo.module(mod).methods[cname]
        lark_base = any(b in ("ext:Transformer", "ext:Transformer_InPlace", "ext:Transformer_NonRecursive", "ext:Transformer_InPlaceRecursive") for b in bases)
        overridden = sorted(set(meths) & {"_call_userfunc", "_call_userfunc_token", "transform", "_transform_tree", "_transform_children", "__default__", "__default_token__"})
        ctx.check(lark_base and not overridden, "X3", cq, repo.loc(mod, repo.cls(cq)), f"bases {bases}", f"{cq}: bases {bases}, overrides {overridden}: callback exceptions may escape unwrapped")
    # the transformer is entered through lark's transform()
    tr = repo.func("transformer.MapfileToDict.transform")
    ctx.check(any(c.external and c.external.endswith(".transform") for c in facts.calls["transformer.MapfileToDict.transform"]), "X3", "MapfileToDict.transform enters lark's transform()", repo.loc("transformer", tr), "", "callbacks are not driven by lark's transform()")

    # ---- X4 --------------------------------------------------------------------------------------
    ctx.rule("X4", "the parse-error handler in Parser.parse re-raises the exception it caught", 1)
    pf = repo.func("parser.Parser.parse")
    handlers = [n for n in ast.walk(pf) if isinstance(n, ast.ExceptHandler)]
    if not handlers:
        ctx.ok("X4", "no handler: errors propagate unchanged", repo.loc("parser", pf), "")
    for h in handlers:
        last = h.body[-1] if h.body else None
        good = isinstance(last, ast.Raise) and (last.exc is None or (isinstance(last.exc, ast.Name) and last.exc.id == h.name)) and terminates(h.body)
        ctx.check(good, "X4", f"except {norm(h.type) if h.type else ''}", repo.loc("parser", h), "bare raise", "the handler swallows or replaces the parse error: callers lose the exception type or its line/column")

    # ---- G8 --------------------------------------------------------------------------------------
    from .c19 import grammar_block_types

    ctx.rule("G8", "every block type, SYMBOLSET and the key/value blocks are accepted as the root of a partial Mapfile (LALR automaton + evaluated retagging); start() and Canonize.symbolset exist", 20)
    btypes = grammar_block_types(G)

    retag = models.make_retag(e)
    _Raised = models.RetagRaised

    roots = [(t, [("W", t.upper()), ("W", "END")]) for t in sorted(btypes)]
    roots.append(("symbolset", [("W", "SYMBOLSET"), ("W", "END")]))
    for kv in ("metadata", "validation", "connectionoptions"):
        roots.append((kv, [("W", kv.upper()), ("W", "END")]))
    roots.append(("two roots", [("W", "CLASS"), ("W", "END"), ("W", "CLASS"), ("W", "END")]))
    for name, items in roots:
        try:
            okk, why, _ = G.run_items(items, retag)
        except _Raised as ex:
            okk, why = False, f"Parser.parse raises {ex}"
        ctx.check(okk, "G8", f"root {name}", "mappyfile/mapfile.lark", "accepted", f"{' '.join(x for _, x in items)}: {why}")
    ctx.check(repo.has_func("transformer.MapfileTransformer.start") and repo.has_func("transformer.Canonize.symbolset"), "G8", "start / symbolset callbacks", "mappyfile/transformer.py", "", "callbacks for the root rules are missing")

    # ---- G7 --------------------------------------------------------------------------------------
    ctx.rule("G7", "every terminal regex has star height <= 1 and no unbounded repeat over alternatives that can match a common string in two ways (no super-linear backtracking)", 15)
    for t in G.terms.values():
        if t.kind != "re":
            continue
        h = regex_star_height(t.value, t.flags)
        amb = regex_ambiguous_repeats(t.value, t.flags)
        ctx.check(h <= 1 and not amb, "G7", f"terminal {t.name}", "mappyfile/mapfile.lark", f"star height {h}", f"terminal {t.name} /{t.value}/: star height {h}, {amb}: matching can take super-linear time")
    ctx.units.update({"load_path_functions": LOADPATH, "token_loop_scenarios": n2, "terminals_regex": sum(1 for t in G.terms.values() if t.kind == 're')})


def _const_index(sl: ast.AST):
    if isinstance(sl, ast.Constant) and isinstance(sl.value, int) and not isinstance(sl.value, bool):
        return sl.value
    if isinstance(sl, ast.UnaryOp) and isinstance(sl.op, ast.USub) and isinstance(sl.operand, ast.Constant) and isinstance(sl.operand.value, int):
        return -sl.operand.value
    return None


def _assert_on_defaults(facts, direct, q: str, fn: ast.FunctionDef, node: ast.Assert) -> bool:
    """The assert reads nothing but parameters of ``fn``; every call of ``fn`` from the load path
    passes no argument for them; the test is true for the declared defaults."""
    params = [a.arg for a in fn.args.args]
    defaults = dict(zip(params[len(params) - len(fn.args.defaults) :], fn.args.defaults))
    names = {x.id for x in ast.walk(node.test) if isinstance(x, ast.Name)}
    # module-level constant tables the test consults (``assert quote in QUOTE_CHARS``)
    mod = q.split(".")[0]
    mi = facts.repo.module(mod)
    consts = {}
    for nm in sorted(names - set(params)):
        if nm in mi.assigns:
            try:
                consts[nm] = facts.repo.const(mod, nm)
            except Exception:
                return False
    names -= set(consts)
    if not names or not names <= set(defaults):
        return False
    sites = [cs for caller in direct for cs in facts.calls.get(caller, []) if cs.target == q]
    if not sites:
        return False
    for cs in sites:
        if cs.node.args or any(k.arg is None or k.arg in names for k in cs.node.keywords):
            return False
    env = dict(consts)
    for nm in names:
        try:
            env[nm] = fold(defaults[nm])
        except Exception:
            return False
    try:
        return bool(eval(compile(ast.Expression(node.test), "<assert>", "eval"), {"__builtins__": {}}, env))
    except Exception:
        return False


def bind_args_safe(call: ast.Call, fn: ast.FunctionDef, qual: str) -> dict:
    from ..pyfacts import bind_args

    try:
        return bind_args(call, fn, skip_self=qual.count(".") == 2)
    except Exception:
        return {}


def _pops_own_key(fn: ast.FunctionDef, call: ast.Call) -> bool:
    """``D.pop(k)`` where k is the variable of an enclosing for-loop / comprehension whose iterable is a
    snapshot of D's keys: D, D.keys(), list/sorted/tuple of those, a filtered comprehension over those,
    or a local bound once to such an expression."""
    if not (isinstance(call.args[0], ast.Name) and isinstance(call.func, ast.Attribute)):
        return False
    k = call.args[0].id
    base = norm(call.func.value)
    parents = {}
    for par in ast.walk(fn):
        for ch in ast.iter_child_nodes(par):
            parents[ch] = par
    assigns: dict = {}
    for st in ast.walk(fn):
        if isinstance(st, ast.Assign) and len(st.targets) == 1 and isinstance(st.targets[0], ast.Name):
            assigns.setdefault(st.targets[0].id, []).append(st.value)

    def from_keys(e: ast.AST, depth: int = 0) -> bool:
        if depth > 5:
            return False
        if norm(e) == base:
            return True
        if isinstance(e, ast.Call) and isinstance(e.func, ast.Attribute) and e.func.attr == "keys" and norm(e.func.value) == base:
            return True
        if isinstance(e, ast.Call) and dotted(e.func) in ("list", "sorted", "tuple", "reversed") and e.args:
            return from_keys(e.args[0], depth + 1)
        if isinstance(e, (ast.ListComp, ast.GeneratorExp)) and len(e.generators) == 1 and isinstance(e.elt, ast.Name) and isinstance(e.generators[0].target, ast.Name) and e.elt.id == e.generators[0].target.id:
            return from_keys(e.generators[0].iter, depth + 1)
        if isinstance(e, ast.Name) and len(assigns.get(e.id, [])) == 1:
            return from_keys(assigns[e.id][0], depth + 1)
        return False

    # a snapshot is needed when the loop itself pops: iterating D directly while popping would raise
    n: ast.AST = call
    while n in parents:
        n = parents[n]
        if isinstance(n, ast.For) and isinstance(n.target, ast.Name) and n.target.id == k:
            return from_keys(n.iter) and norm(n.iter) != base
        if isinstance(n, (ast.ListComp, ast.GeneratorExp, ast.SetComp)):
            for g in n.generators:
                if isinstance(g.target, ast.Name) and g.target.id == k:
                    return from_keys(g.iter) and norm(g.iter) != base
    return False


def _index_guarded(fn: ast.FunctionDef, sub: ast.Subscript, idx: int) -> tuple[bool, str]:
    base = norm(sub.value)
    need = idx + 1 if idx >= 0 else -idx
    for g in guards_at(fn, sub):
        t, pos = g.test, g.positive
        while isinstance(t, ast.UnaryOp) and isinstance(t.op, ast.Not):
            t, pos = t.operand, not pos
        # truthiness of the sequence itself: len >= 1
        if norm(t) == base and pos and need <= 1:
            return True, f"dominated by truthiness of {base}"
        if isinstance(t, ast.Compare) and len(t.ops) == 1 and isinstance(t.left, ast.Call) and dotted(t.left.func) == "len" and t.left.args and norm(t.left.args[0]) == base and isinstance(t.comparators[0], ast.Constant):
            c = t.comparators[0].value
            op = type(t.ops[0])
            lo = None  # known lower bound of len
            if pos:
                lo = {ast.Gt: c + 1, ast.GtE: c, ast.Eq: c}.get(op)
            else:
                lo = {ast.Lt: c, ast.LtE: c + 1}.get(op)
            if lo is not None and lo >= need:
                return True, f"dominated by {'not ' if not pos else ''}{norm(t)}"
    # a local work list (explicit stack): the length is a loop invariant rather than a dominating test
    if isinstance(sub.value, ast.Name):
        from .. import lenfacts

        facts_ = lenfacts.min_len_at(fn, sub.value.id)
        st = lenfacts.enclosing_stmt(fn, sub) if facts_ is not None else None
        if st is not None and id(st) in facts_:
            shrink = sum(1 for c in ast.walk(st) if isinstance(c, ast.Call) and isinstance(c.func, ast.Attribute) and isinstance(c.func.value, ast.Name) and c.func.value.id == sub.value.id and c.func.attr in ("pop", "remove", "clear") and lenfacts.enclosing_stmt(fn, c) is st)
            if shrink == 0 and facts_[id(st)] >= need:
                return True, f"{base} is a local list holding at least {facts_[id(st)]} element(s) on every path to this statement (forward length analysis, loops at fixpoint)"
    return False, "no dominating length test"


def _index_stable_replacement(fn: ast.FunctionDef, pop: ast.Call) -> bool:
    """``L.pop(i)`` directly followed by ``L.insert(i, ...)``, with ``i`` ranging over the keys of a local
    dictionary that is only ever filled under indexes taken from ``enumerate(L)``: every ``i`` is a valid index
    and the list keeps its length, whatever the function is called."""
    if not (isinstance(pop.func.value, ast.Name) and len(pop.args) == 1 and isinstance(pop.args[0], ast.Name)):
        return False
    L, i = pop.func.value.id, pop.args[0].id
    # the statement after the pop, in the same block
    follows = False
    for par in ast.walk(fn):
        for fld in ("body", "orelse", "finalbody"):
            blk = getattr(par, fld, None)
            if not isinstance(blk, list):
                continue
            for a, b in zip(blk, blk[1:]):
                if isinstance(a, ast.Expr) and a.value is pop and isinstance(b, ast.Expr) and isinstance(b.value, ast.Call) and isinstance(b.value.func, ast.Attribute) and b.value.func.attr == "insert" and dotted(b.value.func.value) == L and b.value.args and isinstance(b.value.args[0], ast.Name) and b.value.args[0].id == i:
                    follows = True
    if not follows:
        return False
    # i ranges over the keys of a local dict D
    D = None
    for n in ast.walk(fn):
        if isinstance(n, ast.For):
            t = n.target
            first = t.elts[0] if isinstance(t, ast.Tuple) and t.elts else t
            if isinstance(first, ast.Name) and first.id == i and any(x is pop for x in ast.walk(n)):
                it = n.iter
                if isinstance(it, ast.Call) and isinstance(it.func, ast.Attribute) and it.func.attr in ("items", "keys") and isinstance(it.func.value, ast.Name):
                    D = it.func.value.id
                elif isinstance(it, ast.Name):
                    D = it.id
    if D is None:
        return False
    enum_idx = {n.target.elts[0].id for n in ast.walk(fn) if isinstance(n, ast.For) and isinstance(n.iter, ast.Call) and dotted(n.iter.func) == "enumerate" and n.iter.args and dotted(n.iter.args[0]) == L and isinstance(n.target, ast.Tuple) and n.target.elts and isinstance(n.target.elts[0], ast.Name)}
    stores = [n for n in ast.walk(fn) if isinstance(n, ast.Subscript) and isinstance(n.ctx, ast.Store) and dotted(n.value) == D]
    if not stores or not all(isinstance(st.slice, ast.Name) and st.slice.id in enum_idx for st in stores):
        return False
    # D is bound to an empty dict and not otherwise filled
    binds = [st.value for st in ast.walk(fn) if isinstance(st, ast.Assign) and any(isinstance(t, ast.Name) and t.id == D for t in st.targets)]
    return len(binds) == 1 and ((isinstance(binds[0], ast.Dict) and not binds[0].keys) or (isinstance(binds[0], ast.Call) and dotted(binds[0].func) in ("dict", "OrderedDict") and not binds[0].args and not binds[0].keywords))


def _reraises_handled(fn: ast.FunctionDef, r: ast.Raise) -> bool:
    """``raise ex`` inside ``except ... as ex`` (ex not rebound in the handler)."""
    if not isinstance(r.exc, ast.Name):
        return False
    for h in ast.walk(fn):
        if isinstance(h, ast.ExceptHandler) and h.name == r.exc.id and any(x is r for x in ast.walk(h)):
            rebound = any(isinstance(x, ast.Name) and x.id == h.name and isinstance(x.ctx, ast.Store) for st in h.body for x in ast.walk(st))
            return not rebound
    return False


def _under_depth_limit(fn: ast.FunctionDef, r: ast.Raise) -> bool:
    """The raise is dominated by ``<counter> == N`` / ``>= N`` / ``> N`` with N an integer (literal or module
    constant name) and <counter> a parameter of the function or an attribute of a local object."""
    params = {a.arg for a in fn.args.args + fn.args.kwonlyargs}
    try:
        gs = guards_at(fn, r)
    except AnalysisError:
        return False
    for g in gs:
        t = g.test
        if g.positive and isinstance(t, ast.Compare) and len(t.ops) == 1 and isinstance(t.ops[0], (ast.Eq, ast.GtE, ast.Gt)):
            left_ok = (isinstance(t.left, ast.Name) and t.left.id in params) or (isinstance(t.left, ast.Attribute) and isinstance(t.left.value, ast.Name))
            c = t.comparators[0]
            right_ok = (isinstance(c, ast.Constant) and isinstance(c.value, int) and not isinstance(c.value, bool)) or (isinstance(c, ast.Name) and c.id.isupper())
            if left_ok and right_ok:
                return True
    return False
