"""Self-validation of the checkers (DESIGN section 6): seeded variants of the current tree.

Each variant is one edit of one file of a scratch copy of /repo/mappyfile (made under mktemp,
removed afterwards).  'fire' variants must make the named property's check exit 1 with a VIOLATION;
'silent' variants (behaviour-preserving twins) must leave it at exit 0; 'quiet' variants (the
behaviour-preserving refactorings under /verif/benign/) must not make any check print VIOLATION
(exit 0, or exit 2 = the analysis reports that it cannot evaluate the changed code).

    python -m sa.selftest [--prop C17] [--jobs 16] [--list]
"""

from __future__ import annotations

import argparse
import concurrent.futures as cf
import json
import os
import shutil
import subprocess
import sys
import tempfile
import time

from .core import VERIF

VARIANTS_FILE = os.path.join(VERIF, "selftest", "variants.json")


def load_variants() -> list[dict]:
    out = []
    d = os.path.join(VERIF, "selftest")
    for fn in sorted(os.listdir(d)):
        if fn.endswith(".json"):
            with open(os.path.join(d, fn), encoding="utf-8") as f:
                out += json.load(f)
    # changes contributed by independent sub-agents: /verif/seeded/<id>/patch.diff must keep firing
    sd = os.path.join(VERIF, "seeded")
    if os.path.isdir(sd):
        for name in sorted(os.listdir(sd)):
            mp = os.path.join(sd, name, "meta.json")
            pp = os.path.join(sd, name, "patch.diff")
            if os.path.isfile(mp) and os.path.isfile(pp):
                with open(mp) as f:
                    meta = json.load(f)
                if meta.get("expect_miss"):
                    continue
                out.append({"id": "seed-" + name, "props": [meta.get("caught_by") or meta["property"]], "expect": "fire", "patch": pp})
    # behaviour-preserving changes contributed by independent sub-agents: no check may print VIOLATION
    bd = os.path.join(VERIF, "benign")
    if os.path.isdir(bd):
        for name in sorted(os.listdir(bd)):
            pp = os.path.join(bd, name, "patch.diff")
            mp = os.path.join(bd, name, "meta.json")
            if os.path.isfile(pp) and os.path.isfile(mp):
                with open(mp) as f:
                    meta = json.load(f)
                out.append({"id": "benign-" + name, "props": meta.get("props") or [f"C{i:02d}" for i in range(1, 21)], "expect": "quiet", "patch": pp})
    return out


def run_variant(v: dict, repo: str) -> dict:
    tmp = tempfile.mkdtemp(prefix="vsa_")
    try:
        shutil.copytree(os.path.join(repo, "mappyfile"), os.path.join(tmp, "mappyfile"), ignore=shutil.ignore_patterns("__pycache__"))
        if v.get("patch"):
            p = subprocess.run(["patch", "-p1", "-s", "-i", v["patch"]], cwd=tmp, capture_output=True, text=True)
            if p.returncode != 0:
                return {"id": v["id"], "status": "stale", "detail": f"patch does not apply: {p.stdout[-200:]}"}
        edits = [] if v.get("patch") else (v.get("edits") or [{"file": v["file"], "old": v["old"], "new": v["new"]}])
        for ed in edits:
            path = os.path.join(tmp, "mappyfile", ed["file"])
            with open(path, encoding="utf-8") as f:
                src = f.read()
            n = src.count(ed["old"])
            if n != 1:
                return {"id": v["id"], "status": "stale", "detail": f"anchor text occurs {n} times in {ed['file']}"}
            src = src.replace(ed["old"], ed["new"])
            with open(path, "w", encoding="utf-8") as f:
                f.write(src)
            if path.endswith(".py"):
                try:
                    compile(src, path, "exec")
                except SyntaxError as ex:
                    return {"id": v["id"], "status": "stale", "detail": f"variant does not compile: {ex}"}
        env = dict(os.environ, VERIF_REPO=tmp, VERIF_EVIDENCE_DIR=os.path.join(tmp, "evidence"), VERIF_OUT_DIR=os.path.join(tmp, "out"))
        results = {}
        ok = True
        for prop in v["props"]:
            p = subprocess.run([sys.executable, "-m", "sa.check", prop], cwd=VERIF, env=env, capture_output=True, text=True, timeout=600)
            fired = p.returncode == 1 and "VIOLATION" in p.stdout
            results[prop] = {"rc": p.returncode, "fired": fired, "first": next((l for l in p.stdout.splitlines() if l.startswith("  rule=")), "")[:300] if fired else p.stdout.strip().splitlines()[-1:][0][:300] if p.stdout.strip() else p.stderr[-300:]}
            if v["expect"] == "fire":
                ok = ok and fired
            elif v["expect"] == "quiet":
                # no alarm: exit 0, or exit 2 (the analysis says it can no longer evaluate the changed code)
                ok = ok and p.returncode in (0, 2) and "VIOLATION" not in p.stdout
            else:
                ok = ok and p.returncode == 0
        return {"id": v["id"], "status": "pass" if ok else "FAIL", "expect": v["expect"], "results": results}
    finally:
        shutil.rmtree(tmp, ignore_errors=True)


def main(argv=None) -> int:
    ap = argparse.ArgumentParser()
    ap.add_argument("--prop", default=None)
    ap.add_argument("--id", default=None)
    ap.add_argument("--jobs", type=int, default=16)
    ap.add_argument("--list", action="store_true")
    ap.add_argument("--repo", default=os.environ.get("VERIF_REPO", "/repo"))
    ap.add_argument("--json", default=None)
    ap.add_argument("--benign", action="store_true", help="with --prop: include the benign refactorings, restricted to that property's check")
    args = ap.parse_args(argv)
    vs = load_variants()
    if args.prop:
        # own variants of that property; the all-property benign set only on request (--prop C12 --benign)
        vs = [dict(v, props=[args.prop.upper()]) if v["expect"] == "quiet" else v for v in vs if args.prop.upper() in v["props"] and (v["expect"] != "quiet" or args.benign)]
    if args.id:
        vs = [v for v in vs if v["id"] == args.id]
    if args.list:
        for v in vs:
            print(v["id"], v["expect"], v["props"])
        return 0
    t0 = time.time()
    res = []
    with cf.ThreadPoolExecutor(max_workers=args.jobs) as ex:
        for r in ex.map(lambda v: run_variant(v, args.repo), vs):
            res.append(r)
            flag = r["status"]
            rs = r.get("results", {})
            shown = rs if len(rs) <= 3 else {p: x for p, x in rs.items() if x["rc"] != 0}
            extra = f" ({len(rs) - len(shown)} checks exit 0)" if len(shown) != len(rs) else ""
            print(f"{flag:5} {r['id']}: " + (r.get("detail") or "; ".join(f"{p}: rc={x['rc']} {x['first']}" for p, x in shown.items())) + extra)
    bad = [r for r in res if r["status"] == "FAIL"]
    stale = [r for r in res if r["status"] == "stale"]
    print(f"{len(res)} variants, {len(bad)} FAIL, {len(stale)} stale, {time.time() - t0:.1f}s")
    if args.json:
        with open(args.json, "w") as f:
            json.dump(res, f, indent=1)
    return 1 if bad else 0


if __name__ == "__main__":
    sys.exit(main())
