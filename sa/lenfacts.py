"""Lower bounds on the length of a local work list, by forward dataflow over the structured AST.

For a local name that a function binds only to list displays and touches only through the list protocol
(append / pop / insert / extend / clear, subscripts, len(), truth tests, iteration), ``min_len_at`` gives,
for every statement, a number n such that the list holds at least n elements whenever control reaches the
statement - on every path, loops included (greatest fixpoint of a decreasing iteration over the finite
lattice 0..CAP).  The list escaping in any other way (alias, argument, closure) makes the answer None.

This decides "``stack[-1]`` cannot raise IndexError" for explicit-stack loops, where the fact is a loop
invariant and no dominating test exists.
"""

from __future__ import annotations

import ast

CAP = 4
_GROW = {"append": 1, "insert": 1}
_SHRINK = {"pop": 1, "remove": 1}
_KEEP = {"extend", "sort", "reverse", "index", "count", "copy"}


class _Escape(Exception):
    pass


def _uses_ok(fn: ast.FunctionDef, name: str) -> bool:
    """Every occurrence of ``name`` is a use through the list protocol."""
    parents: dict = {}
    for p in ast.walk(fn):
        for c in ast.iter_child_nodes(p):
            parents[c] = p
    if name in {a.arg for a in fn.args.posonlyargs + fn.args.args + fn.args.kwonlyargs} or (fn.args.vararg and fn.args.vararg.arg == name):
        return False
    for n in ast.walk(fn):
        if isinstance(n, (ast.FunctionDef, ast.Lambda, ast.AsyncFunctionDef)) and n is not fn:
            if any(isinstance(x, ast.Name) and x.id == name for x in ast.walk(n)):
                return False
        if isinstance(n, (ast.Global, ast.Nonlocal)) and name in n.names:
            return False
        if not (isinstance(n, ast.Name) and n.id == name):
            continue
        par = parents.get(n)
        if isinstance(n.ctx, ast.Store):
            if isinstance(par, ast.Assign) and n in par.targets and isinstance(par.value, ast.List) and not any(isinstance(e, ast.Starred) for e in par.value.elts):
                continue
            if isinstance(par, ast.AnnAssign) and par.target is n and isinstance(par.value, ast.List) and not any(isinstance(e, ast.Starred) for e in par.value.elts):
                continue
            return False
        if isinstance(n.ctx, ast.Del):
            return False
        if isinstance(par, ast.Attribute) and par.value is n:
            gp = parents.get(par)
            if isinstance(gp, ast.Call) and gp.func is par and par.attr in set(_GROW) | set(_SHRINK) | _KEEP | {"clear"}:
                continue
            return False
        if isinstance(par, ast.Subscript) and par.value is n:
            if isinstance(par.slice, ast.Slice) and not isinstance(par.ctx, ast.Load):
                return False  # slice assignment / deletion changes the length arbitrarily
            continue
        if isinstance(par, ast.Call) and n in par.args and isinstance(par.func, ast.Name) and par.func.id in ("len", "bool", "enumerate", "reversed", "iter", "list", "tuple", "sorted"):
            continue
        if isinstance(par, (ast.If, ast.While, ast.IfExp)) and par.test is n:
            continue
        if isinstance(par, ast.UnaryOp) and isinstance(par.op, ast.Not):
            continue
        if isinstance(par, ast.BoolOp):
            continue
        if isinstance(par, (ast.For, ast.comprehension)) and par.iter is n:
            continue
        if isinstance(par, ast.Return):
            continue
        return False
    return True


def _refine(test: ast.expr, name: str, lb: int, truth: bool) -> int:
    """Lower bound after ``test`` evaluated to ``truth``."""
    t = test
    while isinstance(t, ast.UnaryOp) and isinstance(t.op, ast.Not):
        t, truth = t.operand, not truth
    if isinstance(t, ast.Name) and t.id == name:
        return max(lb, 1) if truth else lb
    if isinstance(t, ast.BoolOp):
        if isinstance(t.op, ast.And) and truth or isinstance(t.op, ast.Or) and not truth:
            for v in t.values:
                lb = _refine(v, name, lb, truth)
        return lb
    if isinstance(t, ast.Compare) and len(t.ops) == 1 and isinstance(t.left, ast.Call) and isinstance(t.left.func, ast.Name) and t.left.func.id == "len" and len(t.left.args) == 1 and isinstance(t.left.args[0], ast.Name) and t.left.args[0].id == name and isinstance(t.comparators[0], ast.Constant) and isinstance(t.comparators[0].value, int):
        c = t.comparators[0].value
        op = type(t.ops[0])
        lo = {ast.Gt: c + 1, ast.GtE: c, ast.Eq: c}.get(op) if truth else {ast.Lt: c, ast.LtE: c + 1, ast.NotEq: None}.get(op)
        if lo is not None:
            return min(CAP, max(lb, lo))
    return lb


def _always_true(test: ast.expr) -> bool:
    return isinstance(test, ast.Constant) and bool(test.value)


def min_len_at(fn: ast.FunctionDef, name: str) -> dict | None:
    """id(statement) -> proven lower bound of len(name) on entry to the statement; None if ``name`` is not a
    local work list of ``fn``."""
    if not _uses_ok(fn, name):
        return None
    rec: dict = {}
    UNBOUND = -1  # before the first binding: reading it raises NameError, not IndexError; treated as 0

    def expr_effect(node: ast.AST, lb: int) -> int:
        """Net effect of the calls inside one simple statement / expression (evaluation order ignored:
        shrinking is applied first, so the bound is sound for every sub-expression)."""
        grow = shrink = 0
        clear = False
        for n in ast.walk(node):
            if isinstance(n, ast.Call) and isinstance(n.func, ast.Attribute) and isinstance(n.func.value, ast.Name) and n.func.value.id == name:
                a = n.func.attr
                grow += _GROW.get(a, 0)
                shrink += _SHRINK.get(a, 0)
                clear = clear or a == "clear"
        if clear:
            return 0
        return min(CAP, max(0, lb - shrink) + grow)

    class Flow:
        def __init__(self):
            self.brk: list = []
            self.cont: list = []

    def meet(vals: list) -> int | None:
        vals = [v for v in vals if v is not None]
        return min(vals) if vals else None

    def block(stmts: list, lb: int | None, fl: Flow, trace: list | None) -> int | None:
        for st in stmts:
            if lb is None:
                return None  # unreachable
            lb = stmt(st, lb, fl, trace)
            if trace is not None and lb is not None:
                trace.append(lb)
        return lb

    def stmt(st: ast.stmt, lb: int, fl: Flow, trace: list | None) -> int | None:
        rec[id(st)] = min(rec.get(id(st), CAP), max(lb, 0))
        if isinstance(st, (ast.Assign, ast.AnnAssign)):
            tg = st.targets if isinstance(st, ast.Assign) else [st.target]
            lb2 = expr_effect(st, max(lb, 0))
            if any(isinstance(t, ast.Name) and t.id == name for t in tg) and isinstance(st.value, ast.List):
                return min(CAP, len(st.value.elts))
            return lb2
        if isinstance(st, (ast.Expr, ast.AugAssign, ast.Assert, ast.Delete, ast.Pass, ast.Import, ast.ImportFrom, ast.Global, ast.Nonlocal)):
            return expr_effect(st, max(lb, 0))
        if isinstance(st, (ast.Return, ast.Raise)):
            return None
        if isinstance(st, ast.Break):
            fl.brk.append(lb)
            return None
        if isinstance(st, ast.Continue):
            fl.cont.append(lb)
            return None
        if isinstance(st, ast.If):
            lb = expr_effect(st.test, max(lb, 0))
            a = block(st.body, _refine(st.test, name, lb, True), fl, trace)
            b = block(st.orelse, _refine(st.test, name, lb, False), fl, trace)
            return meet([a, b])
        if isinstance(st, (ast.While, ast.For)):
            head = max(lb, 0)
            test = st.test if isinstance(st, ast.While) else None
            while True:
                inner = Flow()
                h = expr_effect(test, head) if test is not None else head
                body_in = _refine(test, name, h, True) if test is not None else h
                end = block(st.body, body_in, inner, trace)
                new_head = meet([max(lb, 0), end] + inner.cont)
                if new_head == head:
                    break
                head = new_head
            exits = list(inner.brk)
            if not (test is not None and _always_true(test)):
                h = expr_effect(test, head) if test is not None else head
                out = _refine(test, name, h, False) if test is not None else h
                exits.append(block(st.orelse, out, fl, trace) if st.orelse else out)
            return meet(exits)
        if isinstance(st, (ast.With, ast.AsyncWith)):
            for it in st.items:
                lb = expr_effect(it.context_expr, max(lb, 0))
            return block(st.body, lb, fl, trace)
        if isinstance(st, ast.Try):
            tr: list = [max(lb, 0)]
            a = block(st.body, lb, fl, tr)
            if trace is not None:
                trace.extend(tr)
            outs = []
            if a is not None:
                outs.append(block(st.orelse, a, fl, trace) if st.orelse else a)
            hin = min(tr)
            for h in st.handlers:
                outs.append(block(h.body, hin, fl, trace))
            r = meet(outs)
            if st.finalbody:
                fin_in = meet([r, hin])
                r2 = block(st.finalbody, fin_in if fin_in is not None else hin, fl, trace)
                return r2 if r is not None else None
            return r
        if isinstance(st, (ast.FunctionDef, ast.AsyncFunctionDef, ast.ClassDef)):
            return lb
        if isinstance(st, ast.Match):
            raise _Escape()
        return expr_effect(st, max(lb, 0))

    try:
        block(fn.body, 0, Flow(), None)
    except _Escape:
        return None
    return rec


def enclosing_stmt(fn: ast.FunctionDef, node: ast.AST) -> ast.stmt | None:
    """Innermost statement whose own expressions (not its nested blocks) contain ``node``."""
    best = None
    for st in ast.walk(fn):
        if not isinstance(st, ast.stmt):
            continue
        own: list = []
        for fld, val in ast.iter_fields(st):
            if fld in ("body", "orelse", "finalbody", "handlers"):
                continue
            own += [v for v in (val if isinstance(val, list) else [val]) if isinstance(v, ast.AST)]
        if any(node is x for o in own for x in ast.walk(o)):
            best = st
    return best


_SELF_CASES = [
    # (source, subscripted name, line of the statement, expected lower bound)
    ("def f(t):\n s = [t]\n while True:\n  x = s[-1]\n  if x.more:\n   s.append(x.next)\n   continue\n  s.pop()\n  if not s:\n   return x\n  s[-1].v = x\n", "s", 4, 1),
    ("def f(t):\n s = [t]\n while True:\n  x = s[-1]\n  if x.more:\n   s.append(x.next)\n   continue\n  s.pop()\n  if x.done:\n   return x\n  s[-1].v = x\n", "s", 4, 0),
    ("def f(t):\n s = [t]\n while True:\n  x = s[-1]\n  if x.more:\n   s.append(x.next)\n   continue\n  s.pop()\n  if x.done:\n   return x\n  s[-1].v = x\n", "s", 11, 0),
    ("def f(t):\n s = []\n for a in t:\n  s.append(a)\n y = s[0]\n", "s", 5, 0),
    ("def f(t):\n s = [t]\n g(s)\n y = s[0]\n", "s", 4, None),
    ("def f(t):\n s = [t, t]\n try:\n  s.pop()\n  h()\n except E:\n  y = s[1]\n", "s", 7, 1),
]


def self_check() -> int:
    """The analysis on embedded cases with known answers (two of them unsafe): run by every client."""
    for src, name, line, want in _SELF_CASES:
        fn = ast.parse(src).body[0]
        got = min_len_at(fn, name)  # type: ignore[arg-type]
        if want is None:
            if got is not None:
                raise AssertionError(f"lenfacts: escaping list accepted in {src!r}")
            continue
        st = next(s for s in ast.walk(fn) if isinstance(s, ast.stmt) and s.lineno == line and s is not fn)
        if got is None or got.get(id(st)) != want:
            raise AssertionError(f"lenfacts: line {line} of {src!r}: bound {None if got is None else got.get(id(st))}, expected {want}")
    return len(_SELF_CASES)
