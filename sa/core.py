"""E6 + loader: repository access, constant folding, rule context, evidence, known findings."""

from __future__ import annotations

import ast
import hashlib
import json
import os
import sys
import time
from dataclasses import dataclass, field
from typing import Any, Callable, Iterable

VERIF = os.path.dirname(os.path.dirname(os.path.abspath(__file__)))
REPO = os.environ.get("VERIF_REPO", "/repo")
PKG_NAME = "mappyfile"

PY_MODULES = (
    "__init__",
    "cli",
    "dictutils",
    "ordereddict",
    "parser",
    "pprint",
    "quoter",
    "tokens",
    "transformer",
    "utils",
    "validator",
)


class AnalysisError(Exception):
    """The analysis itself cannot proceed (vanished anchor, unsupported construct, ...).

    Never reported as a VIOLATION: the run exits 2 with an ANALYSIS-ERROR line.
    """


class UnorderedIteration(AnalysisError):
    """The interpreted code iterates a set where the order matters."""


def pkg_dir() -> str:
    return os.path.join(REPO, PKG_NAME)


# ---------------------------------------------------------------------------------------------
# Python modules
# ---------------------------------------------------------------------------------------------


@dataclass
class ModuleInfo:
    name: str
    path: str
    src: str
    tree: ast.Module
    functions: dict[str, ast.FunctionDef] = field(default_factory=dict)
    classes: dict[str, ast.ClassDef] = field(default_factory=dict)
    methods: dict[str, dict[str, ast.FunctionDef]] = field(default_factory=dict)
    class_aliases: dict[str, dict[str, str]] = field(default_factory=dict)  # cls -> alias -> method
    class_bindings: dict[str, dict[str, ast.expr]] = field(default_factory=dict)  # cls -> name -> class-body value
    imports: dict[str, tuple[str, str | None]] = field(default_factory=dict)
    assigns: dict[str, ast.expr] = field(default_factory=dict)

    def rel(self) -> str:
        return f"{PKG_NAME}/{self.name}.py"


class Repo:
    """Parsed view of the package's Python sources as they are on disk now."""

    def __init__(self, root: str | None = None):
        self.root = root or REPO
        self.pkg = os.path.join(self.root, PKG_NAME)
        self.modules: dict[str, ModuleInfo] = {}
        names = list(PY_MODULES)
        for fn in sorted(os.listdir(self.pkg)):
            if fn.endswith(".py") and fn[:-3] not in names:
                names.append(fn[:-3])  # cover modules added after the pinned commit
        for name in names:
            path = os.path.join(self.pkg, name + ".py")
            if not os.path.isfile(path):
                if name in PY_MODULES:
                    raise AnalysisError(f"module {PKG_NAME}/{name}.py vanished")
                continue
            with open(path, encoding="utf-8") as f:
                src = f.read()
            try:
                tree = ast.parse(src, filename=path)
            except SyntaxError as ex:
                raise AnalysisError(f"{path} does not parse: {ex}") from ex
            mi = ModuleInfo(name, path, src, tree)
            self._index(mi)
            self.modules[name] = mi

    # -- indexing ---------------------------------------------------------------------------

    def _index(self, mi: ModuleInfo) -> None:
        def scan(body: list[ast.stmt]) -> None:
            for node in body:
                if isinstance(node, (ast.FunctionDef, ast.AsyncFunctionDef)):
                    mi.functions[node.name] = node  # type: ignore[assignment]
                elif isinstance(node, ast.ClassDef):
                    mi.classes[node.name] = node
                    meths: dict[str, ast.FunctionDef] = {}
                    aliases: dict[str, str] = {}
                    for sub in node.body:
                        if isinstance(sub, ast.FunctionDef):
                            meths[sub.name] = sub
                        elif (
                            isinstance(sub, ast.Assign)
                            and len(sub.targets) == 1
                            and isinstance(sub.targets[0], ast.Name)
                            and isinstance(sub.value, ast.Name)
                        ):
                            aliases[sub.targets[0].id] = sub.value.id
                    mi.methods[node.name] = meths
                    mi.class_aliases[node.name] = aliases
                    binds: dict[str, ast.expr] = {}
                    for sub in node.body:
                        tg = sub.targets if isinstance(sub, ast.Assign) else [sub.target] if isinstance(sub, ast.AnnAssign) and sub.value is not None else []
                        for t in tg:
                            if isinstance(t, ast.Name):
                                binds[t.id] = sub.value  # type: ignore[assignment]
                    mi.class_bindings[node.name] = binds
                elif isinstance(node, ast.Import):
                    for a in node.names:
                        mi.imports[(a.asname or a.name).split(".")[0]] = (a.name, None)
                elif isinstance(node, ast.ImportFrom):
                    mod = ("." * node.level) + (node.module or "")
                    for a in node.names:
                        mi.imports[a.asname or a.name] = (mod, a.name)
                elif isinstance(node, ast.Assign):
                    for t in node.targets:
                        if isinstance(t, ast.Name):
                            mi.assigns[t.id] = node.value
                elif isinstance(node, ast.AnnAssign):
                    if isinstance(node.target, ast.Name) and node.value is not None:
                        mi.assigns[node.target.id] = node.value
                elif isinstance(node, (ast.If, ast.Try)):
                    # module-level conditionals (lark_cython switch): index every branch
                    for blk in _blocks(node):
                        scan(blk)

        scan(mi.tree.body)
        # class-body aliases of module-level functions (``string = _first_child``): the function is the method
        for cname, aliases in mi.class_aliases.items():
            for alias, target in list(aliases.items()):
                if target not in mi.methods[cname] and target in mi.functions:
                    mi.methods[cname][alias] = mi.functions[target]
                    del aliases[alias]
        # class-body methods made by a module-level factory (``metadata = _pairs_rule("metadata")``): the
        # closure the factory returns, with the factory's constant arguments substituted, is the method
        for cname, binds in mi.class_bindings.items():
            for name, value in binds.items():
                if name in mi.methods[cname] or not (isinstance(value, ast.Call) and isinstance(value.func, ast.Name) and value.func.id in mi.functions):
                    continue
                fn = specialise_factory(mi.functions[value.func.id], value, name)
                if fn is not None:
                    mi.methods[cname][name] = fn

    # -- lookup ------------------------------------------------------------------------------

    def module(self, name: str) -> ModuleInfo:
        if name not in self.modules:
            raise AnalysisError(f"anchor vanished: module {name}")
        return self.modules[name]

    def func(self, qual: str) -> ast.FunctionDef:
        """``module.func`` or ``module.Class.method`` (class aliases ``attr = _save_x`` followed)."""
        parts = qual.split(".")
        mi = self.module(parts[0])
        if len(parts) == 2:
            if parts[1] not in mi.functions:
                raise AnalysisError(f"anchor vanished: function {qual}")
            return mi.functions[parts[1]]
        if len(parts) == 3:
            cls, meth = parts[1], parts[2]
            if cls not in mi.methods:
                raise AnalysisError(f"anchor vanished: class {parts[0]}.{cls}")
            meth = mi.class_aliases[cls].get(meth, meth)
            if meth not in mi.methods[cls]:
                raise AnalysisError(f"anchor vanished: method {qual}")
            return mi.methods[cls][meth]
        raise AnalysisError(f"bad qualified name {qual}")

    def has_func(self, qual: str) -> bool:
        try:
            self.func(qual)
            return True
        except AnalysisError:
            return False

    def cls(self, qual: str) -> ast.ClassDef:
        mod, name = qual.split(".")
        mi = self.module(mod)
        if name not in mi.classes:
            raise AnalysisError(f"anchor vanished: class {qual}")
        return mi.classes[name]

    def all_functions(self) -> Iterable[tuple[str, ast.FunctionDef]]:
        for mname, mi in self.modules.items():
            for fname, fn in mi.functions.items():
                yield f"{mname}.{fname}", fn
            for cname, meths in mi.methods.items():
                for meth, fn in meths.items():
                    yield f"{mname}.{cname}.{meth}", fn

    def loc(self, mod: str, node: ast.AST | None) -> str:
        line = getattr(node, "lineno", 0) if node is not None else 0
        return f"{PKG_NAME}/{mod}.py:{line}"

    # -- constants ---------------------------------------------------------------------------

    def const(self, mod: str, name: str) -> Any:
        mi = self.module(mod)
        if name not in mi.assigns:
            if name in mi.imports:
                # the table lives in another module of the package and is imported here
                try:
                    return self._const_lookup(mi, name)
                except NotConstant:
                    pass
            raise AnalysisError(f"anchor vanished: constant {mod}.{name}")
        return self._fold_or_eval(mi, name)

    def _fold_or_eval(self, mi: ModuleInfo, name: str) -> Any:
        """Value of a module-level table: constant folding first; where the table is built by code fold()
        does not cover (a multi-statement helper, a NamedTuple registry ...) the module-level expression is
        evaluated by the abstract interpreter and accepted when the result is fully concrete."""
        try:
            return fold(mi.assigns[name], lambda n: self._const_lookup(mi, n))
        except NotConstant as ex:
            memo = self.__dict__.setdefault("_eval_memo", {})
            key = (mi.name, name)
            if key not in memo:
                memo[key] = self._eval_const(mi, name)
            if memo[key] is _NOT_CONCRETE:
                raise ex
            return memo[key]

    def _eval_const(self, mi: ModuleInfo, name: str) -> Any:
        from . import pai
        from .pyfacts import Facts

        busy = self.__dict__.setdefault("_eval_busy", set())
        if (mi.name, name) in busy:
            return _NOT_CONCRETE
        busy.add((mi.name, name))
        try:
            facts = self.__dict__.get("_eval_facts")
            if facts is None:
                facts = self.__dict__["_eval_facts"] = Facts(self)
            I = pai.Interp(self, facts, stubs={})
            fr = pai.Frame(I, f"{mi.name}.<module>", None, {})
            return _concrete(fr.eval(mi.assigns[name]), pai)
        except (AnalysisError, NotConstant, pai.PyExc, RecursionError):
            return _NOT_CONCRETE
        finally:
            busy.discard((mi.name, name))

    def _const_lookup(self, mi: ModuleInfo, name: str) -> Any:
        if name in mi.functions and name not in mi.assigns:
            return mi.functions[name]  # fold() inlines single-return helpers
        if name in mi.assigns:
            return self._fold_or_eval(mi, name)
        if name in mi.imports:
            m, n = mi.imports[name]
            m = m.lstrip(".")
            if m.startswith(PKG_NAME + "."):
                m = m[len(PKG_NAME) + 1 :]
            if n and m in self.modules:
                return self.const(m, n)
        raise NotConstant(name)

    def digest(self) -> str:
        h = hashlib.sha256()
        for name in sorted(self.modules):
            h.update(self.modules[name].src.encode())
        return h.hexdigest()[:16]


def _blocks(node: ast.stmt) -> list[list[ast.stmt]]:
    out = []
    for fld in ("body", "orelse", "finalbody"):
        b = getattr(node, fld, None)
        if b:
            out.append(b)
    for h in getattr(node, "handlers", []) or []:
        out.append(h.body)
    return out


class NotConstant(Exception):
    pass


_NOT_CONCRETE = object()


def specialise_factory(factory: ast.FunctionDef, call: ast.Call, name: str) -> ast.FunctionDef | None:
    """``name = factory(c1, c2)`` where ``factory`` only defines one nested function, decorates it with
    dunder attributes and returns it, and every argument is a literal: the nested function with the
    factory's parameters replaced by those literals (closure conversion).  None when the shape differs."""
    a = factory.args
    if factory.decorator_list or a.vararg or a.kwarg or a.posonlyargs and False:
        return None
    body = [st for st in factory.body if not (isinstance(st, ast.Expr) and isinstance(st.value, ast.Constant))]
    inner = [st for st in body if isinstance(st, ast.FunctionDef)]
    if len(inner) != 1 or not body or not isinstance(body[-1], ast.Return):
        return None
    fn = inner[0]
    ret = body[-1].value
    if not (isinstance(ret, ast.Name) and ret.id == fn.name) or fn.decorator_list:
        return None
    for st in body[:-1]:
        if st is fn:
            continue
        ok = (
            isinstance(st, ast.Assign)
            and len(st.targets) == 1
            and isinstance(st.targets[0], ast.Attribute)
            and isinstance(st.targets[0].value, ast.Name)
            and st.targets[0].value.id == fn.name
            and st.targets[0].attr in ("__name__", "__qualname__", "__doc__", "__module__")
        )
        if not ok:
            return None
    params = [p.arg for p in a.posonlyargs + a.args] + [p.arg for p in a.kwonlyargs]
    given: dict[str, ast.expr] = {}
    pos = [p.arg for p in a.posonlyargs + a.args]
    if len(call.args) > len(pos) or any(isinstance(x, ast.Starred) for x in call.args):
        return None
    for p, v in zip(pos, call.args):
        given[p] = v
    for k in call.keywords:
        if k.arg is None or k.arg not in params or k.arg in given:
            return None
        given[k.arg] = k.value
    dflts = dict(zip(pos[len(pos) - len(a.defaults) :], a.defaults))
    dflts.update({p.arg: d for p, d in zip(a.kwonlyargs, a.kw_defaults) if d is not None})
    for p in params:
        if p not in given:
            if p not in dflts:
                return None
            given[p] = dflts[p]
    if not all(isinstance(v, ast.Constant) for v in given.values()):
        return None
    own = {p.arg for p in fn.args.posonlyargs + fn.args.args + fn.args.kwonlyargs}
    if fn.args.vararg:
        own.add(fn.args.vararg.arg)
    if fn.args.kwarg:
        own.add(fn.args.kwarg.arg)
    for n in ast.walk(fn):
        if isinstance(n, (ast.Nonlocal, ast.Global)):
            return None
        if isinstance(n, ast.Name) and isinstance(n.ctx, (ast.Store, ast.Del)) and n.id in given:
            own.add(n.id)  # rebound inside: a local of the nested function, not the captured parameter
    import copy as _copy

    class Sub(ast.NodeTransformer):
        def visit_Name(self, n: ast.Name):
            if isinstance(n.ctx, ast.Load) and n.id in given and n.id not in own:
                return ast.copy_location(ast.Constant(value=given[n.id].value), n)  # type: ignore[attr-defined]
            return n

    out = Sub().visit(_copy.deepcopy(fn))
    out.name = name
    ast.fix_missing_locations(out)
    return out


def _concrete(v: Any, pai) -> Any:
    """Analyser value -> plain Python constant (raises NotConstant when any part is symbolic)."""
    if v is None or isinstance(v, (bool, int, float, str, bytes)):
        return v
    if isinstance(v, pai.NTup):
        return pai.NTup(v.cls, v.fields, [_concrete(x, pai) for x in v])
    if isinstance(v, tuple):
        return tuple(_concrete(x, pai) for x in v)
    if isinstance(v, list):
        return [_concrete(x, pai) for x in v]
    if isinstance(v, (set, frozenset)):
        return frozenset(_concrete(x, pai) for x in v)
    if isinstance(v, dict):
        return {_concrete(k, pai): _concrete(x, pai) for k, x in v.items()}
    raise NotConstant(repr(v)[:60])


def fold(node: ast.expr, lookup: Callable[[str], Any] | None = None) -> Any:
    """Constant folding of the table idioms of tokens.py / parser.py / pprint.py: literals, displays
    (with *unpacking), set / sequence algebra, str.split and friends, dict views, comprehensions over
    folded iterables, and calls of module-level helper functions whose body is a single return."""
    if isinstance(node, ast.Constant):
        return node.value
    if isinstance(node, (ast.Tuple, ast.List, ast.Set)):
        items = []
        for e in node.elts:
            if isinstance(e, ast.Starred):
                items.extend(fold(e.value, lookup))
            else:
                items.append(fold(e, lookup))
        return tuple(items) if isinstance(node, ast.Tuple) else items if isinstance(node, ast.List) else frozenset(items)
    if isinstance(node, ast.Dict):
        out = {}
        for k, v in zip(node.keys, node.values):
            if k is None:
                out.update(fold(v, lookup))
            else:
                out[fold(k, lookup)] = fold(v, lookup)
        return out
    if isinstance(node, ast.Name):
        if lookup is None:
            raise NotConstant(node.id)
        return lookup(node.id)
    if isinstance(node, ast.BinOp):
        ops = {ast.BitOr: lambda a, b: a | b, ast.BitAnd: lambda a, b: a & b, ast.Sub: lambda a, b: a - b, ast.BitXor: lambda a, b: a ^ b, ast.Add: lambda a, b: a + b, ast.Mult: lambda a, b: a * b}
        f = ops.get(type(node.op))
        if f is not None:
            try:
                return f(fold(node.left, lookup), fold(node.right, lookup))
            except TypeError as ex:
                raise NotConstant(str(ex))
    if isinstance(node, ast.UnaryOp) and isinstance(node.op, (ast.USub, ast.Not)):
        v = fold(node.operand, lookup)
        return -v if isinstance(node.op, ast.USub) else (not v)
    if isinstance(node, ast.Compare) and len(node.ops) == 1:
        a, b = fold(node.left, lookup), fold(node.comparators[0], lookup)
        cmp = {ast.Eq: lambda: a == b, ast.NotEq: lambda: a != b, ast.In: lambda: a in b, ast.NotIn: lambda: a not in b, ast.Lt: lambda: a < b, ast.LtE: lambda: a <= b, ast.Gt: lambda: a > b, ast.GtE: lambda: a >= b}.get(type(node.ops[0]))
        if cmp is not None:
            return cmp()
    if isinstance(node, ast.BoolOp):
        vals = [fold(v, lookup) for v in node.values]
        return all(vals) if isinstance(node.op, ast.And) else any(vals)
    if isinstance(node, ast.IfExp):
        return fold(node.body, lookup) if fold(node.test, lookup) else fold(node.orelse, lookup)
    if isinstance(node, ast.Subscript) and not isinstance(node.slice, ast.Slice):
        try:
            return fold(node.value, lookup)[fold(node.slice, lookup)]
        except (KeyError, IndexError, TypeError) as ex:
            raise NotConstant(str(ex))
    if isinstance(node, (ast.ListComp, ast.SetComp, ast.GeneratorExp, ast.DictComp)):
        results: list = []

        def rec(gi: int, env: dict):
            lk = lambda n: env[n] if n in env else (lookup(n) if lookup else (_ for _ in ()).throw(NotConstant(n)))
            if gi == len(node.generators):
                results.append((fold(node.key, lk), fold(node.value, lk)) if isinstance(node, ast.DictComp) else fold(node.elt, lk))
                return
            g = node.generators[gi]
            for item in fold(g.iter, lk):
                env2 = dict(env)
                _bind_target(g.target, item, env2)
                lk2 = lambda n, env2=env2: env2[n] if n in env2 else (lookup(n) if lookup else (_ for _ in ()).throw(NotConstant(n)))
                if all(fold(c, lk2) for c in g.ifs):
                    rec(gi + 1, env2)

        rec(0, {})
        if isinstance(node, ast.DictComp):
            return dict(results)
        return frozenset(results) if isinstance(node, ast.SetComp) else list(results)
    if isinstance(node, ast.Call):
        f = node.func
        ctors = {"frozenset": frozenset, "set": frozenset, "tuple": tuple, "list": list, "sorted": sorted, "dict": dict, "len": len}
        if isinstance(f, ast.Name) and f.id in ctors and not node.keywords:
            if not node.args:
                return ctors[f.id]()
            return ctors[f.id](fold(node.args[0], lookup))
        if isinstance(f, ast.Name) and lookup is not None:
            target = lookup(f.id)
            if isinstance(target, ast.FunctionDef):
                body = [st for st in target.body if not (isinstance(st, ast.Expr) and isinstance(st.value, ast.Constant))]
                if len(body) == 1 and isinstance(body[0], ast.Return) and body[0].value is not None and not node.keywords and not target.args.vararg and not target.args.kwarg:
                    params = [a.arg for a in target.args.args]
                    if len(node.args) <= len(params):
                        env = {p: fold(a, lookup) for p, a in zip(params, node.args)}
                        dflt = target.args.defaults
                        for p, d in zip(params[len(params) - len(dflt) :], dflt):
                            env.setdefault(p, fold(d, lookup))
                        if set(env) == set(params):
                            return fold(body[0].value, lambda n: env[n] if n in env else lookup(n))
        if isinstance(f, ast.Attribute) and not node.keywords:
            recv = fold(f.value, lookup)
            args = [fold(a, lookup) for a in node.args]
            if isinstance(recv, str) and f.attr in ("split", "lower", "upper", "strip", "splitlines", "replace"):
                return getattr(recv, f.attr)(*args)
            if isinstance(recv, frozenset) and f.attr in ("union", "intersection", "difference"):
                return getattr(recv, f.attr)(*args)
            if isinstance(recv, dict) and f.attr in ("keys", "values", "items"):
                return list(getattr(recv, f.attr)())
    raise NotConstant(ast.dump(node)[:80])


def _bind_target(t: ast.expr, v: Any, env: dict) -> None:
    if isinstance(t, ast.Name):
        env[t.id] = v
    elif isinstance(t, (ast.Tuple, ast.List)):
        vs = list(v)
        if len(vs) != len(t.elts):
            raise NotConstant("unpack")
        for e, x in zip(t.elts, vs):
            _bind_target(e, x, env)
    else:
        raise NotConstant("target")


def src_of(node: ast.AST) -> str:
    try:
        return ast.unparse(node)
    except Exception:  # pragma: no cover
        return ast.dump(node)[:120]


_NORM_CACHE: dict[int, tuple] = {}


def norm(node: ast.AST) -> str:
    """Normalised statement / expression text: findings are keyed by this, never by line."""
    hit = _NORM_CACHE.get(id(node))
    if hit is not None and hit[0] is node:
        return hit[1]
    txt = " ".join(src_of(node).split())
    _NORM_CACHE[id(node)] = (node, txt)
    return txt


# ---------------------------------------------------------------------------------------------
# Rule context
# ---------------------------------------------------------------------------------------------


@dataclass
class Instance:
    rule: str
    construct: str
    status: str  # ok | finding | error
    loc: str = ""
    detail: str = ""
    nontrivial: bool = True
    data: Any = None

    @property
    def key(self) -> str:
        return f"{self.rule} | {self.construct}"

    def as_dict(self) -> dict:
        d = {"rule": self.rule, "construct": self.construct, "status": self.status, "loc": self.loc}
        if self.detail:
            d["detail"] = self.detail
        if self.data is not None:
            d["data"] = self.data
        return d


class Ctx:
    def __init__(self, prop: str, tier: str, repo: Repo):
        self.prop = prop
        self.tier = tier
        self.repo = repo
        self.instances: list[Instance] = []
        self.units: dict[str, Any] = {}
        self.rules: dict[str, str] = {}  # rule id -> one-line statement of the rule
        self.floors: dict[str, int] = {}
        self.trusted: list[str] = []
        self.assumptions: list[str] = []
        self.not_decided: list[str] = []
        self.notes: list[str] = []

    def rule(self, rid: str, text: str, floor: int = 1) -> None:
        self.rules[rid] = text
        self.floors[rid] = floor

    def ok(self, rule: str, construct: str, loc: str = "", detail: str = "", nontrivial: bool = True, data: Any = None) -> None:
        self.instances.append(Instance(rule, construct, "ok", loc, detail, nontrivial, data))

    def finding(self, rule: str, construct: str, loc: str = "", detail: str = "", data: Any = None) -> None:
        self.instances.append(Instance(rule, construct, "finding", loc, detail, True, data))

    def check(self, cond: bool, rule: str, construct: str, loc: str = "", ok: str = "", bad: str = "", data: Any = None, nontrivial: bool = True) -> bool:
        if cond:
            self.ok(rule, construct, loc, ok, nontrivial, data)
        else:
            self.finding(rule, construct, loc, bad or ok, data)
        return cond


# ---------------------------------------------------------------------------------------------
# Known findings
# ---------------------------------------------------------------------------------------------


def load_known() -> tuple[dict[tuple[str, str], str], list[str]]:
    path = os.path.join(VERIF, "known_findings.json")
    if not os.path.isfile(path):
        return {}, []
    with open(path, encoding="utf-8") as f:
        data = json.load(f)
    known = {}
    for e in data.get("known", []):
        known[(e["property"], e["key"])] = e.get("what", "")
    return known, list(data.get("fixed", []))


# ---------------------------------------------------------------------------------------------
# Runner
# ---------------------------------------------------------------------------------------------


def run_property(prop: str, tier: str, run: Callable[[Ctx], None], meta: dict) -> int:
    t0 = time.time()
    seed = int(os.environ.get("VERIF_SEED", "0") or 0)
    evidence_path = os.path.join(os.environ.get("VERIF_EVIDENCE_DIR") or os.path.join(VERIF, "evidence"), f"{prop}.json")
    os.makedirs(os.path.dirname(evidence_path), exist_ok=True)
    out_dir = os.environ.get("VERIF_OUT_DIR") or os.path.join(VERIF, "out")
    ctx = None
    try:
        repo = Repo()
        ctx = Ctx(prop, tier, repo)
        try:
            run(ctx)
        except AnalysisError as ex:
            # a violation already established stays a violation; the analysis gap is reported with it
            known0, _ = load_known()
            if any(i.status == "finding" and (prop, i.key) not in known0 for i in ctx.instances):
                print(f"ANALYSIS-INCOMPLETE property={prop} {ex} (violations found before this point are reported)")
                ctx.notes.append(f"analysis incomplete: {ex}")
                ctx.floors = {}
            else:
                raise
        # floors: a rule that matches (almost) nothing passes vacuously forever
        counts: dict[str, int] = {}
        for inst in ctx.instances:
            counts[inst.rule] = counts.get(inst.rule, 0) + 1
        has_finding = {i.rule for i in ctx.instances if i.status == "finding"}
        for rid, floor in ctx.floors.items():
            if counts.get(rid, 0) < floor and rid not in has_finding:
                raise AnalysisError(
                    f"rule {rid} examined {counts.get(rid, 0)} instance(s), fewer than the floor {floor} "
                    f"confirmed on the pinned tree (anchors moved or vanished)"
                )
    except AnalysisError as ex:
        print(f"ANALYSIS-ERROR property={prop} {ex}")
        _write_evidence(evidence_path, prop, tier, seed, meta, None, time.time() - t0, error=str(ex))
        return 2
    except Exception as ex:  # a traceback must not look like a violation
        import traceback

        traceback.print_exc()
        print(f"ANALYSIS-ERROR property={prop} internal error: {type(ex).__name__}: {ex}")
        _write_evidence(evidence_path, prop, tier, seed, meta, None, time.time() - t0, error=repr(ex))
        return 2

    known, _fixed = load_known()
    findings = [i for i in ctx.instances if i.status == "finding"]
    new: list[Instance] = []
    seen_known: list[tuple[Instance, str]] = []
    seen_keys = set()
    for f in findings:
        if f.key in seen_keys:
            continue
        seen_keys.add(f.key)
        if (prop, f.key) in known:
            seen_known.append((f, known[(prop, f.key)]))
        else:
            new.append(f)
    for f, what in seen_known:
        print(f"KNOWN-FINDING: property={prop} {f.key} -- {what or f.detail}")
    rc = 0
    if new:
        os.makedirs(out_dir, exist_ok=True)
        for n, f in enumerate(new):
            rp = os.path.join(out_dir, f"{prop}.{n}.json")
            with open(rp, "w", encoding="utf-8") as fh:
                json.dump({"property": prop, "key": f.key, **f.as_dict()}, fh, indent=1, default=str)
            print(f"VIOLATION property={prop} replay={rp}")
            print(f"  rule={f.rule} construct={f.construct} at {f.loc}: {f.detail}")
        rc = 1
    if tier == "thorough" and not os.environ.get("VERIF_REPO"):
        # non-gating self-validation of the checker: seeded variants of the current tree (DESIGN 6)
        try:
            ctx.units["self_validation"] = _self_validation(prop)
        except Exception as ex:  # never gate on it
            ctx.units["self_validation"] = {"error": repr(ex)}
    wall = time.time() - t0
    _write_evidence(evidence_path, prop, tier, seed, meta, ctx, wall, new=new, known_seen=seen_known)
    n_ok = sum(1 for i in ctx.instances if i.status == "ok")
    print(
        f"{prop} [{tier}] rules={len(ctx.rules)} instances={len(ctx.instances)} ok={n_ok} "
        f"known={len(seen_known)} new={len(new)} wall={wall:.2f}s"
    )
    return rc


def _self_validation(prop: str) -> dict:
    import subprocess
    import tempfile

    with tempfile.NamedTemporaryFile(suffix=".json", delete=False) as tf:
        out = tf.name
    try:
        env = {k: v for k, v in os.environ.items() if k not in ("VERIF_TIER",)}
        env["VERIF_TIER"] = "quick"
        subprocess.run([sys.executable, "-m", "sa.selftest", "--prop", prop, "--benign", "--json", out, "--jobs", "16"], cwd=VERIF, env=env, capture_output=True, text=True, timeout=3000)
        with open(out) as f:
            res = json.load(f)
    finally:
        if os.path.exists(out):
            os.unlink(out)
    fire = [r for r in res if r.get("expect") == "fire"]
    silent = [r for r in res if r.get("expect") == "silent"]
    quiet = [r for r in res if r.get("expect") == "quiet"]
    return {
        "behaviour_preserving_patches": len(quiet),
        "no_violation_reported_on": sum(1 for r in quiet if r["status"] == "pass"),
        "of_which_analysis_could_not_evaluate": sum(1 for r in quiet if r["status"] == "pass" and any(x.get("rc") == 2 for x in r.get("results", {}).values())),
        "variants": len(res),
        "must_fire": len(fire),
        "fired": sum(1 for r in fire if r["status"] == "pass"),
        "must_stay_silent": len(silent),
        "stayed_silent": sum(1 for r in silent if r["status"] == "pass"),
        "stale": [r["id"] for r in res if r["status"] == "stale"],
        "failures": [r["id"] for r in res if r["status"] == "FAIL"],
        "kill_matrix": {r["id"]: {p: x.get("first", "")[:160] for p, x in r.get("results", {}).items()} for r in fire if r["status"] == "pass"},
    }


def _write_evidence(path, prop, tier, seed, meta, ctx: Ctx | None, wall, new=(), known_seen=(), error=None) -> None:
    if ctx is None:
        ev = {
            "property_id": prop,
            "tier": tier,
            "seed": seed,
            "level": "other",
            "coverage": {"explanation": f"analysis did not complete: {error}", "evaluations": 0, "distinct_nontrivial": 0},
            "wall_s": round(wall, 3),
            "violations": 0,
        }
        with open(path, "w", encoding="utf-8") as f:
            json.dump(ev, f, indent=1)
        return
    insts = ctx.instances
    per_rule: dict[str, dict[str, int]] = {}
    for i in insts:
        d = per_rule.setdefault(i.rule, {"instances": 0, "ok": 0, "finding": 0})
        d["instances"] += 1
        d[i.status] = d.get(i.status, 0) + 1
    distinct = {i.key for i in insts if i.nontrivial}
    samples = []
    seen_rules: dict[str, int] = {}
    for i in insts:
        if seen_rules.get(i.rule, 0) < 3:
            seen_rules[i.rule] = seen_rules.get(i.rule, 0) + 1
            samples.append(i.as_dict())
    discharged = sum(1 for i in insts if i.status == "ok") + len({f.key for f, _ in known_seen}) * 0
    ev = {
        "property_id": prop,
        "tier": tier,
        "seed": seed,
        "level": "other",
        "coverage": {
            "explanation": meta.get("explanation", ""),
            "rule": "instances are enumerated from the current source (AST sites, grammar rules / LALR states, schema slots); "
            "an instance is non-trivial when its verdict needed an analysis step (resolved call, decided predicate, table lookup) "
            "and distinct by rule|construct key",
            "evaluations": len(insts),
            "distinct_nontrivial": len(distinct),
            "obligations": len(insts),
            "discharged": discharged,
            "known_findings_present": [f.key for f, _ in known_seen],
            "new_findings": [f.key for f in new],
            "rules": {rid: {"statement": txt, **per_rule.get(rid, {"instances": 0})} for rid, txt in ctx.rules.items()},
            "units_analysed": ctx.units,
            "samples": samples[:60],
            "trusted_base": ctx.trusted,
            "not_decided": ctx.not_decided,
            "exhaustive": True,
            "checker_cmd": f"/venv/bin/python -m sa.check {prop} --tier {tier}",
            "repo_digest": ctx.repo.digest(),
            "notes": ctx.notes,
        },
        "assumptions": ctx.assumptions or ctx.trusted,
        "wall_s": round(wall, 3),
        "violations": len(new),
    }
    with open(path, "w", encoding="utf-8") as f:
        json.dump(ev, f, indent=1, default=str)
