"""Modelled builtins and methods of abstract values for the PAI interpreter."""

from __future__ import annotations

import ast
import string as _string
from typing import Any

from . import absval as av
from .absval import SStr, SNum, SObj, SBool, SOpaque, HDict, ReprDict, Undecided, as_sstr, is_strlike
from .core import AnalysisError


def _pai():
    from . import pai

    return pai


def type_matches(fr, v: Any, t: Any) -> bool:
    pai = _pai()
    if isinstance(t, tuple):
        return any(type_matches(fr, v, x) for x in t)
    tag = pai.pytype_of(v)
    if isinstance(t, pai.TypeRef):
        names = t.names
        if "*" in names:
            return True
        if tag in names:
            return True
        if "dict" in names and (tag in pai.DICT_CLASSES or tag == "OrderedDict"):
            return True
        if "int" in names and tag == "bool":
            return True
        if "tuple" in names and isinstance(v, pai.NTup):
            return True
        return False
    if isinstance(t, pai.FuncRef):
        if t.builtin == "OrderedDict":
            return tag in pai.DICT_CLASSES or tag == "OrderedDict"
        if t.builtin and t.builtin in pai.TYPE_TAGS:
            return type_matches(fr, v, pai.TypeRef(pai.TYPE_TAGS[t.builtin]))
        if t.builtin and t.builtin.startswith("exc:"):
            return tag == t.builtin
        if t.cls:
            if tag == t.cls:
                return True
            # inheritance among repo classes
            seen, todo = set(), [tag]
            while todo:
                c = todo.pop()
                if c in seen:
                    continue
                seen.add(c)
                if c == t.cls:
                    return True
                todo += [b for b in fr.I.facts.bases.get(c, []) if not b.startswith("ext:")]
            return False
    raise AnalysisError(f"isinstance against {t!r} not modelled")


def call_builtin(fr, f, args: list, kwargs: dict, node: ast.AST | None) -> Any:
    pai = _pai()
    I = fr.I
    name = f.builtin
    if name.startswith("method:"):
        return call_method(fr, f.self_obj, name[7:], args, kwargs, node)
    if name.startswith("extmethod:"):
        key = "ext:" + name[10:]
        if key in I.stubs:
            return I.stubs[key](fr, f.self_obj, args, kwargs)
        short = name[10:].split(".")[-1]
        recv = f.self_obj
        if isinstance(recv, HDict) and short in ("__setitem__", "__getitem__", "__delitem__", "__contains__"):
            # the base class's own item access (OrderedDict.__setitem__(d, k, v)): no key folding, no default
            k0 = args[0]
            k0 = k0.concrete() if isinstance(k0, SStr) and k0.is_concrete() else k0
            if isinstance(k0, SStr) and any(isinstance(x, SStr) for x in recv.keys()):
                raise AnalysisError("raw item access with a symbolic key next to symbolic keys")
            if short == "__setitem__":
                dict.__setitem__(recv, k0, args[1])
                return None
            if short == "__contains__":
                return dict.__contains__(recv, k0)
            if not dict.__contains__(recv, k0):
                raise pai.PyExc("KeyError", (k0,), node)
            if short == "__getitem__":
                return dict.__getitem__(recv, k0)
            dict.__delitem__(recv, k0)
            return None
        if isinstance(recv, HDict) or (isinstance(recv, pai.Inst) and recv.cls in pai.DICT_CLASSES):
            return call_method(fr, recv, short, args, kwargs, node)
        raise AnalysisError(f"external method {name[10:]} is not modelled ({fr.qual})")
    if name == "dict.fromkeys":
        d = HDict()
        for k in fr.iterate(args[0]):
            d[k.concrete() if isinstance(k, SStr) and k.is_concrete() else k] = args[1] if len(args) > 1 else None
        return d
    if name.startswith("ntup:"):
        t = f.self_obj
        if name == "ntup:_asdict":
            d = HDict()
            for k, v in zip(t.fields, t):
                d[k] = v
            return d
        if args or any(k not in t.fields for k in kwargs):
            raise pai.PyExc("TypeError" if args else "ValueError", ("_replace",), node)
        return pai.NTup(t.cls, t.fields, [kwargs.get(k, v) for k, v in zip(t.fields, t)])
    if name.startswith("exc:"):
        return SObj(name, {"args": tuple(args)}, label=name[4:])
    if name.startswith("nested:"):
        outer, fn = f.self_obj
        env = dict(outer.env)
        sub = pai.Frame(I, outer.qual, fn, env)
        bound = I.bind(outer.qual + ".<nested>", fn, None, args, kwargs) if False else None
        params = [p.arg for p in fn.args.args]
        for p, v in zip(params, args):
            env[p] = v
        env[fn.name] = f
        try:
            sub.exec_block(fn.body)
        except pai._Return as r:
            return r.value
        return None
    if name == "lambda":
        outer, lam = f.self_obj
        env = dict(outer.env)
        for p, v in zip([a.arg for a in lam.args.args], args):
            env[p] = v
        return pai.Frame(I, outer.qual, None, env).eval(lam.body)
    key = "ext:" + name
    if key in I.stubs:
        return I.stubs[key](fr, None, args, kwargs)

    if name.startswith("re."):
        return _re_call(fr, name[3:], None, args, kwargs, node)
    if name == "len":
        (v,) = args
        if isinstance(v, (list, tuple, dict, set, frozenset, str)):
            return len(v)
        if isinstance(v, SStr):
            r = v.length()
            return r.const_value() if isinstance(r, SNum) and r.is_const() else r
        if isinstance(v, ReprDict):
            return len(v.items_) if v.missing == "absent" else SNum.sym(f"len({v.label})", 0, None)
        if isinstance(v, SObj) and v.elems is not None:
            return len(v.elems)
        if isinstance(v, pai._Gen):
            raise pai.PyExc("TypeError", ("object of type 'generator' has no len()",), node)
        if isinstance(v, SObj) and v.pytype == "Token":
            return call_builtin(fr, f, [v.attrs.get("text", v.attrs.get("value"))], {}, node)
        if pai.is_num_like(v) or v is None:
            raise pai.PyExc("TypeError", (f"object of type '{pai.pytype_of(v)}' has no len()",), node)
        raise AnalysisError(f"len of {v!r}")
    if name == "isinstance":
        v, t = args
        return type_matches(fr, v, t)
    if name == "callable":
        return isinstance(args[0], (pai.FuncRef, pai.TypeRef))
    if name == "str":
        if not args:
            return ""
        return fr.to_str(args[0])
    if name == "repr":
        return fr.to_str(args[0])
    if name == "bool":
        return fr.truth(args[0]) if args else False
    if name == "int":
        (v,) = args[:1]
        if isinstance(v, (int, float)) and not isinstance(v, bool):
            return int(v)
        if isinstance(v, bool):
            return int(v)
        if isinstance(v, str):
            try:
                return int(v)
            except ValueError:
                raise pai.PyExc("ValueError", (v,), node)
        if isinstance(v, SNum):
            if not v.is_float:
                return v
            return av.opaque_num("int", (v,), 0, None)
        hook = I.stubs.get("hook:int")
        if hook:
            return hook(fr, v, node)
        raise AnalysisError(f"int() of {v!r}")
    if name == "float":
        (v,) = args[:1]
        if isinstance(v, (int, float)):
            return float(v)
        if isinstance(v, str):
            try:
                return float(v)
            except ValueError:
                raise pai.PyExc("ValueError", (v,), node)
        if isinstance(v, SNum):
            return SNum(v.terms, True)
        hook = I.stubs.get("hook:float")
        if hook:
            return hook(fr, v, node)
        if isinstance(v, SStr) and not v.is_concrete():
            # text that is not known: whether it spells a number is an open question, decided once per path
            def spells_number():
                raise Undecided(f"float({v.describe()}) succeeds")

            if I.decide(spells_number, f"float({v.describe()}) succeeds"):
                return av.opaque_num("float", (v,), None, None, True)
            raise pai.PyExc("ValueError", (f"could not convert string to float: {v.describe()}",), node)
        raise AnalysisError(f"float() of {v!r}")
    if name == "list":
        return list(fr.iterate(args[0])) if args else []
    if name == "tuple":
        return tuple(fr.iterate(args[0])) if args else ()
    if name in ("set", "frozenset"):
        items = fr.iterate(args[0], True) if args else []
        try:
            return set(items) if name == "set" else frozenset(items)
        except TypeError:
            raise pai.really_unhashable(tuple(items), node)
    if name == "dict":
        d = HDict()
        if args:
            for k, v in I.iter_items(args[0]):
                d[k] = v
        d.update(kwargs)
        return d
    if name == "OrderedDict":
        d = HDict()
        d.pytype = "OrderedDict"  # type: ignore[misc]
        if args:
            for k, v in (I.iter_items(args[0]) if not isinstance(args[0], pai._Gen) else [tuple(x) for x in args[0].items]):
                d[k.concrete() if isinstance(k, SStr) and k.is_concrete() else k] = v
        d.update(kwargs)
        return d
    if name == "map":
        fn, seq = args
        return pai._Gen([fr.call(fn, [x], {}, node) for x in fr.iterate(seq)])
    if name == "any":
        return any(fr.truth(x) for x in fr.iterate(args[0], True))
    if name == "all":
        return all(fr.truth(x) for x in fr.iterate(args[0], True))
    if name in ("max", "min"):
        items = fr.iterate(args[0]) if len(args) == 1 else list(args)
        if not items:
            if "default" in kwargs:
                return kwargs["default"]
            raise pai.PyExc("ValueError", (f"{name}() arg is an empty sequence",), node)
        if all(isinstance(x, (int, float, bool)) for x in items):
            return max(items) if name == "max" else min(items)
        if all(pai.is_num_like(x) for x in items):
            # decide pairwise when bounds allow, else opaque with derived bounds
            best = items[0]
            for x in items[1:]:
                try:
                    gt = pai._num(x).compare(">" if name == "max" else "<", best)
                    best = x if gt else best
                except Undecided:
                    los, his = [], []
                    for y in (best, x):
                        lo, hi = pai._num(y).bounds()
                        los.append(lo)
                        his.append(hi)
                    if name == "max":
                        lo = None if any(l is None for l in los) else max(los)
                        hi = None if any(h is None for h in his) else max(his)
                        if lo is None:
                            lo = max([l for l in los if l is not None], default=None)
                    else:
                        lo = None if any(l is None for l in los) else min(los)
                        hi = min([h for h in his if h is not None], default=None)
                    best = av.opaque_num(name, (best, x), lo, hi)
            return best
        raise AnalysisError(f"{name} over {items!r}")
    if name == "sum":
        total: Any = 0
        for x in fr.iterate(args[0]):
            total = fr.binop(ast.Add(), total, x)
        return total
    if name == "abs":
        (v,) = args
        if isinstance(v, (int, float)):
            return abs(v)
        raise AnalysisError("abs of symbolic")
    if name == "type":
        (v,) = args
        tag = pai.pytype_of(v)
        if isinstance(v, pai.Inst) or tag in pai.DICT_CLASSES:
            return pai.FuncRef(None, cls=tag)
        if tag in pai.TYPE_TAGS:
            return pai.TypeRef((tag,))
        if tag == "NoneType":
            return pai.TypeRef(("NoneType",))
        raise AnalysisError(f"type() of {v!r}")
    if name == "sorted":
        items = fr.iterate(args[0], True)
        if kwargs:
            raise AnalysisError("sorted with key")
        if all(isinstance(x, (str, int, float)) for x in items) and len({type(x) for x in items}) <= 1:
            return sorted(items)
        if all(isinstance(x, tuple) and isinstance(x[0], str) for x in items):
            return sorted(items, key=lambda x: x[0])
        hook = I.stubs.get("hook:sorted")
        if hook:
            return hook(fr, items)
        raise AnalysisError(f"sorted over {items!r}")
    if name == "reversed":
        return list(reversed(fr.iterate(args[0])))
    if name == "enumerate" and isinstance(args[0], SStr):
        return [tuple(x) for x in pai.sstr_chars(args[0])]
    if name == "enumerate":
        start = args[1] if len(args) > 1 else kwargs.get("start", 0)
        return [(i + start, x) for i, x in enumerate(fr.iterate(args[0]))]
    if name == "zip":
        return [tuple(t) for t in zip(*[fr.iterate(a) for a in args])]
    if name == "zip_longest":
        import itertools

        return [tuple(t) for t in itertools.zip_longest(*[fr.iterate(a) for a in args], fillvalue=kwargs.get("fillvalue"))]
    if name == "groupby":
        # itertools.groupby: runs of *adjacent* items with equal keys
        items = fr.iterate(args[0])
        keyf = kwargs.get("key", args[1] if len(args) > 1 else None)
        groups: list = []
        for it in items:
            k = fr.call(keyf, [it], {}, node) if keyf is not None else it
            if groups and fr.compare(ast.Eq(), groups[-1][0], k, "groupby key"):
                groups[-1][1].append(it)
            else:
                groups.append((k, [it]))
        return [(k, list(g)) for k, g in groups]
    if name == "filterfalse":
        pred, seq = args
        return [x for x in fr.iterate(seq) if not fr.truth(fr.call(pred, [x], {}, node) if pred is not None else x)]
    if name in ("chain", "chain.from_iterable"):
        seqs = fr.iterate(args[0]) if name == "chain.from_iterable" else list(args)
        out_c: list = []
        for sq in seqs:
            out_c.extend(fr.iterate(sq))
        return out_c
    if name == "range":
        if all(isinstance(a, int) for a in args):
            return list(range(*args))
        raise AnalysisError("symbolic range")
    if name == "hasattr":
        obj, attr = args
        if isinstance(obj, SObj):
            return attr in obj.attrs or attr in obj.methods
        try:
            fr.getattr(obj, attr)
            if isinstance(obj, (pai.Inst, SObj)):
                return True
            # value methods are FuncRefs created lazily: consult the method tables
            return attr in _KNOWN_METHODS.get(pai.pytype_of(obj), ())
        except pai.PyExc:
            return False
    if name == "getattr":
        try:
            return fr.getattr(args[0], args[1])
        except pai.PyExc:
            if len(args) > 2:
                return args[2]
            raise
    if name == "iter":
        return pai._Gen(fr.iterate(args[0]))
    if name == "next":
        g = args[0]
        if isinstance(g, pai._Gen):
            if g.items:
                return g.items.pop(0)
            if len(args) > 1:
                return args[1]
            raise pai.PyExc("StopIteration", (), node)
        raise AnalysisError("next() of non-generator")
    if name == "print":
        return None
    if name == "id":
        return id(args[0])
    # external module functions that only log / are irrelevant to values
    if name.startswith(("logging.", "warnings.")):
        if name == "logging.getLogger":
            return SObj("Logger", {}, label="log")
        return None
    if name in pai.OS_PATH_PURE:
        if name == "os.path.splitext":
            raise AnalysisError("os.path.splitext is not modelled")
        parts = [a if isinstance(a, str) else pai.as_sstr(a).describe() for a in args]
        return SStr.atom(f"{name.split('.')[-1]}({','.join(parts)})", nonempty=True)
    if name in ("os.getcwd",):
        return SStr.atom("cwd", nonempty=True)
    raise AnalysisError(f"builtin / external function {name} is not modelled ({fr.qual})")


_KNOWN_METHODS = {
    "str": ("lower", "upper", "strip", "startswith", "endswith", "replace", "join", "format", "split"),
    "list": ("append", "extend", "insert", "pop", "remove"),
    "dict": ("get", "items", "keys", "values", "pop", "update", "setdefault"),
}


def call_method(fr, recv: Any, name: str, args: list, kwargs: dict, node: ast.AST | None) -> Any:
    pai = _pai()
    I = fr.I
    hook = I.stubs.get("hook:method")
    if hook:
        r = hook(fr, recv, name, args, kwargs, node)
        if r is not NotImplemented:
            return r
    # --- strings ------------------------------------------------------------------------------
    if is_strlike(recv):
        s = as_sstr(recv)
        if name in ("lower", "upper"):
            return pai._simplify(getattr(s, name)())
        if name in ("swapcase", "title", "capitalize", "casefold"):
            return pai._simplify(s.case_op(name))
        if name == "strip":
            return pai._simplify(s.strip(_c(args[0]) if args else None))
        if name in ("lstrip", "rstrip"):
            if s.is_concrete():
                return getattr(s.concrete(), name)(*[_c(a) for a in args])
            return pai._simplify(s.strip(_c(args[0]) if args else None, left=name == "lstrip", right=name == "rstrip"))
        if name in ("startswith", "endswith"):
            (p,) = args
            if isinstance(p, tuple):
                return any(call_method(fr, recv, name, [x], {}, node) for x in p)
            p = _c(p)
            return I.decide(lambda: getattr(s, name)(p), f"{s.describe()}.{name}({p!r})")
        if name == "replace":
            a, b = _c(args[0]), _c(args[1])
            try:
                return pai._simplify(s.replace(a, b))
            except Undecided as u:
                raise AnalysisError(f"replace undecided: {u.descr}")
        if name == "join" and isinstance(args[0], SObj) and args[0].pytype == "splitlines":
            # sep.join(text.splitlines()): every line boundary of the text (\n, \r\n, \r, \v, \f, \x1c-\x1e,
            # \x85, U+2028, U+2029) becomes sep and a final one disappears.  Piece by piece: a literal is rewritten,
            # a piece of unknown text that may hold such a character becomes another unknown text
            if not (isinstance(recv, str) or s.is_concrete()):
                raise AnalysisError("symbolic separator joined with the lines of symbolic text")
            sep = s.concrete()
            bounds = "\n\r\x0b\x0c\x1c\x1d\x1e\x85\u2028\u2029"
            src = args[0].attrs["src"]
            out_j: list[Any] = []
            n_p = len(src.pieces)
            for i_p, pc in enumerate(src.pieces):
                if isinstance(pc, str):
                    parts = pc.splitlines(True)
                    txt = "".join((ln.rstrip(bounds) + sep) if ln != ln.rstrip(bounds) else ln for ln in parts)
                    if i_p == n_p - 1 and pc != pc.rstrip(bounds):
                        txt = txt[: len(txt) - len(sep)]
                    out_j.append(txt)
                elif isinstance(pc, av.Atom):
                    if all(c in pc.excludes for c in bounds) and (i_p < n_p - 1 or True):
                        out_j.append(pc)
                    else:
                        out_j.append(pc.with_op(("relinebreak", sep)))
                else:
                    raise AnalysisError("lines of a repeated symbolic text")
            return pai._simplify(SStr(out_j))
        if name == "join":
            items = fr.iterate(args[0])
            out: list[Any] = []
            for i, it in enumerate(items):
                if i:
                    out.append(s)
                if not is_strlike(it):
                    raise pai.PyExc("TypeError", (f"sequence item {i}: expected str instance, {pai.pytype_of(it)} found",), node)
                out.append(as_sstr(it))
            return pai._simplify(SStr(out))
        if name == "format":
            if not s.is_concrete():
                raise AnalysisError("symbolic format template")
            out = []
            auto = 0
            for lit, fld, spec, conv in _string.Formatter().parse(s.concrete()):
                out.append(lit)
                if fld is None:
                    continue
                if spec or conv:
                    raise AnalysisError("format spec")
                if fld == "":
                    v = args[auto]
                    auto += 1
                elif fld.isdigit():
                    v = args[int(fld)]
                else:
                    if fld not in kwargs:
                        raise pai.PyExc("KeyError", (fld,), node)
                    v = kwargs[fld]
                out.append(fr.to_str(v))
            return pai._simplify(SStr(out))
        if name == "split":
            maxsplit = kwargs.get("maxsplit", args[1] if len(args) > 1 else -1)
            if not isinstance(maxsplit, int):
                raise AnalysisError("split with a symbolic maxsplit")
            sep = _c(args[0]) if args and args[0] is not None else None
            if s.is_concrete():
                return s.concrete().split(sep, maxsplit)
            try:
                full = s.split(sep)
            except Undecided as u:
                raise AnalysisError(f"split undecided: {u.descr}")
            if maxsplit < 0 or len(full) <= maxsplit + 1:
                return full
            if sep is None:
                raise AnalysisError("split(None, maxsplit) of a symbolic string")
            tail: list = []
            for i_, f_ in enumerate(full[maxsplit:]):
                if i_:
                    tail.append(sep)
                tail += list(pai.as_sstr(f_).pieces)
            rest = pai._simplify(SStr(tail))
            return full[:maxsplit] + [rest]
        if name in ("partition", "rpartition"):
            sep = _c(args[0])
            if s.is_concrete():
                return getattr(s.concrete(), name)(sep)
            if len(sep) != 1:
                raise AnalysisError(f"{name} on a multi-character separator of a symbolic string")
            for p_ in s.pieces:
                if isinstance(p_, pai.av.Atom) and sep not in p_.excludes:
                    raise AnalysisError(f"{name} undecided: {p_.describe()} may contain {sep!r}")
                if not isinstance(p_, (str, pai.av.Atom)):
                    raise AnalysisError(f"{name} over a repeated piece")
            pieces = list(s.pieces)
            order = range(len(pieces)) if name == "partition" else range(len(pieces) - 1, -1, -1)
            for i_ in order:
                p_ = pieces[i_]
                if isinstance(p_, str) and sep in p_:
                    j_ = p_.index(sep) if name == "partition" else p_.rindex(sep)
                    before = pai._simplify(SStr(pieces[:i_] + ([p_[:j_]] if p_[:j_] else [])))
                    after = pai._simplify(SStr(([p_[j_ + 1 :]] if p_[j_ + 1 :] else []) + pieces[i_ + 1 :]))
                    return (before, sep, after)
            return (recv, "", "") if name == "partition" else ("", "", recv)
        if name in ("isdigit", "isalpha", "isalnum", "isupper", "islower", "isspace", "isnumeric", "isidentifier") and s.is_concrete():
            return getattr(s.concrete(), name)()
        if name in ("removeprefix", "removesuffix"):
            arg = _c(args[0])
            if s.is_concrete():
                return getattr(s.concrete(), name)(arg)
            if name == "removeprefix":
                return pai._simplify(s.slice(len(arg), None)) if I.decide(lambda: s.startswith(arg), f"{s.describe()}.startswith({arg!r})") else recv
            return pai._simplify(s.slice(None, -len(arg))) if I.decide(lambda: s.endswith(arg), f"{s.describe()}.endswith({arg!r})") else recv
        if name in ("partition", "rpartition", "find", "rfind", "index", "title", "zfill", "center", "ljust", "rjust", "expandtabs", "splitlines") and s.is_concrete():
            return getattr(s.concrete(), name)(*[_c(a) if isinstance(a, (str, SStr)) else a for a in args])
        if name == "splitlines" and not args and not kwargs:
            # the lines of text that is not known: only re-joining them is supported (see join)
            return SObj("splitlines", {"src": s})
        if name == "encode":
            return SOpaque("bytes")
        if name == "count" and s.is_concrete():
            return s.concrete().count(_c(args[0]))
        if not hasattr(str, name):
            raise pai.PyExc("AttributeError", (f"'str' object has no attribute '{name}'",), node)
        raise AnalysisError(f"str method {name} not modelled")
    # --- lists --------------------------------------------------------------------------------
    if isinstance(recv, list):
        if name == "append":
            recv.append(args[0])
            return None
        if name == "extend":
            recv.extend(fr.iterate(args[0]))
            return None
        if name == "insert":
            recv.insert(fr.index(args[0]), args[1])
            return None
        if name == "pop":
            try:
                return recv.pop(*[fr.index(a) for a in args])
            except IndexError:
                raise pai.PyExc("IndexError", ("pop",), node)
        if name == "remove":
            for i, x in enumerate(recv):
                if x is args[0] or fr.equal(x, args[0]):
                    del recv[i]
                    return None
            raise pai.PyExc("ValueError", ("list.remove(x): x not in list",), node)
        if name == "index":
            for i, x in enumerate(recv):
                if fr.equal(x, args[0]):
                    return i
            raise pai.PyExc("ValueError", (), node)
        if name == "copy":
            return list(recv)
        if name in ("sort", "reverse") and not kwargs:
            getattr(recv, name)()
            return None
        if name == "clear":
            recv.clear()
            return None
        if not hasattr(list, name):
            raise pai.PyExc("AttributeError", (f"'list' object has no attribute '{name}'",), node)
        raise AnalysisError(f"list method {name}")
    if isinstance(recv, tuple):
        if name == "index":
            return recv.index(args[0])
        if name == "count":
            return recv.count(args[0])
        if not hasattr(tuple, name):
            raise pai.PyExc("AttributeError", (f"'tuple' object has no attribute '{name}'",), node)
        raise AnalysisError(f"tuple method {name}")
    if isinstance(recv, set) and name in ("add", "discard", "remove", "update", "clear"):
        if name == "add":
            recv.add(args[0])
        elif name == "discard":
            recv.discard(args[0])
        elif name == "remove":
            if args[0] not in recv:
                raise pai.PyExc("KeyError", (args[0],), node)
            recv.remove(args[0])
        elif name == "update":
            for a in args:
                recv.update(fr.iterate(a, True))
        else:
            recv.clear()
        return None
    if isinstance(recv, (set, frozenset)) and name in ("intersection", "difference", "symmetric_difference", "issubset", "issuperset", "isdisjoint", "copy"):
        others = [frozenset(fr.iterate(a, True)) for a in args]
        base = frozenset(recv)
        if name == "copy":
            return set(recv) if isinstance(recv, set) else recv
        if name in ("issubset", "issuperset", "isdisjoint"):
            return getattr(base, name)(others[0])
        out_s = base
        for o_ in others:
            out_s = getattr(out_s, name)(o_)
        return out_s
    if isinstance(recv, (set, frozenset)):
        if name == "union":
            out_s = frozenset(recv)
            for a in args:
                out_s = out_s | frozenset(fr.iterate(a, True))
            return out_s
        if not hasattr(set, name):
            raise pai.PyExc("AttributeError", (f"'set' object has no attribute '{name}'",), node)
        raise AnalysisError(f"set method {name}")
    # --- dicts --------------------------------------------------------------------------------
    if isinstance(recv, (dict, ReprDict)):
        ci = getattr(recv, "ci", False)
        if name == "keys":
            return list(recv.keys()) if isinstance(recv, dict) else [k for k, _ in recv.items_]
        if name == "values":
            return list(recv.values()) if isinstance(recv, dict) else [v for _, v in recv.items_]
        if name == "items":
            return [tuple(x) for x in (recv.items() if isinstance(recv, dict) else recv.items_)]
        if name == "get":
            k = I.dict_key(recv, args[0])
            default = args[1] if len(args) > 1 else kwargs.get("default")
            if isinstance(recv, dict):
                if isinstance(k, SStr):
                    if I.decide(lambda: k.member_of(list(recv.keys())), f"{k!r} in dict"):
                        raise AnalysisError("symbolic key present in dict")
                    return default
                return dict.get(recv, k, default)
            for a, b in recv.items_:
                if a == k:
                    return b
            if recv.missing == "absent":
                return default
            raise AnalysisError(f"get of unknown key {k!r} in {recv!r}")
        if name == "pop":
            k = I.dict_key(recv, args[0])
            if isinstance(recv, dict):
                if k in recv:
                    return dict.pop(recv, k)
            else:
                for i, (a, b) in enumerate(recv.items_):
                    if a == k:
                        del recv.items_[i]
                        return b
            if len(args) > 1:
                return args[1]
            raise pai.PyExc("KeyError", (k,), node)
        if name == "update":
            for src in args:
                for k, v in I.iter_items(src):
                    fr.setitem(recv, k, v, node)
            for k, v in kwargs.items():
                fr.setitem(recv, k, v, node)
            return None
        if name == "setdefault":
            k = I.dict_key(recv, args[0])
            if isinstance(recv, dict):
                if k not in recv:
                    recv[k] = args[1] if len(args) > 1 else None
                return recv[k]
        if name == "move_to_end" and isinstance(recv, dict):
            k = I.dict_key(recv, args[0])
            if k not in recv:
                raise pai.PyExc("KeyError", (k,), node)
            v = dict.pop(recv, k)
            if kwargs.get("last", args[1] if len(args) > 1 else True):
                recv[k] = v
            else:
                items = [(k, v)] + list(recv.items())
                recv.clear()
                for a, b in items:
                    recv[a] = b
            return None
        if name == "copy" and isinstance(recv, dict):
            d = HDict(recv)
            d.pytype, d.ci, d.factory = recv.pytype, ci, getattr(recv, "factory", None)  # type: ignore[misc]
            return d
        if name == "has_key":
            return fr.contains(recv, args[0])
        if name == "clear" and isinstance(recv, dict):
            recv.clear()
            return None
        raise AnalysisError(f"dict method {name}")
    # --- objects ------------------------------------------------------------------------------
    if isinstance(recv, SObj) and recv.pytype == "re.Pattern":
        return _re_call(fr, name, recv, args, kwargs, node)
    if isinstance(recv, SObj) and recv.pytype == "re.Match":
        m = recv.attrs["_m"]
        if name in ("group", "start", "end", "span", "groups", "groupdict"):
            return getattr(m, name)(*args)
        raise AnalysisError(f"match method {name}")
    if isinstance(recv, SObj):
        if recv.pytype == "Logger":
            return None
        if name == "get" and recv.pytype == "Meta":
            return recv.attrs.get(args[0], args[1] if len(args) > 1 else None)
        if recv.pytype == "Token" and name in ("upper", "lower", "strip", "startswith", "endswith"):
            return call_method(fr, recv.attrs.get("text", recv.attrs.get("value")), name, args, kwargs, node)
        raise AnalysisError(f"method {name} of {recv!r} not modelled")
    if isinstance(recv, pai._Gen):
        raise AnalysisError(f"generator method {name}")
    if recv is None or pai.is_num_like(recv) or isinstance(recv, (SBool, SOpaque)):
        if isinstance(recv, SOpaque) and recv.pytype not in ("int", "float", "NoneType", "bool"):
            raise AnalysisError(f"method {name} of opaque {recv!r}")
        raise pai.PyExc("AttributeError", (f"'{pai.pytype_of(recv)}' object has no attribute '{name}'",), node)
    raise AnalysisError(f"method {name} on {recv!r} not modelled ({fr.qual})")


def _c(v: Any) -> str:
    if isinstance(v, str):
        return v
    if isinstance(v, SStr) and v.is_concrete():
        return v.concrete()
    raise AnalysisError(f"expected a concrete string argument, got {v!r}")


def _re_call(fr, name: str, pattern: Any, args: list, kwargs: dict, node) -> Any:
    """The re module on *concrete* strings only (constant folding); symbolic text is an ANALYSIS-ERROR."""
    import re as _re

    pai = _pai()

    def conc(v):
        if isinstance(v, str):
            return v
        if isinstance(v, SStr) and v.is_concrete():
            return v.concrete()
        raise AnalysisError(f"regular expression applied to symbolic text {v!r} ({fr.qual})")

    if pattern is None:
        if name == "escape":
            return _re.escape(conc(args[0]))
        if name == "compile":
            flags = args[1] if len(args) > 1 else kwargs.get("flags", 0)
            return SObj("re.Pattern", {"pattern": conc(args[0]), "flags": int(flags), "_p": _re.compile(conc(args[0]), int(flags))}, methods=("sub", "subn", "match", "search", "fullmatch", "findall", "split", "finditer"))
        flags = kwargs.get("flags", 0)
        pat = args[0]
        if isinstance(pat, SObj) and pat.pytype == "re.Pattern":
            comp = pat.attrs["_p"]
        else:
            comp = _re.compile(conc(pat), int(flags))
        rest = args[1:]
    else:
        comp = pattern.attrs["_p"]
        rest = args
    if name in ("match", "search", "fullmatch") and isinstance(rest[0], SStr) and not rest[0].is_concrete():
        # whether a pattern matches text that is not known: an unknown boolean, decided once per path
        # (only the truth of the result may be used; its groups are not available)
        return SObj("re.MaybeMatch", {"_b": SBool(f"re.{name}({comp.pattern!r}, {rest[0].describe()})")})
    if name in ("match", "search", "fullmatch"):
        m = getattr(comp, name)(conc(rest[0]))
        return None if m is None else SObj("re.Match", {"_m": m}, methods=("group", "start", "end", "span", "groups", "groupdict"))
    if name == "sub" and isinstance(rest[0], SStr) and not rest[0].is_concrete() and isinstance(rest[1], (str, SStr)) and (isinstance(rest[1], str) or rest[1].is_concrete()):
        # symbolic replacement text in a concrete subject: re.sub reads the replacement as a *template*
        # (backslash escapes and group references are processed), so a piece that may hold a backslash does
        # not arrive as it is - it becomes another, opaque text
        subject = conc(rest[1])
        count = int(kwargs.get("count", rest[2] if len(rest) > 2 else 0) or 0)
        tpl: list = []
        for pc in rest[0].pieces:
            if isinstance(pc, str):
                if "\\" in pc:
                    raise AnalysisError("re.sub with a backslash in the literal part of a symbolic replacement")
                tpl.append(pc)
            elif isinstance(pc, av.Atom) and "\\" in pc.excludes:
                tpl.append(pc)
            elif isinstance(pc, av.Atom):
                tpl.append(pc.with_op("re_template"))
            else:
                raise AnalysisError("re.sub with a repeated symbolic replacement")
        out_p: list = []
        prev = 0
        for i, m in enumerate(comp.finditer(subject)):
            if count and i >= count:
                break
            out_p.append(subject[prev : m.start()])
            out_p.extend(tpl)
            prev = m.end()
        out_p.append(subject[prev:])
        return pai._simplify(SStr([x for x in out_p if x != ""]))
    if name in ("sub", "subn"):
        repl = rest[0]
        if isinstance(repl, (str, SStr)):
            r = getattr(comp, name)(conc(repl), conc(rest[1]))
        else:
            def rf(m, repl=repl):
                out = fr.call(repl, [SObj("re.Match", {"_m": m}, methods=("group", "start", "end", "span", "groups"))], {}, node)
                return conc(out)

            r = getattr(comp, name)(rf, conc(rest[1]))
        return r
    if name == "findall":
        return comp.findall(conc(rest[0]))
    if name == "split":
        return comp.split(conc(rest[0]))
    if name == "finditer":
        return [SObj("re.Match", {"_m": m}, methods=("group", "start", "end", "span", "groups")) for m in comp.finditer(conc(rest[0]))]
    raise AnalysisError(f"re.{name} not modelled")
