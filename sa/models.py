"""Shared analysis models built from the current source: cached engines, the evaluated ``plural``
function, the interactive-parser retagging relation, printer instances for PAI."""

from __future__ import annotations

import ast
import functools
from typing import Any, Callable

from . import absval as av
from . import grammar as gmod
from . import pai
from . import schema as smod
from .absval import SStr, SObj, SNum, SBool, CC, Atom, HDict, ReprDict
from .core import AnalysisError, Ctx, Repo
from .pyfacts import Facts

ALNUM = CC.of("abcdefghijklmnopqrstuvwxyzABCDEFGHIJKLMNOPQRSTUVWXYZ0123456789")
LOWER = CC.of("abcdefghijklmnopqrstuvwxyz")
QUOTES = "\"'"
DELIMS = "\"'`()[]{}/#\\% \t\n\r"


class Env:
    """Per-run bundle of engines (one parse of the repo, one grammar compilation)."""

    def __init__(self, repo: Repo):
        self.repo = repo
        self.facts = Facts(repo)
        self._g = None
        self._s = None

    @property
    def G(self) -> gmod.Grammar:
        if self._g is None:
            self._g = gmod.Grammar()
        return self._g

    @property
    def S(self) -> smod.Schemas:
        if self._s is None:
            self._s = smod.Schemas()
        return self._s

    def interp(self, stubs: dict | None = None, defaults: bool = True, **kw) -> pai.Interp:
        st = dict(self.default_stubs()) if defaults else {}
        st.update(stubs or {})
        return pai.Interp(self.repo, self.facts, stubs=st, **kw)

    def default_stubs(self) -> dict:
        S = self.S

        def expanded_schema(I, self_obj, args, kwargs):
            name = args[0] if args else kwargs.get("schema_name")
            if isinstance(name, SStr):
                raise AnalysisError("schema name is symbolic")
            if name not in S.type_files and (name + ".json") in S.raw:
                return S.expanded(name + ".json")
            return S.expanded_type(name)

        def lark_open(fr, self_obj, args, kwargs):
            # lark's entry point: a stand-in parser (harnesses that drive the token loop replace it)
            ip = SObj("InteractiveParser", {"parser_state": SObj("ParserState", {"value_stack": []}), "_tokens": []}, methods=("iter_parse", "resume_parse", "feed_token", "copy"))
            return SObj("Lark", {"_ip": ip, "_open_kwargs": dict(kwargs)}, methods=("parse_interactive", "parse"))

        return {
            "validator.Validator.get_expanded_schema": expanded_schema,
            "ext:lark.Lark": pai.ModRef("ext:lark.Lark"),
            "ext:lark.Lark.open": lark_open,
            "global:parser.lark_cython": None,
        }


_ENV: dict[int, Env] = {}


def new_parser(I: pai.Interp, **kw) -> pai.Inst:
    """A Parser built by its real constructor (lark's entry point is a stand-in, see default_stubs):
    every attribute the constructor sets exists, whatever it is called."""
    return I.instantiate("parser.Parser", [], kw)


def new_validator(I: pai.Interp) -> pai.Inst:
    return I.instantiate("validator.Validator", [], {})


def construct(e: "Env", cls_qual: str, *args, **kw) -> pai.Inst:
    """An instance of a repository class built by evaluating its real constructor (with the default
    stand-ins for other libraries); usable with any interpreter afterwards."""
    return e.interp(allow_fork=False).instantiate(cls_qual, list(args), kw)


def env(ctx: Ctx) -> Env:
    e = _ENV.get(id(ctx.repo))
    if e is None:
        e = _ENV[id(ctx.repo)] = Env(ctx.repo)
    return e


# ---------------------------------------------------------------------------------------------
# plural
# ---------------------------------------------------------------------------------------------


def plural_spec(word: str) -> str:
    """The reference: 'class' -> 'classes', 'layer' -> 'layers'."""
    return word + "es" if word.endswith("s") else word + "s"


def check_plural(e: Env) -> tuple[bool, str]:
    """PAI on MapfileTransformer.plural for the two shape classes of its argument."""
    I = e.interp(allow_fork=False)
    problems = []

    def run(arg_factory, expect_suffix):
        def make():
            inst = pai.Inst("transformer.MapfileTransformer")
            return inst, [arg_factory()], {}

        outs = I.explore("transformer.MapfileTransformer.plural", make)
        if len(outs) != 1 or outs[0].kind != "return":
            problems.append(f"plural: {[(o.kind, o.exc) for o in outs]}")
            return
        v = outs[0].value
        want = arg_factory() + expect_suffix
        if not (isinstance(v, SStr) and v == pai.as_sstr(want)):
            problems.append(f"plural({arg_factory().describe()}) = {v!r}, expected {want!r}")

    run(lambda: SStr([Atom("w", nonempty=False), "s"]), "es")
    run(lambda: SStr.atom("w", last=CC.none_of("s"), first=LOWER), "s")
    return (not problems), "; ".join(problems) or "plural(x) = x+'es' if x ends in 's' else x+'s' on both shape classes"


# ---------------------------------------------------------------------------------------------
# tokens
# ---------------------------------------------------------------------------------------------


def token(kind: str, value: Any, line: Any = None, column: Any = None, **extra) -> SObj:
    attrs = {"type": kind, "value": value, "text": value}
    attrs["line"] = line if line is not None else SNum.sym(f"line", 1, None)
    attrs["column"] = column if column is not None else SNum.sym(f"col", 1, None)
    attrs.update(extra)
    return SObj("Token", attrs, label=f"Token:{kind}")


# ---------------------------------------------------------------------------------------------
# interactive retagging in Parser.parse, evaluated by PAI
# ---------------------------------------------------------------------------------------------


def retag_outcomes(e: Env, prev: tuple | None, cur_kind: str, cur_value: Any, below: str | None = "tree") -> list[tuple[str, Any, list]]:
    """Evaluate Parser.parse with lark stubbed out: one token ``cur`` is yielded by the interactive
    parser while the value stack holds ``prev`` (kind, text) or nothing.  Returns the possible
    outcomes (final token type | 'raise:<Exc>', assumptions)."""

    def make():
        cur = token(cur_kind, cur_value() if callable(cur_value) else cur_value)
        stack = []
        if prev is not None:
            # what lies below the previous token on lark's value stack: the token of the keyword
            # (when `prev` is that keyword's value) or something already reduced (a Tree)
            if below == "token":
                stack.append(token("UNQUOTED_STRING", SStr.atom("belowkey", free=True)))
            elif below == "tree":
                stack.append(SObj("Tree", {"data": "reduced", "children": []}))
            pk, pt = prev
            stack.append(token(pk, pt() if callable(pt) else pt))
        state = SObj("ParserState", {"value_stack": stack})
        ip = SObj("InteractiveParser", {"parser_state": state, "_tokens": [cur]}, methods=("iter_parse", "resume_parse", "feed_token", "copy"))
        lalr = SObj("Lark", {"_ip": ip}, methods=("parse_interactive", "parse"))
        inst = pai.Inst("parser.Parser")
        inst.attrs.update({"expand_includes": False, "include_comments": False, "_comments": [], "lalr": lalr, "kwargs": HDict()})
        # the text itself is unknown: a decision taken by looking at the text may go either way
        return inst, [SStr.atom("mapfile_text", free=True)], {}

    holder: dict[str, Any] = {}

    def method_hook(fr, recv, name, args, kwargs, node):
        if isinstance(recv, SObj) and recv.pytype == "Lark" and name == "parse_interactive":
            holder["ip"] = recv.attrs["_ip"]
            return recv.attrs["_ip"]
        if isinstance(recv, SObj) and recv.pytype == "Lark" and name == "parse":
            # the non-interactive entry point: the tokens go to the parser as the lexer typed them
            return SObj("Tree", {"children": []})
        if isinstance(recv, SObj) and recv.pytype == "InteractiveParser":
            if name == "iter_parse":
                return list(recv.attrs["_tokens"])
            if name == "resume_parse":
                return SObj("Tree", {"children": []})
            if name == "feed_token":
                return None
            if name == "copy":
                return SObj("InteractiveParser", dict(recv.attrs), methods=("iter_parse", "resume_parse", "feed_token", "copy"))
        return NotImplemented

    I = e.interp(stubs={"hook:method": method_hook}, max_paths=64)
    res = []

    def observe(made, out):
        inst = made[0]
        ip = inst.attrs["lalr"].attrs["_ip"]
        tok = ip.attrs["_tokens"][0]
        return tok.attrs["type"]

    outs = I.explore("parser.Parser.parse", make, observe)
    for o in outs:
        if o.kind == "raise":
            res.append((f"raise:{o.exc}", None, o.assumptions))
        else:
            res.append((o.observed, None, o.assumptions))
    return res


# ---------------------------------------------------------------------------------------------
# printer instance
# ---------------------------------------------------------------------------------------------


def printer(I: pai.Interp, **opts) -> pai.Inst:
    return I.instantiate("pprint.PrettyPrinter", [], opts)


_FMT: dict = {}


def fmt_qual(repo) -> str:
    """The block formatter of the pretty printer, found by role: the one method of PrettyPrinter that
    pprint() calls on self and that calls itself (the recursion over nested blocks).  Its name and the names
    of its parameters are the repository's business."""
    hit = _FMT.get(id(repo))
    if hit is not None:
        return hit
    meths = repo.module("pprint").methods.get("PrettyPrinter")
    if meths is None or "pprint" not in meths:
        raise AnalysisError("anchor vanished: pprint.PrettyPrinter.pprint")

    def self_calls(fn):
        return {c.func.attr for c in ast.walk(fn) if isinstance(c, ast.Call) and isinstance(c.func, ast.Attribute) and isinstance(c.func.value, ast.Name) and c.func.value.id == "self"}

    def mangled(n):
        return n

    cands = [m for m in sorted(self_calls(meths["pprint"])) if m in meths and m in self_calls(meths[m])]
    if not cands:
        # pprint() may reach it through private helpers (a generator producing the lines of every root)
        seen, todo = {"pprint"}, ["pprint"]
        while todo:
            cur = todo.pop()
            for m in sorted(self_calls(meths[cur])):
                if m in meths and m not in seen:
                    seen.add(m)
                    todo.append(m)
        rec = [m for m in sorted(seen) if m != "pprint" and m in self_calls(meths[m])]
        direct_helpers = [m for m in sorted(self_calls(meths["pprint"])) if m in meths]
        # the recursive method called by a helper pprint() calls directly
        cands = [m for m in rec if any(m in self_calls(meths[h]) for h in direct_helpers)]
    if len(cands) > 1:
        # several recursive helpers: the formatter is the one whose result feeds the lines pprint() joins
        pp = meths["pprint"]
        joined = {a.id for c in ast.walk(pp) if isinstance(c, ast.Call) and isinstance(c.func, ast.Attribute) and c.func.attr == "join" for a in c.args if isinstance(a, ast.Name)}
        feeds = set()
        for st in ast.walk(pp):
            tgt = None
            val = None
            if isinstance(st, ast.AugAssign) and isinstance(st.target, ast.Name):
                tgt, val = st.target.id, st.value
            elif isinstance(st, ast.Assign) and len(st.targets) == 1 and isinstance(st.targets[0], ast.Name):
                tgt, val = st.targets[0].id, st.value
            elif isinstance(st, ast.Call) and isinstance(st.func, ast.Attribute) and st.func.attr in ("extend", "append") and isinstance(st.func.value, ast.Name) and st.args:
                tgt, val = st.func.value.id, st.args[0]
            if tgt in joined and val is not None:
                feeds |= {c.func.attr for c in ast.walk(val) if isinstance(c, ast.Call) and isinstance(c.func, ast.Attribute) and isinstance(c.func.value, ast.Name) and c.func.value.id == "self"}
        narrowed = [m for m in cands if m in feeds]
        if len(narrowed) == 1:
            cands = narrowed
    if len(cands) != 1:
        raise AnalysisError(f"anchor vanished: the recursive block formatter pprint() calls (candidates {cands})")
    _FMT[id(repo)] = f"pprint.PrettyPrinter.{cands[0]}"
    return _FMT[id(repo)]


def fmt_level_kw(repo, level) -> dict:
    """{name of the formatter's nesting-level parameter: level} - the second parameter after self (it may be
    keyword-only, so it is always passed by name)."""
    fn = repo.func(fmt_qual(repo))
    names = [a.arg for a in fn.args.posonlyargs + fn.args.args + fn.args.kwonlyargs][1:]
    if len(names) < 2:
        raise AnalysisError(f"anchor vanished: {fmt_qual(repo)} no longer takes (block, level)")
    return {names[1]: level}


# ---------------------------------------------------------------------------------------------
# the retagging oracle used by the LALR sentence checks
# ---------------------------------------------------------------------------------------------


class RetagRaised(Exception):
    """Parser.parse's token loop raises for this (previous, current) token pair."""


def make_retag(e: Env) -> Callable:
    """retag(prev, kind, text, below) -> terminal name, evaluated from the current source of
    Parser.parse by PAI and memoised.  ``prev`` = (kind, text | None) of the previous token,
    ``below`` = 'token' | 'tree' | None: what lies under it on the value stack."""
    import ast as _ast

    from .core import fold as _fold

    memo: dict = {}
    parse_fn = e.repo.func("parser.Parser.parse")
    inspected = set()
    for n in _ast.walk(parse_fn):
        if isinstance(n, _ast.Compare) and isinstance(n.left, _ast.Attribute) and n.left.attr == "type":
            for c in n.comparators:
                try:
                    v = _fold(c)
                except Exception:
                    continue
                for x in v if isinstance(v, (tuple, list, frozenset, set)) else [v]:
                    if isinstance(x, str):
                        inspected.add(x)

    def retag(prev, kind, text, below="tree"):
        if kind not in inspected:
            return kind
        key = (prev, kind, text, below)
        if key not in memo:
            pv = None
            if prev is not None:
                pk, pt = prev
                pv = (pk, pt if pt is not None else (lambda: SStr.atom("prevtext", free=True)))
            outs = retag_outcomes(e, pv, kind, text if text is not None else (lambda: SStr.atom("curtext", free=True)), below or "tree")
            kinds = {o[0] for o in outs}
            if len(kinds) != 1:
                raise AnalysisError(f"retagging of {kind}({text}) after {prev} (below: {below}) is not determined: {sorted(map(str, kinds))}")
            memo[key] = next(iter(kinds))
        r = memo[key]
        if r.startswith("raise:"):
            raise RetagRaised(r[6:])
        return r

    retag.inspected = inspected  # type: ignore[attr-defined]
    return retag


# ---------------------------------------------------------------------------------------------
# the helper that reads the file name off an INCLUDE line, found by role
# ---------------------------------------------------------------------------------------------


def include_filename_func(e) -> tuple[str, bool]:
    """(qualified name, is_method) of the function Parser.load_includes hands each INCLUDE line to:
    the resolved callee whose argument is the line variable of the ``enumerate`` loop over the lines."""
    import ast as _ast

    from .pyfacts import dotted as _dotted

    fn = e.repo.func("parser.Parser.load_includes")
    line_vars = set()
    for n in _ast.walk(fn):
        if isinstance(n, _ast.For) and isinstance(n.iter, _ast.Call) and _dotted(n.iter.func) == "enumerate" and isinstance(n.target, _ast.Tuple) and len(n.target.elts) == 2 and isinstance(n.target.elts[1], _ast.Name):
            line_vars.add(n.target.elts[1].id)
    for cs in e.facts.calls["parser.Parser.load_includes"]:
        if cs.target and cs.target != "parser.Parser.load_includes" and len(cs.node.args) == 1 and isinstance(cs.node.args[0], _ast.Name) and cs.node.args[0].id in line_vars:
            return cs.target, cs.target.count(".") == 2
    raise AnalysisError("anchor vanished: the call in load_includes that reads the file name off an INCLUDE line")
