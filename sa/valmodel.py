"""Validator model shared by C07 / C08: representative Mapfile dictionary with symbolic positions,
jsonschema error-path shapes, PAI evaluation of Validator.create_message."""

from __future__ import annotations

from typing import Any

from . import models, pai
from .absval import SStr, SNum, SObj, HDict, Atom
from .core import AnalysisError
from .layout import cdict, word


def pos(tag: str, extra: dict | None = None) -> HDict:
    d = HDict()
    d.pytype = "OrderedDict"  # type: ignore[misc]
    d["line"] = SNum.sym(f"line_{tag}", 1, None)
    d["column"] = SNum.sym(f"col_{tag}", 1, None)
    for k, v in (extra or {}).items():
        d[k] = v
    return d


def representative(with_position: bool = True, suffix: str = "") -> HDict:
    """MAP -> WEB (singleton), LAYER[0] -> CLASS[0] -> STYLE[0]; FEATURE with POINTS; list-valued
    keywords SIZE / EXTENT / COLOR; key/value block METADATA."""
    num = lambda n: SNum.sym(n + suffix, None, None)
    P = lambda tag, extra=None: pos(tag + suffix, extra)
    style = cdict([("__type__", "style"), ("color", [num("r"), num("g"), num("b")]), ("width", num("w"))])
    cls = cdict([("__type__", "class"), ("name", word("cname")), ("styles", [style])])
    md = cdict([("__type__", "metadata"), ("wms_title", word("title"))])
    feat = cdict([("__type__", "feature"), ("points", [[(num("x0"), num("y0")), (num("x1"), num("y1"))]])])
    layer = cdict([("__type__", "layer"), ("name", word("lname")), ("type", SStr.atom("enumword", lower_is="point")), ("extent", [num("e0"), num("e1"), num("e2"), num("e3")]), ("processing", [word("proc0"), word("proc1")]), ("metadata", md), ("classes", [cls]), ("features", [feat])])
    web = cdict([("__type__", "web"), ("template", word("tmpl"))])
    root = cdict([("__type__", "map"), ("name", word("mname")), ("size", [num("sx"), num("sy")]), ("web", web), ("layers", [layer])])
    if with_position:
        style["__position__"] = P("style", {"color": P("style_color"), "width": P("style_width")})
        cls["__position__"] = P("class", {"name": P("class_name")})
        md["__position__"] = P("metadata")
        feat["__position__"] = P("feature", {"points": P("feature_points")})
        layer["__position__"] = P("layer", {"name": P("layer_name"), "type": P("layer_type"), "extent": P("layer_extent"), "processing": [P("layer_processing0"), P("layer_processing1")]})
        web["__position__"] = P("web", {"template": P("web_template")})
        root["__position__"] = P("map", {"name": P("map_name"), "size": P("map_size")})
    return root


# (path, what jsonschema reports there, expected key, path of the dict holding it, position tag)
SHAPES = [
    ([], "object-level error at the root (unknown / missing keyword)", "MAP", [], "map"),
    (["name"], "keyword value", "NAME", [], "map_name"),
    (["size", 0], "item of a list-valued keyword", "SIZE", [], "map_size"),
    (["size"], "list-valued keyword as a whole (arity)", "SIZE", [], "map_size"),
    (["web"], "object-level error in a singleton block", "WEB", ["web"], "web"),
    (["web", "template"], "keyword inside a singleton block", "TEMPLATE", ["web"], "web_template"),
    (["layers", 0], "object-level error in an object of a list", "LAYER", ["layers", 0], "layer"),
    (["layers", 0, "type"], "keyword of an object in a list", "TYPE", ["layers", 0], "layer_type"),
    (["layers", 0, "extent", 2], "item of a list-valued keyword, nested", "EXTENT", ["layers", 0], "layer_extent"),
    (["layers", 0, "processing", 1], "second occurrence of a repeated keyword (one recorded position per occurrence)", "PROCESSING", ["layers", 0], "layer_processing1"),
    (["layers", 0, "processing", 0], "first occurrence of a repeated keyword", "PROCESSING", ["layers", 0], "layer_processing0"),
    (["layers", 0, "metadata"], "object-level error in a key/value block", "METADATA", ["layers", 0, "metadata"], "metadata"),
    (["layers", 0, "classes", 0, "styles", 0], "object three lists deep", "STYLE", ["layers", 0, "classes", 0, "styles", 0], "style"),
    (["layers", 0, "classes", 0, "styles", 0, "color", 1], "item of a list-valued keyword, three lists deep", "COLOR", ["layers", 0, "classes", 0, "styles", 0], "style_color"),
    (["layers", 0, "features", 0, "points", 0, 1], "pair inside POINTS (two trailing indexes)", "POINTS", ["layers", 0, "features", 0], "feature_points"),
    (["layers", 0, "features", 0, "points", 0, 1, 0], "number inside a POINTS pair (three trailing indexes)", "POINTS", ["layers", 0, "features", 0], "feature_points"),
]


def walk(root: Any, path: list) -> Any:
    cur = root
    for p in path:
        cur = cur[p]
    return cur


def create_message(env: models.Env, path: list, add_comments: bool = False, with_position: bool = True):
    I = env.interp(allow_fork=False, max_depth=30)
    holder: dict = {}

    def make():
        root = representative(with_position)
        holder["root"] = root
        err = SObj("ValidationError", {"message": SStr.atom("errmsg", free=True)})
        return models.new_validator(I), [root, list(path), err, add_comments], {}

    outs = I.explore("validator.Validator.create_message", make)
    if len(outs) != 1:
        raise AnalysisError(f"create_message forks on path {path}")
    return outs[0], holder["root"]


def validate_roots(env: models.Env, paths: list, n_roots: int = 2):
    """Validator.validate evaluated on a list of ``n_roots`` representative root dictionaries (positions
    tagged _r0, _r1, ...), with jsonschema replaced by a stand-in that reports one error at each of ``paths``
    for every root.  Everything of the repository between validate() and create_message() runs as written.
    Returns (outcome, roots)."""
    holder: dict = {"n": 0}
    vobj = SObj("Draft4Validator", {}, methods=("iter_errors",))

    def meth(fr, recv, name, args, kwargs, node):
        if recv is vobj and name == "iter_errors":
            holder["n"] += 1
            return [SObj("ValidationError", {"message": SStr.atom("errmsg", free=True), "absolute_path": list(p)}) for p in paths]
        return NotImplemented

    stubs = {
        "validator.Validator.get_schema_validator": lambda I_, so, a, k: vobj,
        "validator.Validator.convert_lowercase": lambda I_, so, a, k: HDict({"lowered": True}),
        "ext:json.dumps": lambda fr, so, a, k: "<json>",
        "ext:json.loads": lambda fr, so, a, k: SObj("jsn", {}),
        "hook:method": meth,
    }
    I = env.interp(stubs=stubs, allow_fork=False, max_depth=40)

    def make():
        holder["n"] = 0
        holder["roots"] = [representative(True, f"_r{i}") for i in range(n_roots)]
        return models.new_validator(I), [list(holder["roots"])], {}

    outs = I.explore("validator.Validator.validate", make)
    if len(outs) != 1:
        raise AnalysisError("validate forks on a list of roots")
    if holder["n"] != n_roots and outs[0].kind == "return":
        raise AnalysisError(f"validate consulted the schema validator {holder['n']} time(s) for {n_roots} roots")
    return outs[0], holder["roots"]
