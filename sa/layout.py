"""Line templates of the pretty printer: PAI evaluation of PrettyPrinter._format / pprint on
representative Mapfile dictionaries (one entry per category of key) with symbolic options."""

from __future__ import annotations

from typing import Any, Callable

from . import absval as av
from . import pai
from .absval import SStr, SNum, SBool, HDict, Atom, CC, Rep
from .core import AnalysisError
from . import models, printer

CI = "ordereddict.CaseInsensitiveOrderedDict"


def cdict(items: list | None = None) -> HDict:
    d = HDict()
    d.pytype = CI  # type: ignore[misc]
    d.ci = True
    d.factory = None
    for k, v in items or []:
        d[k] = v
    return d


def word(name: str) -> SStr:
    return SStr.atom(name, first=printer.WORD, last=printer.WORD, excludes=frozenset("\"'`\n\r"), free=True)


def atoms_in(v: Any) -> list[Atom]:
    out = []
    if isinstance(v, SStr):
        for p in v.pieces:
            if isinstance(p, Atom):
                out.append(p)
            elif isinstance(p, Rep):
                out += atoms_in(SStr(p.base))
    elif isinstance(v, (list, tuple)):
        for x in v:
            out += atoms_in(x)
    return out


class Layout:
    def __init__(self, env: models.Env):
        self.env = env

    def interp(self, fork=True) -> pai.Interp:
        return self.env.interp(allow_fork=fork, max_paths=256, max_depth=24)

    def sym_options(self, **over) -> dict:
        o = {
            "indent": SNum.sym("indent", 0, None),
            "spacer": SStr.atom("spacer", excludes=frozenset("\n")),
            "quote": '"',
            "newlinechar": SStr.atom("NL"),
            "end_comment": SBool("end_comment"),
            "align_values": False,
            "separate_complex_types": False,
        }
        o.update(over)
        return o

    def format_lines(self, make_composite: Callable[[], Any], opts: Callable[[], dict], level: Any = None, fork=True) -> list:
        """Outcomes of PrettyPrinter._format(composite, level): list of (assumptions, kind, lines|exc)."""
        I = self.interp(fork)

        def make():
            o = opts()
            pp = models.printer(I, **o)
            lv = level() if callable(level) else (level if level is not None else SNum.sym("level", 0, None))
            return pp, [make_composite()], models.fmt_level_kw(I.repo, lv)  # level by name: it may be keyword-only

        outs = I.explore(models.fmt_qual(I.repo), make)
        return [(o.assumptions, o.kind, o.value if o.kind == "return" else o.exc) for o in outs]

    def pprint_text(self, make_composites: Callable[[], Any], opts: Callable[[], dict], fork=True) -> list:
        I = self.interp(fork)

        def make():
            pp = models.printer(I, **opts())
            return pp, [make_composites()], {}

        outs = I.explore("pprint.PrettyPrinter.pprint", make)
        return [(o.assumptions, o.kind, o.value if o.kind == "return" else o.exc) for o in outs]

    # ---- representative dictionaries -------------------------------------------------------------

    def layer(self, hidden: bool = False, comments: bool = False) -> HDict:
        cls = cdict([("__type__", "class"), ("name", word("classname"))])
        md = cdict([("__type__", "metadata"), ("akey", word("mdvalue"))])
        items = [("__type__", "layer")]
        if hidden:
            pos = HDict()
            pos["line"] = SStr.atom("HIDDEN_line")
            pos["name"] = HDict({"line": SStr.atom("HIDDEN_posname")})
            items.append(("__position__", pos))
            items.append(("__tokens__", [SStr.atom("HIDDEN_token")]))
            items.append(("__custom__", SStr.atom("HIDDEN_custom")))
            md["__position__"] = HDict({"line": SStr.atom("HIDDEN_mdpos")})
            cls["__position__"] = HDict({"line": SStr.atom("HIDDEN_clspos")})
        if comments:
            c = HDict()
            c["__type__"] = [SStr(["# ", Atom("COMMENT_type", excludes=frozenset("\n"))])]
            c["name"] = [SStr(["# ", Atom("COMMENT_name", excludes=frozenset("\n"))])]
            items.append(("__comments__", c))
        items += [
            ("name", word("layername")),
            ("type", SStr.atom("enumword", lower_is="polygon")),
            ("processing", [word("proc1"), word("proc2")]),
            ("projection", [word("proj1")]),
            ("metadata", md),
            ("classes", [cls]),
        ]
        return cdict(items)

    def layer_mixed(self, hidden: bool = False, comments: bool = False) -> HDict:
        """A LAYER whose simple keywords stand before, between and after its nested blocks."""
        d = self.layer(hidden=hidden, comments=comments)
        items = [(k, v) for k, v in d.items()]
        head = [(k, v) for k, v in items if k.startswith("__")]
        rest = [(k, v) for k, v in items if not k.startswith("__")]
        order = ["name", "classes", "type", "metadata", "processing", "projection"]
        byk = dict(rest)
        mixed = head + [(k, byk[k]) for k in order if k in byk]
        mixed.append(("status", SStr.atom("enumword2", lower_is="on")))
        if comments:
            dict(head)["__comments__"]["status"] = [SStr(["# ", Atom("COMMENT_status", excludes=frozenset("\n"))])]
        return cdict(mixed)

    def hidden_key_probes(self) -> list:
        res = []
        for name, mk in (("layer with __position__/__tokens__/__custom__", lambda: self.layer(hidden=True)),):
            outs = self.format_lines(mk, lambda: self.sym_options(end_comment=False), level=0, fork=True)
            for ass, kind, val in outs:
                if kind != "return":
                    # the printer itself (repository code, as evaluated) raises on a dictionary that only
                    # differs from a printable one by its hidden keys: they reached a writer
                    res.append((name, [], [f"the printer raises {val}"]))
                    continue
                leaked = sorted({a.name for a in atoms_in(val) if a.name.startswith("HIDDEN")})
                res.append((name + (f" [{'; '.join(ass)}]" if ass else ""), val, leaked))
        # key/value block entered at the root
        md = lambda: cdict([("__type__", "metadata"), ("__position__", HDict({"line": SStr.atom("HIDDEN_pos")})), ("akey", word("v"))])
        outs = self.pprint_text(md, lambda: self.sym_options(end_comment=False), fork=True)
        for ass, kind, val in outs:
            if kind != "return":
                res.append(("root METADATA block with __position__", [], [f"the printer raises {val}"]))
                continue
            leaked = sorted({a.name for a in atoms_in(val) if a.name.startswith("HIDDEN")})
            res.append(("root METADATA block with __position__", [val], leaked))
        # align_values exercises compute_max_key_length
        outs = self.format_lines(lambda: self.layer(hidden=True), lambda: self.sym_options(end_comment=False, align_values=True, indent=4), level=0, fork=True)
        for ass, kind, val in outs:
            if kind != "return":
                res.append(("layer with hidden keys, align_values=True", [], [f"the printer raises {val}"]))
                continue
            leaked = sorted({a.name for a in atoms_in(val) if a.name.startswith("HIDDEN")})
            res.append(("layer with hidden keys, align_values=True", val, leaked))
        return res
